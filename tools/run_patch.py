#!/usr/bin/env python3
"""tools/run_patch.py <patch.diff> [PROP ...]   -- run the checks on a scratch copy with the patch applied, print non-OK lines in full"""
import io, json, shutil, sys, tempfile
from contextlib import redirect_stdout
from pathlib import Path
sys.path.insert(0, str(Path(__file__).resolve().parent.parent))
from pgstat import selfval
from pgstat.__main__ import run_property

patch = str(Path(sys.argv[1]).resolve())
props = sys.argv[2:] or [json.loads(l)["id"] for l in (selfval.VERIF / "properties.jsonl").read_text().splitlines() if l.strip()]
root = Path(tempfile.mkdtemp(prefix="pgstat-runpatch-"))
try:
    why = selfval.make_variant({"patch": patch}, root)
    if why:
        print("SKIP", why)
        sys.exit(3)
    for p in props:
        buf = io.StringIO()
        with redirect_stdout(buf):
            code = run_property(p, root, "quick", 0, False, quiet=True)
        lines = [l for l in buf.getvalue().splitlines() if "VIOLATED" in l or "ANALYSIS-ERROR" in l or "UNDECIDED" in l]
        print(f"{p}: exit {code}")
        for l in lines:
            print("   ", l[:900])
finally:
    shutil.rmtree(root, ignore_errors=True)
