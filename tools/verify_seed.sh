#!/bin/sh
# tools/verify_seed.sh <name> <dir with patch.diff and demo.py> [nosuite]
# Confirms a seeded change in a fresh scratch worktree of /repo: demo passes on the original, fails with the patch,
# and the repository's test-suite still passes (38 passed / 3 always-failing CLI tests). The worktree is removed afterwards.
name=$1; src=$2; wt=/tmp/vs_$name; log=/tmp/vs_$name.log
: > $log
git -C /repo worktree remove --force $wt >/dev/null 2>&1
git -C /repo worktree add -q --detach $wt HEAD || exit 3
mkdir -p $wt/seed && cp $src/demo.py $wt/seed/ 2>/dev/null; cp $src/*.py $wt/seed/ 2>/dev/null
cd $wt
echo "== demo on original" >> $log
PYTHONPATH=$wt timeout 900 /venv/bin/python seed/demo.py >> $log 2>&1; o=$?
echo "demo_original_exit=$o" >> $log
git apply $src/patch.diff >> $log 2>&1 || { echo "PATCH_DOES_NOT_APPLY" >> $log; }
echo "== demo on changed" >> $log
PYTHONPATH=$wt timeout 900 /venv/bin/python seed/demo.py >> $log 2>&1; c=$?
echo "demo_changed_exit=$c" >> $log
if [ "$3" != "nosuite" ]; then
  echo "== suite on changed" >> $log
  PYTHONPATH=$wt /venv/bin/python -m pytest -q -p no:cacheprovider --timeout=900 --continue-on-collection-errors tests 2>&1 | tail -6 >> $log
fi
cd /; git -C /repo worktree remove --force $wt >/dev/null 2>&1
echo "DONE original=$o changed=$c" >> $log
