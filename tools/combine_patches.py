#!/usr/bin/env python3
"""tools/combine_patches.py <n> <seed> <outdir>: builds n combined patches, each the union of 3-5 randomly chosen agent refactorings
(selfval/benign_patches) that apply together on /repo, as a diff against /repo's package. Used to test interactions between refactorings."""
import random, shutil, subprocess, sys, tempfile
from pathlib import Path
n, seed, out = int(sys.argv[1]), int(sys.argv[2]), Path(sys.argv[3])
out.mkdir(parents=True, exist_ok=True)
patches = sorted((Path(__file__).resolve().parent.parent / "selfval" / "benign_patches").glob("*.diff"))
rnd = random.Random(seed)
made = 0
tries = 0
while made < n and tries < 20 * n:
    tries += 1
    k = rnd.randint(3, int(sys.argv[4]) if len(sys.argv) > 4 else 5)
    pick = rnd.sample(patches, k)
    root = Path(tempfile.mkdtemp(prefix="combine-"))
    try:
        shutil.copytree("/repo/pygamma_agreement", root / "a" / "pygamma_agreement", ignore=shutil.ignore_patterns("__pycache__"))
        shutil.copytree("/repo/pygamma_agreement", root / "b" / "pygamma_agreement", ignore=shutil.ignore_patterns("__pycache__"))
        ok = True
        for p in pick:
            r = subprocess.run(["patch", "-p1", "-s", "-d", str(root / "b"), "-i", str(p), "--no-backup-if-mismatch", "-F0"], capture_output=True, text=True)
            if r.returncode != 0:
                ok = False
                break
        if not ok:
            continue
        d = subprocess.run(["diff", "-ruN", "a/pygamma_agreement", "b/pygamma_agreement"], cwd=root, capture_output=True, text=True).stdout
        name = "combo-%03d-%s.diff" % (made, "+".join(p.name.split("-")[0] + p.name.split("-")[1] for p in pick))
        (out / name).write_text(d)
        made += 1
    finally:
        shutil.rmtree(root, ignore_errors=True)
print(made, "combined patches in", out)
