#!/usr/bin/env python3
"""Global behaviour-preserving source transformations used as robustness probes of the checker (thorough tier).
   python tools/transforms.py <name> <src pkg dir> <dst pkg dir>      names: add_logging, annotate_locals"""
import ast, sys, warnings
from pathlib import Path


def _is_njit(fn):
    return any("njit" in ast.unparse(d) or "dissimilarity_dec" in ast.unparse(d) for d in fn.decorator_list)


def _functions(tree):
    for n in ast.walk(tree):
        if isinstance(n, ast.FunctionDef):
            yield n


def add_logging(tree):
    """a debug log line (and a docstring where missing) at the top of every non-compiled function"""
    has_logging = any(isinstance(s, ast.Import) and any(a.name == "logging" for a in s.names) for s in tree.body)
    for fn in _functions(tree):
        if _is_njit(fn) or any(_is_njit(p) for p in ast.walk(tree) if isinstance(p, ast.FunctionDef) and fn in ast.walk(p) and p is not fn):
            continue
        is_gen = any(isinstance(x, (ast.Yield, ast.YieldFrom)) for x in ast.walk(fn))
        doc = ast.get_docstring(fn)
        stmt = ast.parse(f"logging.getLogger(__name__).debug('entering {fn.name}')").body[0]
        body = list(fn.body)
        if doc is None:
            body.insert(0, ast.Expr(value=ast.Constant(value=f"{fn.name} (documented by the robustness probe)")))
        body.insert(1, stmt)
        fn.body = body
    if not has_logging:
        idx = 1 if tree.body and isinstance(tree.body[0], ast.Expr) and isinstance(tree.body[0].value, ast.Constant) else 0
        tree.body.insert(idx, ast.parse("import logging").body[0])
    return tree


def annotate_locals(tree):
    """`x = v` -> `x: object = v` for simple single-name assignments in non-compiled functions (local annotations are never evaluated)"""
    class T(ast.NodeTransformer):
        def __init__(self):
            self.depth_njit = 0
            self.in_fn = 0
            self.globals_ = set()
        def visit_FunctionDef(self, n):
            nj = _is_njit(n)
            self.depth_njit += nj
            self.in_fn += 1
            self.generic_visit(n)
            self.in_fn -= 1
            self.depth_njit -= nj
            return n
        def visit_Assign(self, n):
            if self.in_fn and not self.depth_njit and len(n.targets) == 1 and isinstance(n.targets[0], ast.Name):
                return ast.copy_location(ast.AnnAssign(target=n.targets[0], annotation=ast.Name(id="object", ctx=ast.Load()), value=n.value, simple=1), n)
            return n
    return T().visit(tree)


def rename_self(tree):
    """`self` -> `this` in every method (and `cls` -> `klass`)"""
    class T(ast.NodeTransformer):
        def visit_ClassDef(self, c):
            for m in c.body:
                if isinstance(m, ast.FunctionDef) and m.args.args and m.args.args[0].arg in ("self", "cls"):
                    old = m.args.args[0].arg
                    new = {"self": "this", "cls": "klass"}[old]
                    if any(isinstance(x, ast.Name) and x.id == new for x in ast.walk(m)):
                        continue
                    for x in ast.walk(m):
                        if isinstance(x, ast.Name) and x.id == old:
                            x.id = new
                        elif isinstance(x, ast.arg) and x.arg == old:
                            x.arg = new
            return c
    return T().visit(tree)


def flip_comparisons(tree):
    """`a < b` -> `b > a`, `a <= b` -> `b >= a`, `a == b` -> `b == a`, `a != b` -> `b != a` for single comparisons whose operands are not None / not chained"""
    FLIP = {ast.Lt: ast.Gt, ast.Gt: ast.Lt, ast.LtE: ast.GtE, ast.GtE: ast.LtE, ast.Eq: ast.Eq, ast.NotEq: ast.NotEq}
    class T(ast.NodeTransformer):
        def visit_Compare(self, n):
            self.generic_visit(n)
            if len(n.ops) == 1 and type(n.ops[0]) in FLIP:
                l, r = n.left, n.comparators[0]
                if any(isinstance(x, ast.Constant) and x.value is None for x in (l, r)):
                    return n
                # cvxpy constraint expressions (A @ x == 1) are objects, flipping is still an equivalent constraint
                return ast.copy_location(ast.Compare(left=r, ops=[FLIP[type(n.ops[0])]()], comparators=[l]), n)
            return n
    return T().visit(tree)


def _not_njit_functions(tree):
    out = []
    def rec(n, inside):
        for ch in ast.iter_child_nodes(n):
            if isinstance(ch, ast.FunctionDef):
                nj = inside or _is_njit(ch)
                if not nj:
                    out.append(ch)
                rec(ch, nj)
            else:
                rec(ch, inside)
    rec(tree, False)
    return out


def _rewrite_blocks(fn, rewrite):
    """apply `rewrite(stmt) -> list of stmts` to every statement list inside fn (not descending into nested defs twice)"""
    for node in ast.walk(fn):
        for fld in ("body", "orelse", "finalbody"):
            blk = getattr(node, fld, None)
            if isinstance(blk, list) and blk and isinstance(blk[0], ast.stmt):
                new = []
                for st in blk:
                    new.extend(rewrite(st))
                setattr(node, fld, new)


def return_via_local(tree):
    """`return <expr>` -> `result_ = <expr>; return result_` for non-trivial expressions (not in generators / compiled code)"""
    for fn in _not_njit_functions(tree):
        def rw(st):
            if isinstance(st, ast.Return) and st.value is not None and not isinstance(st.value, (ast.Name, ast.Constant)):
                a = ast.copy_location(ast.Assign(targets=[ast.Name(id="result_", ctx=ast.Store())], value=st.value), st)
                r = ast.copy_location(ast.Return(value=ast.Name(id="result_", ctx=ast.Load())), st)
                return [a, r]
            return [st]
        _rewrite_blocks(fn, rw)
    return tree


def split_tuple_assign(tree):
    """`a, b = x, y` -> `a = x; b = y` when no target name occurs in the values (so the order does not matter)"""
    for fn in [n for n in ast.walk(tree) if isinstance(n, ast.FunctionDef)]:
        def rw(st):
            if isinstance(st, ast.Assign) and len(st.targets) == 1 and isinstance(st.targets[0], ast.Tuple) and isinstance(st.value, ast.Tuple) \
                    and len(st.targets[0].elts) == len(st.value.elts):
                tnames = {ast.unparse(t) for t in st.targets[0].elts}
                used = {ast.unparse(x) for v in st.value.elts for x in ast.walk(v) if isinstance(x, (ast.Name, ast.Attribute, ast.Subscript))}
                if not (tnames & used):
                    return [ast.copy_location(ast.Assign(targets=[t], value=v), st) for t, v in zip(st.targets[0].elts, st.value.elts)]
            return [st]
        _rewrite_blocks(fn, rw)
    return tree


def expand_augassign(tree):
    """`x op= y` -> `x = x op y` for name / subscript / attribute targets"""
    import copy
    for fn in [n for n in ast.walk(tree) if isinstance(n, ast.FunctionDef)]:
        def rw(st):
            if isinstance(st, ast.AugAssign):
                load = copy.deepcopy(st.target)
                for x in ast.walk(load):
                    if hasattr(x, "ctx"):
                        x.ctx = ast.Load()
                return [ast.copy_location(ast.Assign(targets=[st.target], value=ast.BinOp(left=load, op=st.op, right=st.value)), st)]
            return [st]
        _rewrite_blocks(fn, rw)
    return tree


def listcomp_to_loop(tree):
    """`x = [e for t in it]` (one generator, no condition) -> `x = []` + `for t in it: x.append(e)` in non-compiled functions"""
    for fn in _not_njit_functions(tree):
        def rw(st):
            if isinstance(st, ast.Assign) and len(st.targets) == 1 and isinstance(st.targets[0], ast.Name) and isinstance(st.value, ast.ListComp) \
                    and len(st.value.generators) == 1 and not st.value.generators[0].ifs and not st.value.generators[0].is_async:
                g = st.value.generators[0]
                nm = st.targets[0].id
                # the comprehension variable must not clash with the target or be used afterwards: keep it simple, require distinct names
                if nm in {x.id for x in ast.walk(st.value) if isinstance(x, ast.Name)}:
                    return [st]
                init = ast.copy_location(ast.Assign(targets=[ast.Name(id=nm, ctx=ast.Store())], value=ast.List(elts=[], ctx=ast.Load())), st)
                app = ast.Expr(value=ast.Call(func=ast.Attribute(value=ast.Name(id=nm, ctx=ast.Load()), attr="append", ctx=ast.Load()), args=[st.value.elt], keywords=[]))
                loop = ast.copy_location(ast.For(target=g.target, iter=g.iter, body=[app], orelse=[]), st)
                return [init, loop]
            return [st]
        _rewrite_blocks(fn, rw)
    return tree


def drop_else_after_return(tree):
    """`if c: ...return/raise/continue` `else: B`  ->  `if c: ...` followed by B"""
    for fn in [n for n in ast.walk(tree) if isinstance(n, ast.FunctionDef)]:
        def rw(st):
            if isinstance(st, ast.If) and st.orelse and st.body and isinstance(st.body[-1], (ast.Return, ast.Raise, ast.Continue, ast.Break)):
                rest = st.orelse
                st.orelse = []
                return [st] + rest
            return [st]
        for _ in range(3):
            _rewrite_blocks(fn, rw)
    return tree



_PURE_FUNCS = {"len", "sum", "min", "max", "abs", "float", "int", "sorted", "list", "tuple", "np.sum", "np.abs", "np.mean", "np.sqrt", "np.float32",
               "np.int32", "np.std", "np.log2", "np.ceil"}


def _pure(e):
    for x in ast.walk(e):
        if isinstance(x, ast.Call) and ast.unparse(x.func) not in _PURE_FUNCS:
            return False
        if isinstance(x, (ast.Lambda, ast.Yield, ast.YieldFrom, ast.Await, ast.NamedExpr, ast.Starred, ast.ListComp, ast.SetComp, ast.DictComp, ast.GeneratorExp)):
            return False
    return True


def explaining_temps(tree):
    """`f(a, <expr>, ...)` -> `tmp = <expr>; f(a, tmp, ...)`: the first non-trivial pure argument of the outermost call of a simple statement
    is given a name, when everything evaluated before it is a plain name / constant / field read (so the order of evaluation is unchanged)"""
    counter = [0]
    for fn in _not_njit_functions(tree):
        def rw(st):
            if not isinstance(st, (ast.Assign, ast.Return, ast.Expr, ast.AugAssign)) or st.value is None or not isinstance(st.value, ast.Call):
                return [st]
            c = st.value
            if isinstance(st, ast.AugAssign):
                return [st]

            def trivial(e):
                while isinstance(e, ast.Attribute):
                    e = e.value
                return isinstance(e, (ast.Name, ast.Constant))
            if not trivial(c.func):
                return [st]
            for k, a in enumerate(c.args):
                if trivial(a):
                    continue
                if isinstance(a, (ast.BinOp, ast.Subscript, ast.Call, ast.Compare, ast.UnaryOp, ast.Tuple, ast.List)) and _pure(a):
                    counter[0] += 1
                    nm = f"explained_{counter[0]}"
                    pre = ast.copy_location(ast.Assign(targets=[ast.Name(id=nm, ctx=ast.Store())], value=a), st)
                    c.args[k] = ast.copy_location(ast.Name(id=nm, ctx=ast.Load()), a)
                    return [pre, st]
                return [st]
            return [st]
        _rewrite_blocks(fn, rw)
    return tree


def guard_continue(tree):
    """last statement of a loop body `if c: S1; S2...` (no else, 2+ statements) -> `if not c: continue` followed by S1; S2..."""
    for fn in [n for n in ast.walk(tree) if isinstance(n, ast.FunctionDef)]:
        for L in [n for n in ast.walk(fn) if isinstance(n, (ast.For, ast.While))]:
            if L.body and isinstance(L.body[-1], ast.If) and not L.body[-1].orelse and len(L.body[-1].body) >= 2:
                i = L.body[-1]
                guard = ast.copy_location(ast.If(test=ast.UnaryOp(op=ast.Not(), operand=i.test), body=[ast.Continue()], orelse=[]), i)
                L.body = L.body[:-1] + [guard] + i.body
    return tree


def ifexp_to_if(tree):
    """`x = A if c else B` -> if/else statement; `return A if c else B` -> `if c: return A` / `return B`"""
    import copy
    for fn in [n for n in ast.walk(tree) if isinstance(n, ast.FunctionDef)]:
        def rw(st):
            if isinstance(st, ast.Assign) and len(st.targets) == 1 and isinstance(st.value, ast.IfExp):
                a = ast.copy_location(ast.Assign(targets=[copy.deepcopy(st.targets[0])], value=st.value.body), st)
                b = ast.copy_location(ast.Assign(targets=[copy.deepcopy(st.targets[0])], value=st.value.orelse), st)
                return [ast.copy_location(ast.If(test=st.value.test, body=[a], orelse=[b]), st)]
            if isinstance(st, ast.Return) and isinstance(st.value, ast.IfExp):
                return [ast.copy_location(ast.If(test=st.value.test, body=[ast.Return(value=st.value.body)], orelse=[]), st),
                        ast.copy_location(ast.Return(value=st.value.orelse), st)]
            return [st]
        _rewrite_blocks(fn, rw)
    return tree


def if_to_ifexp(tree):
    """`if c: x = A else: x = B` (same plain name) -> `x = A if c else B`"""
    for fn in [n for n in ast.walk(tree) if isinstance(n, ast.FunctionDef)]:
        def rw(st):
            if isinstance(st, ast.If) and len(st.body) == 1 and len(st.orelse) == 1 and all(
                    isinstance(x, ast.Assign) and len(x.targets) == 1 and isinstance(x.targets[0], ast.Name) for x in st.body + st.orelse) \
                    and st.body[0].targets[0].id == st.orelse[0].targets[0].id:
                return [ast.copy_location(ast.Assign(targets=[st.body[0].targets[0]],
                                                     value=ast.IfExp(test=st.test, body=st.body[0].value, orelse=st.orelse[0].value)), st)]
            return [st]
        _rewrite_blocks(fn, rw)
    return tree


def for_to_while(tree):
    """`for i in range(N): body` (N a plain name, i dead outside the loop and never assigned, no continue / else) -> `i = 0; while i < N: body; i += 1`"""
    for fn in [n for n in ast.walk(tree) if isinstance(n, ast.FunctionDef)]:
        def rw(st):
            if isinstance(st, ast.For) and not st.orelse and isinstance(st.target, ast.Name) and isinstance(st.iter, ast.Call) and \
                    ast.unparse(st.iter.func) == "range" and len(st.iter.args) == 1 and isinstance(st.iter.args[0], ast.Name):
                i, N = st.target.id, st.iter.args[0].id
                inside = {id(x) for x in ast.walk(st)}
                if any(isinstance(x, ast.Name) and x.id == i and id(x) not in inside for x in ast.walk(fn)):
                    return [st]
                if any(isinstance(x, ast.Name) and x.id in (i, N) and isinstance(x.ctx, ast.Store) for b in st.body for x in ast.walk(b)):
                    return [st]
                if any(isinstance(x, (ast.Continue, ast.FunctionDef, ast.Lambda, ast.Yield)) for b in st.body for x in ast.walk(b)):
                    return [st]
                init = ast.copy_location(ast.Assign(targets=[ast.Name(id=i, ctx=ast.Store())], value=ast.Constant(value=0)), st)
                inc = ast.AugAssign(target=ast.Name(id=i, ctx=ast.Store()), op=ast.Add(), value=ast.Constant(value=1))
                w = ast.copy_location(ast.While(test=ast.Compare(left=ast.Name(id=i, ctx=ast.Load()), ops=[ast.Lt()], comparators=[ast.Name(id=N, ctx=ast.Load())]),
                                                body=st.body + [inc], orelse=[]), st)
                return [init, w]
            return [st]
        _rewrite_blocks(fn, rw)
    return tree


def swap_if_branches(tree):
    """`if c: A else: B` -> `if not c: B else: A` (plain else branches only, not elif chains); `is` / `in` tests are negated in place"""
    for fn in [n for n in ast.walk(tree) if isinstance(n, ast.FunctionDef)]:
        for i in [n for n in ast.walk(fn) if isinstance(n, ast.If)]:
            if i.orelse and not (len(i.orelse) == 1 and isinstance(i.orelse[0], ast.If)):
                t = i.test
                if isinstance(t, ast.UnaryOp) and isinstance(t.op, ast.Not):
                    nt = t.operand
                elif isinstance(t, ast.Compare) and len(t.ops) == 1 and type(t.ops[0]) in (ast.Is, ast.IsNot, ast.In, ast.NotIn):
                    inv = {ast.Is: ast.IsNot, ast.IsNot: ast.Is, ast.In: ast.NotIn, ast.NotIn: ast.In}
                    nt = ast.Compare(left=t.left, ops=[inv[type(t.ops[0])]()], comparators=t.comparators)
                else:
                    nt = ast.UnaryOp(op=ast.Not(), operand=t)
                i.test = ast.copy_location(nt, t)
                i.body, i.orelse = i.orelse, i.body
    return tree


def unguard_continue(tree):
    """`if c: continue` followed by the rest of a loop body -> `if not c: <rest>`"""
    for fn in [n for n in ast.walk(tree) if isinstance(n, ast.FunctionDef)]:
        for L in [n for n in ast.walk(fn) if isinstance(n, (ast.For, ast.While))]:
            for k, st in enumerate(L.body):
                if isinstance(st, ast.If) and not st.orelse and len(st.body) == 1 and isinstance(st.body[0], ast.Continue) and k + 1 < len(L.body):
                    rest = L.body[k + 1:]
                    new = ast.copy_location(ast.If(test=ast.UnaryOp(op=ast.Not(), operand=st.test), body=rest, orelse=[]), st)
                    L.body = L.body[:k] + [new]
                    break
    return tree


def name_constants(tree):
    """numeric literals (floats, and ints other than -1, 0, 1, 2) used inside plain Python functions become module-level named constants"""
    consts = {}
    for fn in _not_njit_functions(tree):
        class T(ast.NodeTransformer):
            def visit_Constant(self, n):
                v = n.value
                if isinstance(v, bool) or not isinstance(v, (int, float)):
                    return n
                if isinstance(v, int) and v in (-1, 0, 1, 2):
                    return n
                name = consts.setdefault(repr(v), f"_NAMED_CONSTANT_{len(consts)}")
                return ast.copy_location(ast.Name(id=name, ctx=ast.Load()), n)

            def visit_FunctionDef(self, n):
                # defaults / decorators / annotations stay literal
                n.body = [self.visit(s) for s in n.body]
                return n

            def visit_JoinedStr(self, n):
                return n

            def visit_Subscript(self, n):
                n.value = self.visit(n.value)          # literal indexes (row[2]) stay literal
                return n
        fn.body = [T().visit(s) for s in fn.body]
    idx = 0
    while idx < len(tree.body) and (isinstance(tree.body[idx], (ast.Import, ast.ImportFrom)) or
                                    (isinstance(tree.body[idx], ast.Expr) and isinstance(tree.body[idx].value, ast.Constant))):
        idx += 1
    for rep, name in consts.items():
        tree.body.insert(idx, ast.Assign(targets=[ast.Name(id=name, ctx=ast.Store())], value=ast.parse(rep, mode="eval").body, lineno=1, col_offset=0))
    return tree


def keyword_args(tree, signatures=None):
    """positional arguments of calls to package functions / methods / constructors with a package-unique name become keyword arguments
    (all but the first one); `signatures`: name -> parameter list without the receiver, computed over the whole package"""
    signatures = signatures or {}
    for fn in _not_njit_functions(tree):
        for c in [x for x in ast.walk(fn) if isinstance(x, ast.Call)]:
            name = c.func.attr if isinstance(c.func, ast.Attribute) else (c.func.id if isinstance(c.func, ast.Name) else None)
            ps = signatures.get(name)
            if not ps or any(isinstance(a, ast.Starred) for a in c.args) or any(k.arg is None for k in c.keywords) or len(c.args) > len(ps) or len(c.args) < 2:
                continue
            used = {k.arg for k in c.keywords}
            moved = [(ps[i], a) for i, a in enumerate(c.args)][1:]
            if any(n in used for n, _ in moved):
                continue
            c.args = c.args[:1]
            c.keywords = [ast.keyword(arg=n, value=a) for n, a in moved] + c.keywords
    return tree


def package_signatures(src):
    """name -> parameters (without self/cls) for functions / methods / classes whose name is defined exactly once in the package and that
    are plain Python (no *args, not compiled)"""
    defs = {}
    for p in sorted(Path(src).glob("*.py")):
        with warnings.catch_warnings():
            warnings.simplefilter("ignore")
            t = ast.parse(p.read_text())
        for c in [n for n in ast.walk(t) if isinstance(n, ast.ClassDef)]:
            init = next((m for m in c.body if isinstance(m, ast.FunctionDef) and m.name == "__init__"), None)
            if init is not None and not init.args.vararg and not init.args.kwarg:
                defs.setdefault(c.name, []).append([a.arg for a in init.args.args][1:])
            else:
                defs.setdefault(c.name, []).append(None)
            for m in c.body:
                if isinstance(m, ast.FunctionDef) and not m.name.startswith("__"):
                    static = any(ast.unparse(d).endswith("staticmethod") for d in m.decorator_list)
                    ok = not m.args.vararg and not m.args.kwarg and not _is_njit(m) and not any("property" in ast.unparse(d) or "setter" in ast.unparse(d) for d in m.decorator_list)
                    defs.setdefault(m.name, []).append(([a.arg for a in m.args.args][0 if static else 1:]) if ok else None)
        for f in [n for n in t.body if isinstance(n, ast.FunctionDef)]:
            ok = not f.args.vararg and not f.args.kwarg and not _is_njit(f)
            defs.setdefault(f.name, []).append([a.arg for a in f.args.args] if ok else None)
    builtin_like = {"add", "remove", "index", "copy", "get", "pop", "update", "append", "sort", "items", "keys", "values", "d", "check", "gamma"}
    return {n: v[0] for n, v in defs.items() if len(v) == 1 and v[0] is not None and n not in builtin_like}


TRANSFORMS = {"return_via_local": return_via_local, "split_tuple_assign": split_tuple_assign, "expand_augassign": expand_augassign,
              "listcomp_to_loop": listcomp_to_loop, "drop_else_after_return": drop_else_after_return,
              "add_logging": add_logging, "annotate_locals": annotate_locals, "rename_self": rename_self, "flip_comparisons": flip_comparisons,
              "explaining_temps": explaining_temps, "guard_continue": guard_continue, "ifexp_to_if": ifexp_to_if, "if_to_ifexp": if_to_ifexp,
              "for_to_while": for_to_while, "keyword_args": keyword_args, "swap_if_branches": swap_if_branches, "unguard_continue": unguard_continue, "name_constants": name_constants}


def transform_package(name, src, dst):
    src, dst = Path(src), Path(dst)
    dst.mkdir(parents=True, exist_ok=True)
    for p in sorted(src.glob("*.py")):
        with warnings.catch_warnings():
            warnings.simplefilter("ignore")
            tree = ast.parse(p.read_text())
        if name == "keyword_args":
            tree = keyword_args(tree, package_signatures(src))
        else:
            tree = TRANSFORMS[name](tree)
        ast.fix_missing_locations(tree)
        (dst / p.name).write_text(ast.unparse(tree) + "\n")


if __name__ == "__main__":
    transform_package(sys.argv[1], sys.argv[2], sys.argv[3])
