#!/usr/bin/env python3
"""Global behaviour-preserving source transformations used as robustness probes of the checker (thorough tier).
   python tools/transforms.py <name> <src pkg dir> <dst pkg dir>      names: add_logging, annotate_locals"""
import ast, sys, warnings
from pathlib import Path


def _is_njit(fn):
    return any("njit" in ast.unparse(d) or "dissimilarity_dec" in ast.unparse(d) for d in fn.decorator_list)


def _functions(tree):
    for n in ast.walk(tree):
        if isinstance(n, ast.FunctionDef):
            yield n


def add_logging(tree):
    """a debug log line (and a docstring where missing) at the top of every non-compiled function"""
    has_logging = any(isinstance(s, ast.Import) and any(a.name == "logging" for a in s.names) for s in tree.body)
    for fn in _functions(tree):
        if _is_njit(fn) or any(_is_njit(p) for p in ast.walk(tree) if isinstance(p, ast.FunctionDef) and fn in ast.walk(p) and p is not fn):
            continue
        is_gen = any(isinstance(x, (ast.Yield, ast.YieldFrom)) for x in ast.walk(fn))
        doc = ast.get_docstring(fn)
        stmt = ast.parse(f"logging.getLogger(__name__).debug('entering {fn.name}')").body[0]
        body = list(fn.body)
        if doc is None:
            body.insert(0, ast.Expr(value=ast.Constant(value=f"{fn.name} (documented by the robustness probe)")))
        body.insert(1, stmt)
        fn.body = body
    if not has_logging:
        idx = 1 if tree.body and isinstance(tree.body[0], ast.Expr) and isinstance(tree.body[0].value, ast.Constant) else 0
        tree.body.insert(idx, ast.parse("import logging").body[0])
    return tree


def annotate_locals(tree):
    """`x = v` -> `x: object = v` for simple single-name assignments in non-compiled functions (local annotations are never evaluated)"""
    class T(ast.NodeTransformer):
        def __init__(self):
            self.depth_njit = 0
            self.in_fn = 0
            self.globals_ = set()
        def visit_FunctionDef(self, n):
            nj = _is_njit(n)
            self.depth_njit += nj
            self.in_fn += 1
            self.generic_visit(n)
            self.in_fn -= 1
            self.depth_njit -= nj
            return n
        def visit_Assign(self, n):
            if self.in_fn and not self.depth_njit and len(n.targets) == 1 and isinstance(n.targets[0], ast.Name):
                return ast.copy_location(ast.AnnAssign(target=n.targets[0], annotation=ast.Name(id="object", ctx=ast.Load()), value=n.value, simple=1), n)
            return n
    return T().visit(tree)


def rename_self(tree):
    """`self` -> `this` in every method (and `cls` -> `klass`)"""
    class T(ast.NodeTransformer):
        def visit_ClassDef(self, c):
            for m in c.body:
                if isinstance(m, ast.FunctionDef) and m.args.args and m.args.args[0].arg in ("self", "cls"):
                    old = m.args.args[0].arg
                    new = {"self": "this", "cls": "klass"}[old]
                    if any(isinstance(x, ast.Name) and x.id == new for x in ast.walk(m)):
                        continue
                    for x in ast.walk(m):
                        if isinstance(x, ast.Name) and x.id == old:
                            x.id = new
                        elif isinstance(x, ast.arg) and x.arg == old:
                            x.arg = new
            return c
    return T().visit(tree)


def flip_comparisons(tree):
    """`a < b` -> `b > a`, `a <= b` -> `b >= a`, `a == b` -> `b == a`, `a != b` -> `b != a` for single comparisons whose operands are not None / not chained"""
    FLIP = {ast.Lt: ast.Gt, ast.Gt: ast.Lt, ast.LtE: ast.GtE, ast.GtE: ast.LtE, ast.Eq: ast.Eq, ast.NotEq: ast.NotEq}
    class T(ast.NodeTransformer):
        def visit_Compare(self, n):
            self.generic_visit(n)
            if len(n.ops) == 1 and type(n.ops[0]) in FLIP:
                l, r = n.left, n.comparators[0]
                if any(isinstance(x, ast.Constant) and x.value is None for x in (l, r)):
                    return n
                # cvxpy constraint expressions (A @ x == 1) are objects, flipping is still an equivalent constraint
                return ast.copy_location(ast.Compare(left=r, ops=[FLIP[type(n.ops[0])]()], comparators=[l]), n)
            return n
    return T().visit(tree)


TRANSFORMS = {"add_logging": add_logging, "annotate_locals": annotate_locals, "rename_self": rename_self, "flip_comparisons": flip_comparisons}


def transform_package(name, src, dst):
    src, dst = Path(src), Path(dst)
    dst.mkdir(parents=True, exist_ok=True)
    for p in sorted(src.glob("*.py")):
        with warnings.catch_warnings():
            warnings.simplefilter("ignore")
            tree = ast.parse(p.read_text())
        tree = TRANSFORMS[name](tree)
        ast.fix_missing_locations(tree)
        (dst / p.name).write_text(ast.unparse(tree) + "\n")


if __name__ == "__main__":
    transform_package(sys.argv[1], sys.argv[2], sys.argv[3])
