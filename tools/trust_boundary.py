#!/usr/bin/env python3
"""tools/trust_boundary.py [PROP ...]: for each property, the package functions reachable (resolved call graph) from the functions its rules
analysed that no rule of that property looked at - the code the verdict takes on trust.  Used to decide where supporting rules are needed."""
import json, sys
sys.path.insert(0, "/verif")
from pathlib import Path
from pgstat.core import Ctx
from pgstat.model import Model
from pgstat.rules.common import prog
import importlib

props = sys.argv[1:] or [json.loads(l)["id"] for l in open("/verif/properties.jsonl")]
M = Model(Path("/repo"))
tot = {}
for p in props:
    ctx = Ctx(p, Path("/repo"), "quick", M)
    ctx.quiet = True
    importlib.import_module(f"pgstat.rules.{p.lower()}").run(ctx)
    roots = sorted(q for q in ctx.functions_analysed if q in M.functions)
    reach = set(prog(ctx).reachable(roots)) - set(roots)
    reach = {q for q in reach if q in M.functions and "<locals>" not in q}
    print(p, len(roots), "analysed;", len(reach), "trusted:", ", ".join(sorted(reach)))
    for q in reach:
        tot.setdefault(q, []).append(p)
print()
for q, ps in sorted(tot.items(), key=lambda kv: -len(kv[1])):
    print(f"{len(ps):2d} {q}: {' '.join(ps)}")
