#!/usr/bin/env python3
"""tools/rename_locals.py <src pkg dir> <dst pkg dir>: behaviour-preserving transformation - every local variable of every
top-level function / method is renamed (consistently inside nested functions, comprehensions, handlers); parameters, globals,
attributes and keywords are left alone. Used to probe how much the rules depend on local names."""
import ast, builtins, sys, warnings
from pathlib import Path



def params_of(fn):
    a = fn.args
    out = {x.arg for x in a.posonlyargs + a.args + a.kwonlyargs}
    if a.vararg: out.add(a.vararg.arg)
    if a.kwarg: out.add(a.kwarg.arg)
    return out


class Ren(ast.NodeTransformer):
    def __init__(self, mapping):
        self.m = mapping
    def visit_Name(self, n):
        if n.id in self.m:
            return ast.copy_location(ast.Name(id=self.m[n.id], ctx=n.ctx), n)
        return n
    def visit_ExceptHandler(self, n):
        if n.name in self.m:
            n.name = self.m[n.name]
        return self.generic_visit(n)
    def visit_FunctionDef(self, n):
        if n.name in self.m:
            n.name = self.m[n.name]
        return self.generic_visit(n)


def process_function(fn, module_names):
    protected = set(module_names) | set(dir(builtins))
    allparams = set()
    for sub in ast.walk(fn):
        if isinstance(sub, (ast.FunctionDef, ast.Lambda)):
            allparams |= params_of(sub)
    stored = set()
    for sub in ast.walk(fn):
        if isinstance(sub, ast.Name) and isinstance(sub.ctx, ast.Store):
            stored.add(sub.id)
        elif isinstance(sub, ast.ExceptHandler) and sub.name:
            stored.add(sub.name)
        elif isinstance(sub, ast.FunctionDef) and sub is not fn:
            stored.add(sub.name)
        elif isinstance(sub, (ast.Import, ast.ImportFrom)):
            for a in sub.names:
                protected.add((a.asname or a.name).split(".")[0])
    names = sorted(n for n in stored if n not in allparams and n not in protected and n != "_")
    mapping = {n: f"{n[:1]}v{i}_{len(n)}" for i, n in enumerate(names)}
    Ren(mapping).visit(fn)


def rename_package(src, dst):
    src, dst = Path(src), Path(dst)
    dst.mkdir(parents=True, exist_ok=True)
    for p in sorted(src.glob("*.py")):
        with warnings.catch_warnings():
            warnings.simplefilter("ignore")
            tree = ast.parse(p.read_text())
        module_names = {n.id for n in ast.walk(tree) if isinstance(n, ast.Name) and isinstance(n.ctx, ast.Store) and any(n in ast.walk(s) for s in tree.body if not isinstance(s, (ast.FunctionDef, ast.ClassDef)))}
        for s in tree.body:
            if isinstance(s, (ast.ClassDef, ast.FunctionDef)):
                module_names.add(s.name)
            if isinstance(s, (ast.Import, ast.ImportFrom)):
                for a in s.names:
                    module_names.add((a.asname or a.name).split(".")[0])
        for s in tree.body:
            if isinstance(s, ast.FunctionDef):
                process_function(s, module_names)
            elif isinstance(s, ast.ClassDef):
                for m in s.body:
                    if isinstance(m, ast.FunctionDef):
                        process_function(m, module_names)
        (dst / p.name).write_text(ast.unparse(tree) + "\n")


if __name__ == "__main__":
    rename_package(sys.argv[1], sys.argv[2])
