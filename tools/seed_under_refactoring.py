#!/usr/bin/env python3
"""tools/seed_under_refactoring.py [n per seed] [seed]: every seeded defect combined with random agent refactorings that apply together with it.
The property that reports (or refuses) the seed must not turn silent because the surrounding code was refactored.
Prints every combination whose check exits 0."""
import io, json, random, shutil, subprocess, sys, tempfile
from concurrent.futures import ProcessPoolExecutor
from contextlib import redirect_stdout
from pathlib import Path
V = Path(__file__).resolve().parent.parent
sys.path.insert(0, str(V))


def job(args):
    seed_dir, prop, picks = args
    from pgstat.__main__ import run_property
    root = Path(tempfile.mkdtemp(prefix="seedrf-"))
    try:
        shutil.copytree("/repo/pygamma_agreement", root / "pygamma_agreement", ignore=shutil.ignore_patterns("__pycache__"))
        for p in [str(Path(seed_dir) / "patch.diff")] + picks:
            r = subprocess.run(["patch", "-p1", "-s", "-d", str(root), "-i", p, "--no-backup-if-mismatch", "-F0"], capture_output=True, text=True)
            if r.returncode != 0:
                return (seed_dir, prop, picks, "conflict")
        buf = io.StringIO()
        with redirect_stdout(buf):
            code = run_property(prop, root, "quick", 0, False, quiet=True)
        return (seed_dir, prop, picks, code)
    finally:
        shutil.rmtree(root, ignore_errors=True)


def main():
    n = int(sys.argv[1]) if len(sys.argv) > 1 else 4
    rnd = random.Random(int(sys.argv[2]) if len(sys.argv) > 2 else 0)
    benign = sorted(str(p) for p in (V / "selfval" / "benign_patches").glob("*.diff"))
    jobs = []
    for d in sorted((V / "seeded").iterdir()):
        mj = d / "meta.json"
        if not mj.exists():
            continue
        meta = json.loads(mj.read_text())
        props = [x["property"] for x in meta.get("detected_by", [])] + [x["property"] for x in meta.get("refused_by", [])]
        for prop in sorted(set(props)):
            for _ in range(n):
                jobs.append((str(d), prop, rnd.sample(benign, rnd.randint(1, 3))))
    with ProcessPoolExecutor(max_workers=16) as ex:
        res = list(ex.map(job, jobs))
    ran = [r for r in res if r[3] != "conflict"]
    silent = [r for r in ran if r[3] == 0]
    for r in silent:
        print("SILENT", Path(r[0]).name, r[1], [Path(p).name[:30] for p in r[2]])
    print(f"{len(res)} combinations, {len(res) - len(ran)} textual conflicts, {len(ran)} run, {len(silent)} silent")


if __name__ == "__main__":
    main()
