#!/usr/bin/env python3
"""tools/install_seed.py <seed-id> <srcdir> <verify-log> <property> <rule> "<summary>" "<needs>"
Copies a confirmed seeded change into /verif/seeded/<seed-id>/ with its meta.json."""
import json, re, shutil, sys
from pathlib import Path

sid, src, log, prop, rule, summary, needs = sys.argv[1:8]
logt = Path(log).read_text()
m = re.search(r"DONE original=(\d+) changed=(\d+)", logt)
suite = re.findall(r"(\d+) failed, (\d+) passed", logt)
assert m and m.group(1) == "0" and m.group(2) != "0", "demo must pass on the original and fail with the change"
assert suite and suite[-1] == ("3", "38"), f"suite must stay at 38 passed / 3 failed, got {suite}"
dst = Path("/verif/seeded") / sid
dst.mkdir(parents=True, exist_ok=True)
for fn in ("patch.diff", "demo.py", "notes.md"):
    if (Path(src) / fn).exists():
        shutil.copy(Path(src) / fn, dst / fn)
meta = {
    "property": prop, "summary": summary, "needs_to_manifest": needs,
    "source": "written by an independent sub-agent given only the property text and a scratch worktree",
    "confirmed": {"how": "tools/verify_seed.sh in a fresh scratch worktree of /repo (removed afterwards)",
                  "demo_on_original_exit": int(m.group(1)), "demo_with_change_exit": int(m.group(2)),
                  "suite_with_change": f"{suite[-1][1]} passed, {suite[-1][0]} failed (the 3 always-failing tests/test_cli.py cases)"},
}
if rule == "REFUSED":
    meta["refused_by"] = [{"property": prop}]
    meta["detected_by"] = []
    meta["note"] = "the static check cannot decide this restructured code: it answers ANALYSIS-ERROR (exit 2), neither a pass nor a claimed violation"
else:
    meta["detected_by"] = [{"property": prop, "rule": rule}]
(dst / "meta.json").write_text(json.dumps(meta, indent=1) + "\n")
print("installed", dst)
