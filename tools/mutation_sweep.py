#!/usr/bin/env python3
"""tools/mutation_sweep.py [--limit N] [--only FUNC]: first-order syntactic mutants of every function some property's check analyses
(evidence/*.json: functions_analysed); each mutant is checked by the properties that analyse that function.  Lists the mutants on which
all of those checks stay silent - candidates for a missed clause, to be triaged by reading (many are equivalent or outside every property).
The repository code is never executed."""
import ast, copy, io, json, shutil, sys, tempfile
from concurrent.futures import ProcessPoolExecutor
from contextlib import redirect_stdout
from pathlib import Path
V = Path(__file__).resolve().parent.parent
sys.path.insert(0, str(V))
PKG = Path("/repo/pygamma_agreement")

FLIP_CMP = {ast.Lt: ast.LtE, ast.LtE: ast.Lt, ast.Gt: ast.GtE, ast.GtE: ast.Gt, ast.Eq: ast.NotEq, ast.NotEq: ast.Eq, ast.Is: ast.IsNot, ast.IsNot: ast.Is,
            ast.In: ast.NotIn, ast.NotIn: ast.In}
SWAP_BIN = {ast.Add: ast.Sub, ast.Sub: ast.Add, ast.Mult: ast.Div, ast.Div: ast.Mult, ast.FloorDiv: ast.Div}


def owners():
    """qualname -> properties analysing it"""
    out = {}
    for ev in sorted((V / "evidence").glob("C*.json")):
        d = json.loads(ev.read_text())
        for q in d["coverage"].get("functions_analysed", []):
            out.setdefault(q, set()).add(d["property_id"])
            if ".<locals>." in q:          # a nested kernel's statements are also statements of its enclosing function
                out.setdefault(q.split(".<locals>.")[0], set()).add(d["property_id"])
    return out


def functions(tree):
    """(qualname, node) for top-level functions, methods and functions nested one level (kernels)"""
    for s in tree.body:
        if isinstance(s, ast.FunctionDef):
            yield s.name, s
        elif isinstance(s, ast.ClassDef):
            for m in s.body:
                if isinstance(m, ast.FunctionDef):
                    yield f"{s.name}.{m.name}", m
                    for n in m.body:
                        if isinstance(n, ast.FunctionDef):
                            yield f"{s.name}.{m.name}.<locals>.{n.name}", n


def mutants_of(fn):
    """yields (description, mutate(copy_of_fn)) for each mutation site"""
    nodes = list(ast.walk(fn))
    for idx, n, in enumerate(nodes):
        for i_, d_, k_ in _mutants_at(idx, n):
            yield i_, f"L{getattr(n, 'lineno', 0)}: {d_}", k_


def _mutants_at(idx, n):
    if True:
        if isinstance(n, ast.Compare) and len(n.ops) == 1 and type(n.ops[0]) in FLIP_CMP:
            yield idx, f"compare {type(n.ops[0]).__name__}->{FLIP_CMP[type(n.ops[0])].__name__} in `{ast.unparse(n)[:60]}`", "cmp"
        elif isinstance(n, ast.BinOp) and type(n.op) in SWAP_BIN:
            yield idx, f"binop {type(n.op).__name__}->{SWAP_BIN[type(n.op)].__name__} in `{ast.unparse(n)[:60]}`", "bin"
        elif isinstance(n, ast.BoolOp):
            yield idx, f"boolop swap in `{ast.unparse(n)[:60]}`", "bool"
        elif isinstance(n, ast.Constant) and isinstance(n.value, (int, float)) and not isinstance(n.value, bool):
            yield idx, f"constant {n.value!r} -> {n.value + 1!r}", "const"
        elif isinstance(n, ast.If):
            yield idx, f"negate if `{ast.unparse(n.test)[:60]}`", "negif"
        elif isinstance(n, (ast.Expr, ast.Assign, ast.AugAssign)) and not (isinstance(n, ast.Expr) and isinstance(n.value, ast.Constant)):
            yield idx, f"delete `{ast.unparse(n)[:60]}`", "del"
        elif isinstance(n, ast.UnaryOp) and isinstance(n.op, ast.Not):
            yield idx, f"drop not in `{ast.unparse(n)[:60]}`", "not"


def apply(fn, idx, kind):
    f2 = copy.deepcopy(fn)
    n = list(ast.walk(f2))[idx]
    if kind == "cmp":
        n.ops = [FLIP_CMP[type(n.ops[0])]()]
    elif kind == "bin":
        n.op = SWAP_BIN[type(n.op)]()
    elif kind == "bool":
        n.op = ast.Or() if isinstance(n.op, ast.And) else ast.And()
    elif kind == "const":
        n.value = n.value + 1
    elif kind == "negif":
        n.test = ast.UnaryOp(op=ast.Not(), operand=n.test)
    elif kind == "not":
        # replace `not x` by `x`: find parent
        for p in ast.walk(f2):
            for fld, val in ast.iter_fields(p):
                if val is n:
                    setattr(p, fld, n.operand)
                elif isinstance(val, list) and any(v is n for v in val):
                    val[val.index(n)] = n.operand
    elif kind == "del":
        for p in ast.walk(f2):
            for fld in ("body", "orelse", "finalbody"):
                blk = getattr(p, fld, None)
                if isinstance(blk, list) and any(v is n for v in blk):
                    blk[[i for i, v in enumerate(blk) if v is n][0]] = ast.Pass()
    ast.fix_missing_locations(f2)
    return f2


def job(args):
    relfile, qn, occ, idx, kind, desc, props = args
    from pgstat.__main__ import run_property
    src = (PKG / relfile).read_text()
    tree = ast.parse(src)
    target = None
    seen = 0
    for q, node in functions(tree):
        if q == qn:
            if seen == occ:
                target = node
            seen += 1
    if target is None:
        return (qn, desc, "nofunc", {})
    new = apply(target, idx, kind)
    # splice by source lines (keeps the rest of the file byte-identical)
    lines = src.splitlines(keepends=True)
    start = min([target.lineno] + [d.lineno for d in target.decorator_list]) - 1
    indent = " " * target.col_offset
    new_src = "".join(indent + l + "\n" if l.strip() else "\n" for l in ast.unparse(new).splitlines())
    out_src = "".join(lines[:start]) + new_src + "".join(lines[target.end_lineno:])
    try:
        ast.parse(out_src)
    except SyntaxError:
        return (qn, desc, "syntax", {})
    root = Path(tempfile.mkdtemp(prefix="mutsweep-"))
    try:
        shutil.copytree(PKG, root / "pygamma_agreement", ignore=shutil.ignore_patterns("__pycache__"))
        (root / "pygamma_agreement" / relfile).write_text(out_src)
        codes = {}
        for p in props:
            buf = io.StringIO()
            with redirect_stdout(buf):
                codes[p] = run_property(p, root, "quick", 0, False, quiet=True)
        return (qn, desc, "ran", codes)
    finally:
        shutil.rmtree(root, ignore_errors=True)


def main():
    own = owners()
    only = sys.argv[sys.argv.index("--only") + 1] if "--only" in sys.argv else None
    limit = int(sys.argv[sys.argv.index("--limit") + 1]) if "--limit" in sys.argv else None
    jobs = []
    for f in sorted(PKG.glob("*.py")):
        tree = ast.parse(f.read_text())
        count = {}
        for qn, node in functions(tree):
            occ = count.get(qn, 0)
            count[qn] = occ + 1
            props = own.get(qn)
            if not props or (only and only not in qn):
                continue
            for idx, desc, kind in mutants_of(node):
                jobs.append((f.name, qn, occ, idx, kind, desc, sorted(props)))
    if limit:
        import random
        random.Random(0).shuffle(jobs)
        jobs = jobs[:limit]
    print(len(jobs), "mutants", file=sys.stderr)
    with ProcessPoolExecutor(max_workers=16) as ex:
        res = list(ex.map(job, jobs, chunksize=4))
    ran = [r for r in res if r[2] == "ran"]
    silent = [r for r in ran if all(c == 0 for c in r[3].values())]
    refused = [r for r in ran if any(c == 2 for c in r[3].values()) and not any(c == 1 for c in r[3].values())]
    out = V / "selfval" / "mutation_sweep_silent.txt"
    with open(out, "w") as fh:
        for r in sorted(silent):
            fh.write(f"{r[0]}\t{r[1]}\t{','.join(sorted(r[3]))}\n")
    print(f"{len(res)} mutants, {len(ran)} run; reported as violation by some owner: {len(ran) - len(silent) - len(refused)}, refused only: {len(refused)}, "
          f"silent for every owner: {len(silent)} (listed in {out})")


if __name__ == "__main__":
    main()
