#!/usr/bin/env python3
"""tools/seed_matrix.py <dir-with-patch.diff> [...]: applies each patch to /repo, runs all 20 checks (no evidence written), undoes it, and prints
per patch which rules report VIOLATED and which properties answer ANALYSIS-ERROR.  /repo is left clean."""
import json, re, subprocess, sys
from concurrent.futures import ThreadPoolExecutor
from pathlib import Path

PROPS = [json.loads(l)["id"] for l in open("/verif/properties.jsonl")]


def run(p):
    r = subprocess.run(["/verif/check", p, "--no-evidence"], capture_output=True, text=True)
    return p, r.returncode, r.stdout + r.stderr


out = {}
for d in sys.argv[1:]:
    patch = Path(d) / "patch.diff" if Path(d).is_dir() else Path(d)
    assert subprocess.run(["git", "-C", "/repo", "status", "--porcelain"], capture_output=True, text=True).stdout.strip() == "", "/repo not clean"
    a = subprocess.run(["git", "-C", "/repo", "apply", str(patch.resolve())], capture_output=True, text=True)
    if a.returncode:
        out[str(d)] = {"error": a.stderr}
        continue
    try:
        with ThreadPoolExecutor(16) as ex:
            res = list(ex.map(run, PROPS))
    finally:
        subprocess.run(["git", "-C", "/repo", "checkout", "--", "."], check=True)
    det, ref = [], []
    for p, rc, txt in res:
        rules = sorted(set(re.findall(r"^\s*(R-[\w-]+) VIOLATED", txt, re.M)))
        for r in rules:
            det.append({"property": p, "rule": r})
        if rc == 2 or (rc != 0 and not rules):
            ref.append({"property": p, "rules": sorted(set(re.findall(r"ANALYSIS-ERROR property=\w+ rule=([\w-]+)", txt)))})
    out[str(d)] = {"detected_by": det, "refused_by": ref}
    print(d, "detected:", [f"{x['property']}:{x['rule']}" for x in det], "refused:", [x["property"] for x in ref], flush=True)
json.dump(out, open("/tmp/seed_matrix.json", "w"), indent=1)
