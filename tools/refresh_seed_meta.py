#!/usr/bin/env python3
"""tools/refresh_seed_meta.py [--write] [seed-id-substring ...]
Re-runs all 20 checks on a scratch copy of /repo with each seeded change applied (in parallel; /repo itself is not touched) and compares
what reports / refuses it with the detected_by / refused_by recorded in its meta.json.  With --write the two lists are rewritten (everything
else in meta.json is kept).  A seed that no check reports or refuses any more is printed as SILENT and never written."""
import io, json, re, shutil, sys, tempfile
from concurrent.futures import ProcessPoolExecutor
from contextlib import redirect_stdout
from pathlib import Path
V = Path(__file__).resolve().parent.parent
sys.path.insert(0, str(V))
PROPS = [json.loads(l)["id"] for l in (V / "properties.jsonl").read_text().splitlines() if l.strip()]


def job(seed_dir):
    from pgstat import selfval
    from pgstat.__main__ import run_property
    root = Path(tempfile.mkdtemp(prefix="pgstat-refresh-"))
    det, ref = [], []
    try:
        why = selfval.make_variant({"patch": str(Path(seed_dir) / "patch.diff")}, root)
        if why:
            return seed_dir, None, why
        for p in PROPS:
            buf = io.StringIO()
            with redirect_stdout(buf):
                code = run_property(p, root, "quick", 0, False, quiet=True)
            txt = buf.getvalue()
            rules = sorted(set(re.findall(r"^\s*(R-[\w-]+) VIOLATED", txt, re.M)))
            for r in rules:
                det.append({"property": p, "rule": r})
            if code == 2 or (code != 0 and not rules):
                ref.append({"property": p, "rules": sorted(set(re.findall(r"ANALYSIS-ERROR property=\w+ rule=([\w-]+)", txt)))})
        return seed_dir, det, ref
    finally:
        shutil.rmtree(root, ignore_errors=True)


def main():
    write = "--write" in sys.argv
    pats = [a for a in sys.argv[1:] if not a.startswith("--")]
    dirs = [str(d) for d in sorted((V / "seeded").iterdir()) if (d / "meta.json").exists() and (not pats or any(p in d.name for p in pats))]
    with ProcessPoolExecutor(max_workers=16) as ex:
        res = list(ex.map(job, dirs))
    changed = 0
    for d, det, ref in res:
        name = Path(d).name
        if det is None:
            print("SKIP", name, ref)
            continue
        mp = Path(d) / "meta.json"
        meta = json.loads(mp.read_text())
        old_det = sorted((x["property"], x.get("rule", "")) for x in meta.get("detected_by", []))
        old_ref = sorted(x["property"] for x in meta.get("refused_by", []))
        new_det = sorted((x["property"], x["rule"]) for x in det)
        new_ref = sorted(x["property"] for x in ref)
        if not new_det and not new_ref:
            print("SILENT", name)
            continue
        if old_det != new_det or old_ref != new_ref:
            changed += 1
            print("CHANGED", name)
            for x in sorted(set(old_det) - set(new_det)):
                print("   - detected", x)
            for x in sorted(set(new_det) - set(old_det)):
                print("   + detected", x)
            for x in sorted(set(old_ref) - set(new_ref)):
                print("   - refused ", x)
            for x in sorted(set(new_ref) - set(old_ref)):
                print("   + refused ", x)
            if write:
                meta["detected_by"] = det
                if ref:
                    meta["refused_by"] = ref
                else:
                    meta.pop("refused_by", None)
                mp.write_text(json.dumps(meta, indent=1) + "\n")
    print(f"{len(res)} seeds, {changed} with a different set of reporting / refusing checks" + (" (written)" if write else ""))


if __name__ == "__main__":
    main()
