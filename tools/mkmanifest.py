#!/usr/bin/env python3
"""Regenerates /verif/MANIFEST.json from the table below (keeps it schema-valid)."""
import json
from pathlib import Path

V = Path(__file__).resolve().parent.parent
props = [json.loads(l) for l in (V / "properties.jsonl").read_text().splitlines() if l.strip()]

# property -> (technique, level text, level note, design ref)
CLAIMED = {}
NA = {}


def claim(pid, technique, text, note):
    CLAIMED[pid] = (technique, text, note)


exec((V / "tools" / "claims.py").read_text())

checks = []
for p in props:
    pid = p["id"]
    if pid in CLAIMED:
        tech, text, note = CLAIMED[pid]
        checks.append({
            "property_id": pid,
            "quick_cmd": f"./check {pid} --tier quick",
            "thorough_cmd": f"./check {pid} --tier thorough",
            "evidence_file": f"/verif/evidence/{pid}.json",
            "replay_cmd_template": "./check " + pid + " --replay {path}",
            "engine": "pgstat",
            "level_claimed": {"category": "other", "text": text, "design_ref": f"DESIGN.md section 4, {pid}"},
            "level_note": note,
            "technique": tech,
        })
na = [{"property_id": p["id"], "reason": NA.get(p["id"], "check not registered yet (implementation in progress, see DESIGN.md section 4)")}
      for p in props if p["id"] not in CLAIMED]
m = {
    "version": 1,
    "setup_cmd": "/venv/bin/python -m compileall -q pgstat >/dev/null 2>&1 || python3 -m compileall -q pgstat >/dev/null 2>&1; true",
    "hooks": {"guard": "PYGAMMA_AGREEMENT_VERIF",
              "enable": "none needed: the analysis reads the source of /repo and never runs it; no hook exists in /repo",
              "baseline_off_cmd": "cd /repo && /venv/bin/python -m pytest -ra -q -p no:cacheprovider --timeout=900 --continue-on-collection-errors",
              "source_commits": [], "add_only": True},
    "engines": [{"name": "pgstat", "path": "/verif/pgstat", "serves_properties": sorted(CLAIMED),
                 "kind_free_text": "repository-specific static analyser on python ast: resolved program model (MRO, call "
                                   "resolution incl. properties/dunders), statement CFG with dominators, field-based alias/effect "
                                   "analysis with interprocedural summaries, rational normal form of extracted formulas, exhaustive "
                                   "case splits over comparison outcomes, table agreement checks"}],
    "checks": checks,
    "notes": "Static analysis only: every check parses /repo/pygamma_agreement on each run and never imports or executes it. "
             "Exit 0 = all obligations discharged (KNOWN-FINDING lines for listed findings), 1 = VIOLATION, 2 = ANALYSIS-ERROR "
             "(anchor vanished / checker self-validation failed). known findings: /verif/known_findings.json. "
             "Every check also discharges shared closedness obligations on top of its own rules: every implementation a dispatched call can "
             "reach (class-hierarchy dispatch) is analysed or reported, the one-line specifications (R-SUP) of the accessors reachable from "
             "the analysed functions, no unknown decorator / parameter rebinding / unanalysed override on analysed code.",
    "not_applicable": na,
}
(V / "MANIFEST.json").write_text(json.dumps(m, indent=1) + "\n")
print(f"{len(checks)} checks, {len(na)} not applicable")
