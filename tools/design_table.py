#!/usr/bin/env python3
"""prints the results table of DESIGN.md section 8 from the evidence files and the variant lists"""
import json, sys
from pathlib import Path
V = Path(__file__).resolve().parent.parent
sys.path.insert(0, str(V))
from pgstat import selfval
vs = selfval.load_variants()
props = [json.loads(l)["id"] for l in (V / "properties.jsonl").read_text().splitlines() if l.strip()]
print("| id | obligations | discharged | known | rules | functions | quick s | mutants | benign | regressions | seeded (reported / refused) |")
print("|---|---|---|---|---|---|---|---|---|---|---|")
tot = {"m": 0, "b": 0}
for p in props:
    ev = json.loads((V / "evidence" / f"{p}.json").read_text())
    c = ev.get("coverage", ev)
    mine = [v for v in vs if v["prop"] == p]
    mut = [v for v in mine if v["kind"] == "M" and not v["id"].startswith(("seeded/", "regression"))]
    reg = [v for v in mine if v["kind"] == "M" and "regress" in v["id"]]
    ben = [v for v in mine if v["kind"] == "B" and not v["id"].startswith("global/")]
    rep = [v for v in mine if v["id"].startswith("seeded/") and v.get("expect_code") is None]
    ref = [v for v in mine if v["id"].startswith("seeded/") and v.get("expect_code") is not None]
    d = json.dumps(ev)
    def g(k):
        import re
        m = re.search(r'"%s": ([0-9.]+)' % k, d)
        return m.group(1) if m else "?"
    nrules = len(c.get("rule_instances", {})) if isinstance(c.get("rule_instances"), dict) else "?"
    nfun = len(c.get("functions_analysed", []))
    print(f"| {p} | {g('obligations')} | {g('discharged')} | {g('known_findings')} | {nrules} | {nfun} | {ev.get('wall_s')} | {len(mut) - len(reg)} | {len(ben)} | {len(reg)} | {len(rep)} / {len(ref)} |")
print()
glob = len({v['id'] for v in vs if v['id'].startswith('global/')})
print(f"global behaviour-preserving probes per property: {glob} (whole-package transformations + agent-written refactorings)")
print(f"total variants: {len(vs)}  mutants: {sum(1 for v in vs if v['kind']=='M')}  benign: {sum(1 for v in vs if v['kind']=='B')}")
