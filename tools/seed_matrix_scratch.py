#!/usr/bin/env python3
"""tools/seed_matrix_scratch.py <dir with patch.diff> ...   -- like tools/seed_matrix.py, but on scratch copies of /repo (in parallel; /repo itself is
not touched, so it can run while other work uses /repo).  Writes /tmp/seed_matrix.json."""
import json, sys
from concurrent.futures import ProcessPoolExecutor
from pathlib import Path
sys.path.insert(0, str(Path(__file__).resolve().parent))
from refresh_seed_meta import job

if __name__ == "__main__":
    dirs = sys.argv[1:]
    out = {}
    with ProcessPoolExecutor(max_workers=min(16, len(dirs))) as ex:
        for d, det, ref in ex.map(job, dirs):
            if det is None:
                print(d, "SKIP", ref)
                continue
            out[d] = {"detected_by": det, "refused_by": ref}
            print(d, "detected:", [f"{x['property']}:{x['rule']}" for x in det], "refused:", [x["property"] for x in ref], flush=True)
    Path("/tmp/seed_matrix.json").write_text(json.dumps(out, indent=1))
