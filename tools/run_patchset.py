#!/usr/bin/env python3
"""tools/run_patchset.py <dir with *.diff> [--expect benign|any]
Runs every property's check on a scratch copy of /repo's package with each patch applied; prints the non-zero verdicts."""
import json, sys
from concurrent.futures import ProcessPoolExecutor
from pathlib import Path
sys.path.insert(0, str(Path(__file__).resolve().parent.parent))
from pgstat import selfval

d = Path(sys.argv[1]).resolve()
props = [json.loads(l)["id"] for l in (selfval.VERIF / "properties.jsonl").read_text().splitlines() if l.strip()]
vs = []
for pf in sorted(d.glob("*.diff")):
    for p in props:
        vs.append({"prop": p, "id": pf.name, "kind": "B", "rule": "", "patch": str(pf)})
with ProcessPoolExecutor(max_workers=16) as ex:
    res = list(ex.map(selfval.run_variant, vs))
bad = [r for r in res if r["status"] != "ok"]
for r in bad:
    print(f"{r['id']:<40} {r['prop']} {r['status']:<12} {r.get('why','')[:260]}")
print(f"{len(res)} runs over {len(list(d.glob('*.diff')))} patches, {len(bad)} not silent, {sum(1 for r in res if r['status']=='skipped')} skipped")
