"""Scratch variants used to test the checker both ways (see pgstat/selfval.py, DESIGN 3.9 / appendix B).

M = mutant that breaks the property and must be reported by the named rule;
B = behaviour-preserving rewrite that must stay silent.
Every snippet must occur exactly once in the named file of /repo (otherwise the variant is skipped and reported).
"""

VARIANTS = []


def M(prop, id, file, old, new, rule, note=""):
    VARIANTS.append(dict(prop=prop, id=id, kind="M", file=file, old=old, new=new, rule=rule, note=note))


def B(prop, id, file, old, new, note=""):
    VARIANTS.append(dict(prop=prop, id=id, kind="B", file=file, old=old, new=new, rule="", note=note))


def M2(prop, id, edits, rule, note=""):
    VARIANTS.append(dict(prop=prop, id=id, kind="M", edits=edits, rule=rule, note=note))


def B2(prop, id, edits, note=""):
    VARIANTS.append(dict(prop=prop, id=id, kind="B", edits=edits, rule="", note=note))


CONT = "continuum.py"
DIS = "dissimilarity.py"
ALI = "alignment.py"
SAM = "sampler.py"
CST = "cst.py"
CLI = "cli_apps.py"
NUM = "numba_utils.py"

# =============================================================================================
# C06
# =============================================================================================
M("C06", "lambda-sample", CONT,
  """                p.submit(job,
                         *(dissimilarity, sampler.sample_from_continuum))
                for _ in range(n_samples)""",
  """                p.submit(lambda d, s: job(d, s.sample_from_continuum),
                         *(dissimilarity, sampler))
                for _ in range(n_samples)""",
  "R-C06-1", "sample drawn inside the worker thread")
M2("C06", "sampler-method-not-property",
   [(SAM, """    @property
    def sample_from_continuum(self) -> Continuum:
        self._has_been_init()
        new_continnum""", """    def sample_from_continuum(self) -> Continuum:
        self._has_been_init()
        new_continnum""")],
   "R-C06-2", "one subclass turns the property into a method: the bound method travels to the worker")
M("C06", "as-completed", CONT,
  """            for i, result in enumerate(result_pool):
                chance_best_alignments.append(result.result())
                logging.info(f"finished computation of random sample dissimilarity {i + 1}/{n_samples}")""",
  """            from concurrent.futures import as_completed
            for i, result in enumerate(as_completed(result_pool)):
                chance_best_alignments.append(result.result())
                logging.info(f"finished computation of random sample dissimilarity {i + 1}/{n_samples}")""",
  "R-C06-3")
M("C06", "futures-in-set", CONT,
  """            chance_disorders_jobs = [
                p.submit(_compute_gamma_k_job,
                         *(self.dissimilarity, alignment, None))
                for alignment in self.chance_alignments
            ]""",
  """            chance_disorders_jobs = {
                p.submit(_compute_gamma_k_job,
                         *(self.dissimilarity, alignment, None))
                for alignment in self.chance_alignments
            }""",
  "R-C06-3", "float mean over a set of futures: summation order varies with the hash seed")
M("C06", "nprandom-in-selfcheck", DIS,
  "start_1, len_1, cat_1 = random.uniform(0, 1000), random.uniform(1, 1000), random.randrange(0, nb_cat)",
  "start_1, len_1, cat_1 = np.random.uniform(0, 1000), random.uniform(1, 1000), random.randrange(0, nb_cat)",
  "R-C06-5", "constructing a dissimilarity shifts the seeded stream")
M("C06", "memo-on-dissimilarity", DIS,
  """        units_array = self._build_arrays_continuum(continuum)
        res =""",
  """        units_array = self._build_arrays_continuum(continuum)
        self._last_arrays = units_array
        res =""",
  "R-C06-4", "worker writes to the shared dissimilarity")
M("C06", "rng-in-worker", CONT,
  """    return continuum.get_best_soft_alignment(dissimilarity)""",
  """    if np.random.random() < 0:
        return None
    return continuum.get_best_soft_alignment(dissimilarity)""",
  "R-C06-1")
M("C06", "set-iteration-in-disorder", ALI,
  """        for unitary_alignment in self:
            nv = unitary_alignment.nb_units""",
  """        for unitary_alignment in set(self.unitary_alignments):
            nv = unitary_alignment.nb_units""",
  "R-C06-6", "float accumulation in hash order")
M("C06", "seed-in-worker", CONT,
  """    return continuum.get_best_alignment(dissimilarity)


def _compute_fast_alignment_job""",
  """    np.random.seed(0)
    return continuum.get_best_alignment(dissimilarity)


def _compute_fast_alignment_job""",
  "R-C06-1")
M("C06", "window-size-measured-in-pool", CONT,
  """            job = _compute_fast_alignment_job
            self.measure_best_window_size(dissimilarity)

        # Multithreaded computation of sample disorder
        with ThreadPoolExecutor(max_workers=os.cpu_count()) as p:""",
  """            job = _compute_fast_alignment_job

        # Multithreaded computation of sample disorder
        with ThreadPoolExecutor(max_workers=os.cpu_count()) as p:
            if fast:
                self.measure_best_window_size(dissimilarity)""",
  "R-C06-7")
B("C06", "loop-instead-of-comprehension", CONT,
  """            result_pool = [
                # Step one : computing the disorders of a batch of random samples from the continuum (done in parallel)
                p.submit(job,
                         *(dissimilarity, sampler.sample_from_continuum))
                for _ in range(n_samples)
            ]""",
  """            result_pool = []
            for _ in range(n_samples):
                result_pool.append(p.submit(job, dissimilarity, sampler.sample_from_continuum))""")
B("C06", "one-worker", CONT,
  "        with ThreadPoolExecutor(max_workers=os.cpu_count()) as p:\n            # Launching jobs",
  "        with ThreadPoolExecutor(max_workers=1) as p:\n            # Launching jobs")
B("C06", "extra-logging-in-job", CONT,
  """    return continuum.get_best_soft_alignment(dissimilarity)""",
  """    logging.debug("soft job")
    return continuum.get_best_soft_alignment(dissimilarity)""")

REGRESSIONS = []

# =============================================================================================
# C14
# =============================================================================================
REGRESSIONS.append(dict(prop="C14", id="regression/F8-cst-aliases-reference-categories", patch="7f523c6.diff", rule="R-C14-1",
                        note="pinned tree: CorpusShufflingTool mutated and shared the reference's category set"))
M("C14", "fast-alignment-without-copy", CONT,
  "        copy = self.copy()\n        unitary_alignments = []",
  "        copy = self\n        unitary_alignments = []",
  "R-C14-1", "fast alignment empties the caller's continuum")
M("C14", "getitem-returns-internal-set", CONT,
  "                return deepcopy(self._annotations[keys])",
  "                return self._annotations[keys]",
  "R-C14-2")
M("C14", "init-sampling-resets-bounds", SAM,
  """        self._reference_continuum = reference_continuum
        if ground_truth_annotators is None:""",
  """        self._reference_continuum = reference_continuum
        reference_continuum.reset_bounds()
        if ground_truth_annotators is None:""",
  "R-C14-1")
M("C14", "compute-disorder-caches-on-dissimilarity", DIS,
  """        alignment_arrays = self._build_arrays_alignment(alignment)
        return""",
  """        alignment_arrays = self._build_arrays_alignment(alignment)
        self.last_alignment_arrays = alignment_arrays
        return""",
  "R-C14-1")
M("C14", "corpus-shuffle-adds-ref-into-reference", CST,
  """            for unit in self._reference_continuum[next(iter(self._reference_continuum.annotators))]:
                continuum.add(self._reference_annotator, unit.segment, unit.annotation)""",
  """            for unit in self._reference_continuum[next(iter(self._reference_continuum.annotators))]:
                continuum.add(self._reference_annotator, unit.segment, unit.annotation)
            self._reference_continuum.add_annotator("generated")""",
  "R-C14-1")
M("C14", "copy-shares-unit-sets", CONT,
  "        continuum._annotations = deepcopy(self._annotations)",
  "        continuum._annotations = SortedDict(self._annotations)",
  "R-C14-2", "shallow copy: the per-annotator sets are shared")
M("C14", "copy-shares-categories", CONT,
  "        continuum._categories = SortedSet(self._categories)",
  "        continuum._categories = self._categories",
  "R-C14-2")
M("C14", "sampler-keeps-internal-categories", SAM,
  """        categories_set = self._reference_continuum.categories
        self._categories = np.array(categories_set)""",
  """        categories_set = self._reference_continuum.categories
        self._cat_set = categories_set
        self._categories = np.array(categories_set)""",
  "R-C14-4")
M("C14", "shuffle-sampler-works-on-reference", SAM,
  "        new_continuum = continuum.copy_flush()\n        annotators = self._ground_truth_annotators",
  "        new_continuum = continuum\n        annotators = self._ground_truth_annotators",
  "R-C14-1")
M("C14", "merge-out-of-place-mutates-self", CONT,
  "        current_cont = self if in_place else self.copy()",
  "        current_cont = self",
  "R-C14-1")
M("C14", "gamma-results-mutates-continuum-via-alignment", ALI,
  """        if not isinstance(dissimilarity, CombinedCategoricalDissimilarity):
            raise TypeError(""",
  """        if self.continuum is not None:
            self.continuum.reset_bounds()
        if not isinstance(dissimilarity, CombinedCategoricalDissimilarity):
            raise TypeError(""",
  "R-C14-1")
B("C14", "extra-readonly-accessor", CONT,
  """    @property
    def num_annotators(self) -> int:""",
  """    @property
    def first_annotator(self) -> str:
        return self._annotations.keys()[0]

    @property
    def num_annotators(self) -> int:""")
B("C14", "copy-via-deepcopy-of-categories", CONT,
  "        continuum._categories = SortedSet(self._categories)",
  "        continuum._categories = deepcopy(self._categories)")
B("C14", "fast-alignment-copy-via-merge", CONT,
  "        copy = self.copy()\n        unitary_alignments = []",
  "        copy = self.merge(Continuum(), in_place=False)\n        unitary_alignments = []")
