"""Scratch variants used to test the checker both ways (see pgstat/selfval.py, DESIGN 3.9 / appendix B).

M = mutant that breaks the property and must be reported by the named rule;
B = behaviour-preserving rewrite that must stay silent.
Every snippet must occur exactly once in the named file of /repo (otherwise the variant is skipped and reported).
"""

VARIANTS = []


def M(prop, id, file, old, new, rule, note=""):
    VARIANTS.append(dict(prop=prop, id=id, kind="M", file=file, old=old, new=new, rule=rule, note=note))


def B(prop, id, file, old, new, note=""):
    VARIANTS.append(dict(prop=prop, id=id, kind="B", file=file, old=old, new=new, rule="", note=note))


def M2(prop, id, edits, rule, note=""):
    VARIANTS.append(dict(prop=prop, id=id, kind="M", edits=edits, rule=rule, note=note))


def B2(prop, id, edits, note=""):
    VARIANTS.append(dict(prop=prop, id=id, kind="B", edits=edits, rule="", note=note))


CONT = "continuum.py"
DIS = "dissimilarity.py"
ALI = "alignment.py"
SAM = "sampler.py"
CST = "cst.py"
CLI = "cli_apps.py"
NUM = "numba_utils.py"

# =============================================================================================
# C06
# =============================================================================================
M("C06", "lambda-sample", CONT,
  """                p.submit(job,
                         *(dissimilarity, sampler.sample_from_continuum))
                for _ in range(n_samples)""",
  """                p.submit(lambda d, s: job(d, s.sample_from_continuum),
                         *(dissimilarity, sampler))
                for _ in range(n_samples)""",
  "R-C06-1", "sample drawn inside the worker thread")
M2("C06", "sampler-method-not-property",
   [(SAM, """    @property
    def sample_from_continuum(self) -> Continuum:
        self._has_been_init()
        new_continnum""", """    def sample_from_continuum(self) -> Continuum:
        self._has_been_init()
        new_continnum""")],
   "R-C06-2", "one subclass turns the property into a method: the bound method travels to the worker")
M("C06", "as-completed", CONT,
  """            for i, result in enumerate(result_pool):
                chance_best_alignments.append(result.result())
                logging.info(f"finished computation of random sample dissimilarity {i + 1}/{n_samples}")""",
  """            from concurrent.futures import as_completed
            for i, result in enumerate(as_completed(result_pool)):
                chance_best_alignments.append(result.result())
                logging.info(f"finished computation of random sample dissimilarity {i + 1}/{n_samples}")""",
  "R-C06-3")
M("C06", "futures-in-set", CONT,
  """            chance_disorders_jobs = [
                p.submit(_compute_gamma_k_job,
                         *(self.dissimilarity, alignment, None))
                for alignment in self.chance_alignments
            ]""",
  """            chance_disorders_jobs = {
                p.submit(_compute_gamma_k_job,
                         *(self.dissimilarity, alignment, None))
                for alignment in self.chance_alignments
            }""",
  "R-C06-3", "float mean over a set of futures: summation order varies with the hash seed")
M("C06", "nprandom-in-selfcheck", DIS,
  "start_1, len_1, cat_1 = random.uniform(0, 1000), random.uniform(1, 1000), random.randrange(0, nb_cat)",
  "start_1, len_1, cat_1 = np.random.uniform(0, 1000), random.uniform(1, 1000), random.randrange(0, nb_cat)",
  "R-C06-5", "constructing a dissimilarity shifts the seeded stream")
M("C06", "memo-on-dissimilarity", DIS,
  """        units_array = self._build_arrays_continuum(continuum)
        res =""",
  """        units_array = self._build_arrays_continuum(continuum)
        self._last_arrays = units_array
        res =""",
  "R-C06-4", "worker writes to the shared dissimilarity")
M("C06", "rng-in-worker", CONT,
  """    return continuum.get_best_soft_alignment(dissimilarity)""",
  """    if np.random.random() < 0:
        return None
    return continuum.get_best_soft_alignment(dissimilarity)""",
  "R-C06-1")
M("C06", "set-iteration-in-disorder", ALI,
  """        for unitary_alignment in self:
            nv = unitary_alignment.nb_units""",
  """        for unitary_alignment in set(self.unitary_alignments):
            nv = unitary_alignment.nb_units""",
  "R-C06-6", "float accumulation in hash order")
M("C06", "seed-in-worker", CONT,
  """    return continuum.get_best_alignment(dissimilarity)


def _compute_fast_alignment_job""",
  """    np.random.seed(0)
    return continuum.get_best_alignment(dissimilarity)


def _compute_fast_alignment_job""",
  "R-C06-1")
M("C06", "window-size-measured-in-pool", CONT,
  """            job = _compute_fast_alignment_job
            self.measure_best_window_size(dissimilarity)

        # Multithreaded computation of sample disorder
        with ThreadPoolExecutor(max_workers=os.cpu_count()) as p:""",
  """            job = _compute_fast_alignment_job

        # Multithreaded computation of sample disorder
        with ThreadPoolExecutor(max_workers=os.cpu_count()) as p:
            if fast:
                self.measure_best_window_size(dissimilarity)""",
  "R-C06-7")
B("C06", "loop-instead-of-comprehension", CONT,
  """            result_pool = [
                # Step one : computing the disorders of a batch of random samples from the continuum (done in parallel)
                p.submit(job,
                         *(dissimilarity, sampler.sample_from_continuum))
                for _ in range(n_samples)
            ]""",
  """            result_pool = []
            for _ in range(n_samples):
                result_pool.append(p.submit(job, dissimilarity, sampler.sample_from_continuum))""")
B("C06", "one-worker", CONT,
  "        with ThreadPoolExecutor(max_workers=os.cpu_count()) as p:\n            # Launching jobs",
  "        with ThreadPoolExecutor(max_workers=1) as p:\n            # Launching jobs")
B("C06", "extra-logging-in-job", CONT,
  """    return continuum.get_best_soft_alignment(dissimilarity)""",
  """    logging.debug("soft job")
    return continuum.get_best_soft_alignment(dissimilarity)""")

REGRESSIONS = []

# =============================================================================================
# C14
# =============================================================================================
REGRESSIONS.append(dict(prop="C14", id="regression/F8-cst-aliases-reference-categories", patch="7f523c6.diff", rule="R-C14-1",
                        note="pinned tree: CorpusShufflingTool mutated and shared the reference's category set"))
M("C14", "fast-alignment-without-copy", CONT,
  "        copy = self.copy()\n        unitary_alignments = []",
  "        copy = self\n        unitary_alignments = []",
  "R-C14-1", "fast alignment empties the caller's continuum")
M("C14", "getitem-returns-internal-set", CONT,
  "                return deepcopy(self._annotations[keys])",
  "                return self._annotations[keys]",
  "R-C14-2")
M("C14", "init-sampling-resets-bounds", SAM,
  """        self._reference_continuum = reference_continuum
        if ground_truth_annotators is None:""",
  """        self._reference_continuum = reference_continuum
        reference_continuum.reset_bounds()
        if ground_truth_annotators is None:""",
  "R-C14-1")
M("C14", "compute-disorder-caches-on-dissimilarity", DIS,
  """        alignment_arrays = self._build_arrays_alignment(alignment)
        return""",
  """        alignment_arrays = self._build_arrays_alignment(alignment)
        self.last_alignment_arrays = alignment_arrays
        return""",
  "R-C14-1")
M("C14", "corpus-shuffle-adds-ref-into-reference", CST,
  """            for unit in self._reference_continuum[next(iter(self._reference_continuum.annotators))]:
                continuum.add(self._reference_annotator, unit.segment, unit.annotation)""",
  """            for unit in self._reference_continuum[next(iter(self._reference_continuum.annotators))]:
                continuum.add(self._reference_annotator, unit.segment, unit.annotation)
            self._reference_continuum.add_annotator("generated")""",
  "R-C14-1")
M("C14", "copy-shares-unit-sets", CONT,
  "        continuum._annotations = deepcopy(self._annotations)",
  "        continuum._annotations = SortedDict(self._annotations)",
  "R-C14-2", "shallow copy: the per-annotator sets are shared")
M("C14", "copy-shares-categories", CONT,
  "        continuum._categories = SortedSet(self._categories)",
  "        continuum._categories = self._categories",
  "R-C14-2")
M("C14", "sampler-keeps-internal-categories", SAM,
  """        categories_set = self._reference_continuum.categories
        self._categories = np.array(categories_set)""",
  """        categories_set = self._reference_continuum.categories
        self._cat_set = categories_set
        self._categories = np.array(categories_set)""",
  "R-C14-4")
M("C14", "shuffle-sampler-works-on-reference", SAM,
  "        new_continuum = continuum.copy_flush()\n        annotators = self._ground_truth_annotators",
  "        new_continuum = continuum\n        annotators = self._ground_truth_annotators",
  "R-C14-1")
M("C14", "merge-out-of-place-mutates-self", CONT,
  "        current_cont = self if in_place else self.copy()",
  "        current_cont = self",
  "R-C14-1")
M("C14", "gamma-results-mutates-continuum-via-alignment", ALI,
  """        if not isinstance(dissimilarity, CombinedCategoricalDissimilarity):
            raise TypeError(""",
  """        if self.continuum is not None:
            self.continuum.reset_bounds()
        if not isinstance(dissimilarity, CombinedCategoricalDissimilarity):
            raise TypeError(""",
  "R-C14-1")
B("C14", "extra-readonly-accessor", CONT,
  """    @property
    def num_annotators(self) -> int:""",
  """    @property
    def first_annotator(self) -> str:
        return self._annotations.keys()[0]

    @property
    def num_annotators(self) -> int:""")
B("C14", "copy-via-deepcopy-of-categories", CONT,
  "        continuum._categories = SortedSet(self._categories)",
  "        continuum._categories = deepcopy(self._categories)")
B("C14", "fast-alignment-copy-via-merge", CONT,
  "        copy = self.copy()\n        unitary_alignments = []",
  "        copy = self.merge(Continuum(), in_place=False)\n        unitary_alignments = []")

# =============================================================================================
# C13
# =============================================================================================
REGRESSIONS.append(dict(prop="C13", id="regression/F6-unit-lt-reflexive", patch="2c1d80f.diff", rule="R-C13-1"))
REGRESSIONS.append(dict(prop="C13", id="regression/F7-copy-drops-categories", patch="2b99579.diff", rule="R-C13-4"))
REGRESSIONS.append(dict(prop="C13", id="regression/F24-reset-bounds-last-unit", patch="b25bba7.diff", rule="R-C13-7"))
REGRESSIONS.append(dict(prop="C13", id="regression/F8b-cst-shares-categories", patch="7f523c6.diff", rule="R-C13-2"))
M("C13", "label-order-reversed", CONT,
  "                return self.annotation < other.annotation",
  "                return self.annotation > other.annotation", "R-C13-1")
M("C13", "none-last-instead-of-first", CONT,
  """                return other.annotation is not None
            elif other.annotation is None:
                return False""",
  """                return False
            elif other.annotation is None:
                return True""", "R-C13-1", "unlabelled units sorted last: contradicts the documented order")
M("C13", "segment-only-order", CONT,
  """        if self.segment == other.segment:
            if self.annotation is None:""",
  """        if self.segment == other.segment and False:
            if self.annotation is None:""", "R-C13-1", "units with equal segments and different labels become unordered")
M("C13", "bound-inf-not-updated", CONT,
  "        self.bound_inf = min(self.bound_inf, segment.start)\n", "", "R-C13-3")
M("C13", "bound-sup-uses-start", CONT,
  "        self.bound_sup = max(self.bound_sup, segment.end)", "        self.bound_sup = max(self.bound_sup, segment.start)", "R-C13-3")
M("C13", "add-annotator-overwrites", CONT,
  """        if annotator not in self._annotations:
            self._annotations[annotator] = SortedSet()

    def add(self""",
  """        self._annotations[annotator] = SortedSet()

    def add(self""", "R-C13-3")
M("C13", "category-only-for-new-annotator", CONT,
  """        if annotator not in self._annotations:
            self._annotations[annotator] = SortedSet()
        if annotation is not None:
            self._categories.add(annotation)""",
  """        if annotator not in self._annotations:
            self._annotations[annotator] = SortedSet()
            if annotation is not None:
                self._categories.add(annotation)""", "R-C13-3", "labels of later units are not registered")
M("C13", "zero-duration-guard-after-insert", CONT,
  """        if segment.duration == 0.0:
            raise ValueError("Tried adding segment of duration 0.0")

        if annotator not in self._annotations:
            self._annotations[annotator] = SortedSet()""",
  """        if annotator not in self._annotations:
            self._annotations[annotator] = SortedSet()
        if segment.duration == 0.0:
            raise ValueError("Tried adding segment of duration 0.0")
""", "R-C13-3", "a rejected unit leaves a new annotator behind")
M("C13", "remove-resets-bounds", CONT,
  "        annotations.remove(unit)\n", "        annotations.remove(unit)\n        self.reset_bounds()\n", "R-C13-3")
M("C13", "eq-without-count-test", CONT,
  """        if self.num_units != other.num_units:
            return False
        
""", "", "R-C13-6", "zip truncates: a continuum equals any extension of itself")
M("C13", "eq-ignores-annotator-names", CONT,
  """        if self.annotators != other.annotators:
            return False
""", "", "R-C13-6")
M("C13", "merge-return-polarity-flipped", CONT,
  """        if not in_place:
            return current_cont
""", """        if in_place:
            return current_cont
""", "R-C13-5")
M("C13", "merge-return-none-out-of-place", CONT,
  """        if not in_place:
            return current_cont
""", """        return None if not in_place else current_cont
""", "R-C13-5")
B("C13", "merge-return-conditional-expression", CONT,
  """        if not in_place:
            return current_cont
""", """        return None if in_place else current_cont
""")
B("C13", "merge-always-returns-target-when-out-of-place", CONT,
  """        if not in_place:
            return current_cont
""", """        if in_place:
            return
        return current_cont
""")
M("C13", "merge-in-place-skips-empty-annotators", CONT,
  """        for annotator in continuum.annotators:
            # ensure all annotators are added to the continuum,
            # even those who do not have any annotated Units
            current_cont.add_annotator(annotator)""",
  """        if not in_place:
            for annotator in continuum.annotators:
                current_cont.add_annotator(annotator)""", "R-C13-5", "the two merge modes diverge")
M("C13", "copy-flush-loses-bounds", CONT,
  """        continuum = Continuum(self.uri)
        continuum.bound_inf, continuum.bound_sup = self.bound_inf, self.bound_sup
        continuum.best_window_size = self.best_window_size
        return continuum

    def copy(self)""",
  """        continuum = Continuum(self.uri)
        continuum.best_window_size = self.best_window_size
        return continuum

    def copy(self)""", "R-C13-4")
M("C13", "foreign-module-assigns-annotations", SAM,
  "        new_continnum = self._reference_continuum.copy_flush()\n",
  "        new_continnum = self._reference_continuum.copy_flush()\n        new_continnum._annotations = SortedSet()\n", "R-C13-2")
M("C13", "num-units-counts-annotators", CONT,
  "        return sum(len(units) for units in self._annotations.values())",
  "        return sum(1 for units in self._annotations.values())", "R-SUP")
M("C13", "reset-bounds-min-of-ends", CONT,
  "        self.bound_inf = min((next(iter(annotations)).segment.start for",
  "        self.bound_inf = min((next(iter(annotations)).segment.end for", "R-C13-7")
B("C13", "lt-via-tuple-comparison", CONT,
  """        if self.segment == other.segment:
            if self.annotation is None:
                return other.annotation is not None
            elif other.annotation is None:
                return False
            else:
                return self.annotation < other.annotation
        else:
            return self.segment < other.segment""",
  """        if self.segment != other.segment:
            return self.segment < other.segment
        if self.annotation is None or other.annotation is None:
            return (self.annotation is not None) < (other.annotation is not None)
        return self.annotation < other.annotation""")
B("C13", "lt-params-renamed", CONT,
  """    def __lt__(self, other: 'Unit'):
        if self.segment == other.segment:
            if self.annotation is None:
                return other.annotation is not None
            elif other.annotation is None:
                return False
            else:
                return self.annotation < other.annotation
        else:
            return self.segment < other.segment""",
  """    def __lt__(me, you: 'Unit'):
        same = me.segment == you.segment
        if not same:
            return me.segment < you.segment
        if me.annotation is None:
            return not (you.annotation is None)
        if you.annotation is None:
            return False
        return me.annotation < you.annotation""")
B("C13", "bounds-via-property-in-copy", CONT,
  """        continuum._categories = SortedSet(self._categories)
        continuum.bound_inf, continuum.bound_sup = self.bound_inf, self.bound_sup""",
  """        continuum._categories = SortedSet(self._categories)
        continuum.bound_inf, continuum.bound_sup = self.bounds""")
B("C13", "reset-bounds-min-over-all-units", CONT,
  """        self.bound_inf = min((next(iter(annotations)).segment.start for annotations in self._annotations.values() if annotations),
                             default=0.0)""",
  """        self.bound_inf = min((unit.segment.start for _, unit in self), default=0.0)""")
B("C13", "add-statements-reordered", CONT,
  """        self._annotations[annotator].add(Unit(segment, annotation))
        self.bound_inf = min(self.bound_inf, segment.start)
        self.bound_sup = max(self.bound_sup, segment.end)""",
  """        self.bound_sup = max(segment.end, self.bound_sup)
        self.bound_inf = min(segment.start, self.bound_inf)
        new_unit = Unit(segment, annotation)
        self._annotations[annotator].add(new_unit)""")

# =============================================================================================
# C16
# =============================================================================================
REGRESSIONS.append(dict(prop="C16", id="regression/F23-pivot-zone-stretches-outside-segments", patch="eff816a.diff", rule="R-C16-1"))
M("C16", "left-clamp-missing", SAM,
  "new_segments.append(Segment(segment.start, min(segment.end, pivot - dist)))",
  "new_segments.append(Segment(segment.start, pivot - dist))", "R-C16-1")
M("C16", "right-piece-dropped-when-split", SAM,
  """                    new_segments.append(Segment(segment.start, pivot - dist))
                    new_segments.append(Segment(pivot + dist, segment.end))""",
  """                    new_segments.append(Segment(segment.start, pivot - dist))""", "R-C16-1")
M("C16", "zone-test-off-by-side", SAM,
  "            if segment.start >= pivot - dist:\n                if segment.end <= pivot + dist:",
  "            if segment.start >= pivot - dist:\n                if segment.end <= pivot - dist:", "R-C16-1")
M("C16", "wrapped-end-not-shifted", SAM,
  "                                                  unit.segment.end + pivot + bound_inf - bound_sup),",
  "                                                  unit.segment.end + pivot),", "R-C16-2")
M("C16", "wrap-by-bound-sup", SAM,
  """                                          Segment(unit.segment.start + pivot + bound_inf - bound_sup,
                                                  unit.segment.end + pivot + bound_inf - bound_sup),""",
  """                                          Segment(unit.segment.start + pivot - bound_sup,
                                                  unit.segment.end + pivot - bound_sup),""", "R-C16-2",
  "wrap by the upper bound instead of the continuum's length (differs when bound_inf != 0)")
M("C16", "wrap-test-on-end", SAM,
  "                    if unit.segment.start + pivot > bound_sup:",
  "                    if unit.segment.end + pivot > bound_sup:", "R-C16-2")
M("C16", "dist-is-full-length", SAM,
  "        min_dist_between_pivots = continuum.avg_length_unit / 2",
  "        min_dist_between_pivots = continuum.avg_length_unit", "R-C16-3")
M("C16", "source-from-all-annotators", SAM,
  "                rnd_annotator = np.random.choice(annotators)",
  "                rnd_annotator = np.random.choice(continuum.annotators)", "R-C16-3")
M("C16", "float-in-int-mode", SAM,
  "            return int(np.random.uniform(segment.start, segment.end))",
  "            return np.random.uniform(segment.start, segment.end)", "R-C16-3")
M("C16", "pivot-zone-not-removed", SAM,
  "                    segments_available = self._remove_pivot_segment(pivot, segments_available, min_dist_between_pivots)",
  "                    self._remove_pivot_segment(pivot, list(segments_available), min_dist_between_pivots)", "R-C16-3")
M("C16", "label-dropped-when-wrapped", SAM,
  """                                                  unit.segment.end + pivot + bound_inf - bound_sup),
                                          unit.annotation)""",
  """                                                  unit.segment.end + pivot + bound_inf - bound_sup),
                                          None)""", "R-C16-2")
B("C16", "subtraction-with-clamps", SAM,
  """            if segment.start >= pivot - dist:
                if segment.end <= pivot + dist:
                    continue
                else:
                    new_segments.append(Segment(max(segment.start, pivot + dist), segment.end))
            else:
                if segment.end > pivot + dist:
                    new_segments.append(Segment(segment.start, pivot - dist))
                    new_segments.append(Segment(pivot + dist, segment.end))
                else:
                    new_segments.append(Segment(segment.start, min(segment.end, pivot - dist)))""",
  """            lo, hi = pivot - dist, pivot + dist
            if segment.start < lo:
                new_segments.append(Segment(segment.start, min(segment.end, lo)))
            if hi < segment.end:
                new_segments.append(Segment(max(hi, segment.start), segment.end))""")
B("C16", "subtraction-rearranged-tests", SAM,
  "            if segment.start >= pivot - dist:\n                if segment.end <= pivot + dist:",
  "            if segment.start + dist >= pivot:\n                if segment.end - dist <= pivot:")
B("C16", "wrap-shift-factored", SAM,
  """                        new_continuum.add(new_annotator,
                                          Segment(unit.segment.start + pivot + bound_inf - bound_sup,
                                                  unit.segment.end + pivot + bound_inf - bound_sup),
                                          unit.annotation)""",
  """                        new_continuum.add(new_annotator,
                                          Segment(unit.segment.start + pivot - (bound_sup - bound_inf),
                                                  unit.segment.end - (bound_sup - bound_inf) + pivot),
                                          unit.annotation)""")

# =============================================================================================
# C04
# =============================================================================================
REGRESSIONS.append(dict(prop="C04", id="regression/F2-int8-category-index", patch="835af5a.diff", rule="R-C04-4"))
REGRESSIONS.append(dict(prop="C04", id="regression/F3-ordinal-supplied-order", patch="91dc06a.diff", rule="R-C04-5"))
REGRESSIONS.append(dict(prop="C04", id="regression/F4-combined-stale-delta", patch="71a25d3.diff", rule="R-C04-6"))
M("C04", "d-without-square", DIS, "        return pos * pos * self.delta_empty", "        return pos * self.delta_empty", "R-C04-1")
M("C04", "dmat-start-used-for-both-ends", DIS,
  "            dist = ((np.abs(unit1[0] - unit2[0]) + np.abs(unit1[1] - unit2[1])) /",
  "            dist = ((np.abs(unit1[0] - unit2[0]) + np.abs(unit1[0] - unit2[1])) /", "R-C04-1")
M("C04", "alpha-beta-swapped-in-d", DIS,
  """        return (self.alpha * self.positional_dissim.d(unit1, unit2)
                + self.beta * self.categorical_dissim.d(unit1, unit2))""",
  """        return (self.beta * self.positional_dissim.d(unit1, unit2)
                + self.alpha * self.categorical_dissim.d(unit1, unit2))""", "R-C04-1")
M("C04", "both-forms-wrong-denominator", DIS,
  """                    (unit1[2] + unit2[2]))
            return dist * dist * delta_empty
        return d_mat

    def d(self, unit1: 'Unit', unit2: 'Unit'):
        pos = ((abs(unit1.segment.start - unit2.segment.start) + abs(unit1.segment.end - unit2.segment.end)) /
               (unit1.segment.duration + unit2.segment.duration))""",
  """                    (unit1[1] + unit2[1]))
            return dist * dist * delta_empty
        return d_mat

    def d(self, unit1: 'Unit', unit2: 'Unit'):
        pos = ((abs(unit1.segment.start - unit2.segment.start) + abs(unit1.segment.end - unit2.segment.end)) /
               (unit1.segment.end + unit2.segment.end))""", "R-C04-2", "both forms agree but deviate from the documented formula")
M("C04", "lambda-lower-triangle-only", DIS,
  "                matrix[i, j] = dist_cat\n                matrix[j, i] = dist_cat", "                matrix[i, j] = dist_cat", "R-C04-3")
M("C04", "int16-cast", DIS,
  "matrix[np.int32(unit1[3]), np.int32(unit2[3])]", "matrix[np.int16(unit1[3]), np.int16(unit2[3])]", "R-C04-4")
M("C04", "asymmetric-kernel", DIS,
  "            return (0 if unit1[3] == unit2[3] else 1) * delta_empty",
  "            return (0 if unit1[3] == unit2[3] else 1) * delta_empty + unit1[0] * 0.0001", "R-C04-1")
M("C04", "alpha-stored-in-beta", DIS,
  "        self.alpha = alpha\n        self.beta = beta", "        self.alpha = beta\n        self.beta = alpha", "R-C04-7")
M("C04", "default-cat-without-delta", DIS,
  "            cat_dissim = AbsoluteCategoricalDissimilarity(delta_empty)",
  "            cat_dissim = AbsoluteCategoricalDissimilarity()", "R-C04-7")
M("C04", "alpha-assigned-after-compile", DIS,
  """        self.alpha = alpha
        self.beta = beta

        super().__init__(delta_empty=delta_empty, categories=cat_dissim.categories)""",
  """        self.alpha = 1.0
        self.beta = beta

        super().__init__(delta_empty=delta_empty, categories=cat_dissim.categories)
        self.alpha = alpha""", "R-C04-6", "kernel captured alpha=1.0, d() uses the requested alpha")
M("C04", "layout-end-and-duration-swapped", DIS,
  """                unit_array[unit_id][1] = unit.segment.end
                unit_array[unit_id][2] = unit.segment.duration""",
  """                unit_array[unit_id][1] = unit.segment.duration
                unit_array[unit_id][2] = unit.segment.end""", "R-C04-0")
M("C04", "ordinal-matrix-transposed-spaces", DIS,
  "                matrix[rank_i, rank_j] = abs(p[i] - p[j])",
  "                matrix[rank_i, j] = abs(p[i] - p[j])", "R-C04-5")
M("C04", "levenshtein-drops-delta", DIS,
  """    def __init__(self, labels: Iterable[str], delta_empty: float = 1.0):
        super().__init__(labels, delta_empty)

    @staticmethod
    @nb.njit""",
  """    def __init__(self, labels: Iterable[str], delta_empty: float = 1.0):
        super().__init__(labels)

    @staticmethod
    @nb.njit""", "R-C04-7")
B("C04", "square-as-power", DIS, "            return dist * dist * delta_empty", "            return dist ** 2 * delta_empty")
B("C04", "abs-vs-npabs-and-operand-order", DIS,
  "        pos = ((abs(unit1.segment.start - unit2.segment.start) + abs(unit1.segment.end - unit2.segment.end)) /",
  "        pos = ((np.abs(unit2.segment.end - unit1.segment.end) + np.abs(unit2.segment.start - unit1.segment.start)) /")
B("C04", "absolute-as-neq-indicator", DIS,
  "            return (0 if unit1[3] == unit2[3] else 1) * delta_empty",
  "            differs = 1 if unit2[3] != unit1[3] else 0\n            return delta_empty * differs")
B("C04", "int64-cast", DIS,
  "matrix[np.int32(unit1[3]), np.int32(unit2[3])]", "matrix[np.int64(unit1[3]), np.int64(unit2[3])]")
B("C04", "combined-reordered-sum", DIS,
  """            return (alpha * pos(unit1, unit2) +
                    beta * cat(unit1, unit2))""",
  """            c = cat(unit1, unit2)
            return c * beta + pos(unit1, unit2) * alpha""")

# =============================================================================================
# C07
# =============================================================================================
FINAL = "        disorders, alignments = disorders[:i_chosen - 1], alignments[:i_chosen - 1]  # removing empty unitary alignment"
M("C07", "slice-keeps-all-empty", DIS, FINAL, "        disorders, alignments = disorders[:i_chosen], alignments[:i_chosen]", "R-C07-7")
M("C07", "slice-drops-two", DIS, FINAL, "        disorders, alignments = disorders[:i_chosen - 2], alignments[:i_chosen - 2]", "R-C07-7")
M("C07", "slice-one-array-only", DIS, FINAL, "        disorders, alignments = disorders[:i_chosen - 1], alignments[:i_chosen]", "R-C07-7")
M("C07", "growth-test-strict", DIS, "                if i_chosen == chunk_size:", "                if i_chosen > chunk_size:", "R-C07-5",
  "out-of-bounds store at i == chunk_size (numba: silent)")
M("C07", "chunk-size-not-updated", DIS, "                    chunk_size += add_size\n", "", "R-C07-5")
M("C07", "buffers-grow-differently", DIS,
  "                    alignments = extend_right_alignments(alignments, add_size)",
  "                    alignments = extend_right_alignments(alignments, add_size + 1)", "R-C07-5")
M("C07", "extend-loses-last-cell", NUM,
  "    new_array[:len(arr)] = arr\n", "    new_array[:len(arr) - 1] = arr[:-1]\n", "R-C07-6")
M("C07", "filter-strict", DIS, "            if disorder <= criterium:", "            if disorder < criterium:", "R-C07-3")
M("C07", "criterium-without-n", DIS,
  "        criterium = c2n * delta_empty * nb_annotators", "        criterium = c2n * delta_empty", "R-C07-3",
  "cut at delta_empty instead of n*delta_empty: identical for the tests' optimal alignments, loses candidates elsewhere")
M("C07", "sizes-without-null", DIS,
  "            sizes_with_null[annotator_id] = len(unit_arrays[annotator_id]) + 1",
  "            sizes_with_null[annotator_id] = len(unit_arrays[annotator_id])", "R-C07-1")
M("C07", "cost-transposed-indices", DIS,
  """                    disorder += precomputation[annot_a][annot_b][unitary_alignment[annot_a],
                                                                 unitary_alignment[annot_b]]""",
  """                    disorder += precomputation[annot_a][annot_b][unitary_alignment[annot_b],
                                                                 unitary_alignment[annot_a]]""", "R-C07-2")
M("C07", "cost-includes-self-pairs", DIS,
  "            for annot_a in range(nb_annotators):\n                for annot_b in range(annot_a):\n                    disorder +=",
  "            for annot_a in range(nb_annotators):\n                for annot_b in range(annot_a + 1):\n                    disorder +=", "R-C07-2")
M("C07", "empty-corner-unset", DIS,
  """                for annot_b in range(nb_annot_b + 1):
                    matrix[nb_annot_a, annot_b] = delta_empty
                for annot_a in range(nb_annot_a + 1):
                    matrix[annot_a, nb_annot_b] = delta_empty""",
  """                for annot_b in range(nb_annot_b):
                    matrix[nb_annot_a, annot_b] = delta_empty
                for annot_a in range(nb_annot_a):
                    matrix[annot_a, nb_annot_b] = delta_empty""", "R-C07-2", "np.empty corner: the all-empty tuple gets a garbage cost")
M("C07", "empty-row-zero", DIS,
  "                    matrix[nb_annot_a, annot_b] = delta_empty", "                    matrix[nb_annot_a, annot_b] = 0", "R-C07-2")
M("C07", "odometer-carry-le", NUM, "            if current[i] < sizes[i]:", "            if current[i] <= sizes[i]:", "R-C07-8")
M("C07", "odometer-reset-to-one", NUM, "            current[i] = 0\n        else:", "            current[i] = 1\n        else:", "R-C07-8")
M("C07", "tuple-stored-after-increment", DIS,
  """                disorders[i_chosen] = disorder
                alignments[i_chosen] = unitary_alignment
                i_chosen += 1""",
  """                disorders[i_chosen] = disorder
                i_chosen += 1
                alignments[i_chosen] = unitary_alignment""", "R-C07-4")
M("C07", "normalised-twice", DIS,
  "        disorders /= c2n\n        return disorders, alignments", "        disorders /= c2n\n        disorders /= c2n\n        return disorders, alignments", "R-C07-7")
B("C07", "growth-test-ge", DIS, "                if i_chosen == chunk_size:", "                if i_chosen >= chunk_size:")
B("C07", "empty-row-without-corner", DIS,
  """                for annot_b in range(nb_annot_b + 1):
                    matrix[nb_annot_a, annot_b] = delta_empty""",
  """                for annot_b in range(nb_annot_b):
                    matrix[nb_annot_a, annot_b] = delta_empty""", "corner still written by the column loop")
B("C07", "criterium-reordered", DIS,
  "        criterium = c2n * delta_empty * nb_annotators", "        criterium = nb_annotators * c2n * delta_empty")
B("C07", "pairs-upper-triangle", DIS,
  "            for annot_a in range(nb_annotators):\n                for annot_b in range(annot_a):\n                    disorder += precomputation[annot_a][annot_b][unitary_alignment[annot_a],\n                                                                 unitary_alignment[annot_b]]",
  "            for annot_b in range(nb_annotators):\n                for annot_a in range(annot_b + 1, nb_annotators):\n                    disorder += precomputation[annot_a][annot_b][unitary_alignment[annot_a],\n                                                                 unitary_alignment[annot_b]]")
B("C07", "locals-renamed", DIS,
  """                disorders[i_chosen] = disorder
                alignments[i_chosen] = unitary_alignment
                i_chosen += 1""",
  """                alignments[i_chosen] = unitary_alignment
                disorders[i_chosen] = disorder
                i_chosen += 1""")

# =============================================================================================
# C01 / C02 / C08 / C11  (ILP formulation, decoding, solver branches)
# =============================================================================================
REGRESSIONS.append(dict(prop="C01", id="regression/F1-unlabelled-units-crash", patch="7ad1739.diff", rule="R-C01-6"))
CBC_BEST = "            cp.Problem(cp.Minimize(disorders.T @ x), [A @ x == 1]).solve(solver=cp.CBC)"
GLPK_BEST = "            cp.Problem(cp.Minimize(disorders.T @ x), [1 <= matmul, matmul <= 1]).solve(solver=cp.GLPK_MI)"
CBC_SOFT = "            cp.Problem(cp.Minimize(disorders.T @ x), [A @ x >= 1]).solve(solver=cp.CBC)"
GLPK_SOFT = "            cp.Problem(cp.Minimize(disorders.T @ x), [A @ x >= 1]).solve(solver=cp.GLPK_MI)"
for prop, rule in (("C01", "R-C01-1"), ("C08", "R-C08-1")):
    M(prop, "cbc-cover-instead-of-partition", CONT, CBC_BEST,
      "            cp.Problem(cp.Minimize(disorders.T @ x), [A @ x >= 1]).solve(solver=cp.CBC)", rule)
    M(prop, "glpk-loses-upper-bound", CONT, GLPK_BEST,
      "            cp.Problem(cp.Minimize(disorders.T @ x), [1 <= matmul]).solve(solver=cp.GLPK_MI)", rule,
      "only the fallback back-end returns covers instead of partitions; never executed by the suite here")
M("C01", "build-A-null-test-wrong", NUM, "            if unit_id != sizes[annotator_id]:  # Non-null unit",
  "            if unit_id < sizes[annotator_id] - 1:  # Non-null unit", "R-C01-2")
M("C01", "offset-only-for-real-units", NUM,
  """                A[annotator_units_start + unit_id, p_id] = 1
            annotator_units_start += sizes[annotator_id]""",
  """                A[annotator_units_start + unit_id, p_id] = 1
                annotator_units_start += sizes[annotator_id]""", "R-C01-3")
M("C01", "threshold-above-one", CONT,
  """        chosen_alignments_ids, = np.where(x.value > 0.9)

        chosen_alignments: np.ndarray = possible_unitary_alignments[chosen_alignments_ids]
        alignments_disorders: np.ndarray = disorders[chosen_alignments_ids]

        from .alignment import UnitaryAlignment, Alignment
""",
  """        chosen_alignments_ids, = np.where(x.value > 1.0)

        chosen_alignments: np.ndarray = possible_unitary_alignments[chosen_alignments_ids]
        alignments_disorders: np.ndarray = disorders[chosen_alignments_ids]

        from .alignment import UnitaryAlignment, Alignment
""", "R-C01-4")
M("C01", "sizes-from-reversed-order", CONT,
  """        for i, units in enumerate(self._annotations.values()):
            sizes[i] = len(units)

        disorders, possible_unitary_alignments = dissimilarity.valid_alignments(self)
        # Definition of the integer linear program
        n = len(disorders)
        # Constraints matrix ("every unit must appear once and only once")
        A = build_A(possible_unitary_alignments, sizes)

        x = cp.Variable(shape=(n,), boolean=True)
        try:
            import cylp
            cp.Problem(cp.Minimize(disorders.T @ x), [A @ x == 1])""",
  """        for i, units in enumerate(reversed(self._annotations.values())):
            sizes[i] = len(units)

        disorders, possible_unitary_alignments = dissimilarity.valid_alignments(self)
        # Definition of the integer linear program
        n = len(disorders)
        # Constraints matrix ("every unit must appear once and only once")
        A = build_A(possible_unitary_alignments, sizes)

        x = cp.Variable(shape=(n,), boolean=True)
        try:
            import cylp
            cp.Problem(cp.Minimize(disorders.T @ x), [A @ x == 1])""", "R-C01-3")
M("C01", "slice-keeps-all-empty-candidate", DIS, FINAL, "        disorders, alignments = disorders[:i_chosen], alignments[:i_chosen]", "R-C01-5")
M("C01", "decoder-uses-first-annotator-units", CONT,
  """                annotator, units = self._annotations.peekitem(annotator_id)
                try:
                    unit = units[unit_id]
                    u_align_tuple.append((annotator, unit))
                except IndexError:  # it's a "null unit"
                    u_align_tuple.append((annotator, None))
            unitary_alignment = UnitaryAlignment(list(u_align_tuple))
            unitary_alignment.disorder = alignments_disorders[alignment_id]
            set_unitary_alignements.append(unitary_alignment)
        return Alignment(""",
  """                annotator, units = self._annotations.peekitem(annotator_id)
                try:
                    unit = self._annotations.peekitem(0)[1][unit_id]
                    u_align_tuple.append((annotator, unit))
                except IndexError:  # it's a "null unit"
                    u_align_tuple.append((annotator, None))
            unitary_alignment = UnitaryAlignment(list(u_align_tuple))
            unitary_alignment.disorder = alignments_disorders[alignment_id]
            set_unitary_alignements.append(unitary_alignment)
        return Alignment(""", "R-C01-4", "foreign unit placed in a slot")
M("C01", "x-not-boolean", CONT,
  """        x = cp.Variable(shape=(n,), boolean=True)
        try:
            import cylp
            cp.Problem(cp.Minimize(disorders.T @ x), [A @ x == 1])""",
  """        x = cp.Variable(shape=(n,), nonneg=True)
        try:
            import cylp
            cp.Problem(cp.Minimize(disorders.T @ x), [A @ x == 1])""", "R-C01-1")
M("C01", "unguarded-label-index", DIS,
  """        if annotation is None:
            if self.categories is not None:
                raise ValueError("Units without annotation cannot be used with a dissimilarity "
                                 "that is defined over a set of categories.")
            return len(categories)
        return categories.index(annotation)""",
  """        return categories.index(annotation)""", "R-C01-6")
B("C01", "partition-as-two-inequalities", CONT, CBC_BEST,
  "            cp.Problem(cp.Minimize(disorders.T @ x), [A @ x >= 1, A @ x <= 1]).solve(solver=cp.CBC)")
B("C01", "matmul-alias-in-cbc-branch", CONT, CBC_BEST,
  "            covered = A @ x\n            cp.Problem(cp.Minimize(disorders.T @ x), [covered == 1]).solve(solver=cp.CBC)")
B("C01", "problem-object-then-solve", CONT, GLPK_BEST,
  "            problem = cp.Problem(cp.Minimize(disorders.T @ x), [1 <= matmul, matmul <= 1])\n            problem.solve(solver=cp.GLPK_MI)")
M("C02", "maximize", CONT, CBC_BEST, "            cp.Problem(cp.Maximize(disorders.T @ x), [A @ x == 1]).solve(solver=cp.CBC)", "R-C02-1")
M("C02", "glpk-maximize", CONT, GLPK_BEST,
  "            cp.Problem(cp.Maximize(disorders.T @ x), [1 <= matmul, matmul <= 1]).solve(solver=cp.GLPK_MI)", "R-C02-1")
M("C02", "criterium-c2n-delta", DIS, "        criterium = c2n * delta_empty * nb_annotators", "        criterium = c2n * delta_empty", "R-C02-2")
M("C02", "filter-strict", DIS, "            if disorder <= criterium:", "            if disorder < criterium:", "R-C02-2")
M("C02", "transposed-matrix-indices", DIS,
  """                    disorder += precomputation[annot_a][annot_b][unitary_alignment[annot_a],
                                                                 unitary_alignment[annot_b]]""",
  """                    disorder += precomputation[annot_a][annot_b][unitary_alignment[annot_b],
                                                                 unitary_alignment[annot_a]]""", "R-C02-3")
M("C02", "self-pairs", DIS,
  "            for annot_a in range(nb_annotators):\n                for annot_b in range(annot_a):\n                    disorder +=",
  "            for annot_a in range(nb_annotators):\n                for annot_b in range(annot_a + 1):\n                    disorder +=", "R-C02-3")
M("C02", "empty-row-zero", DIS, "                    matrix[nb_annot_a, annot_b] = delta_empty", "                    matrix[nb_annot_a, annot_b] = 0", "R-C02-4")
M("C02", "real-cells-wrong-annotator", DIS,
  """                        matrix[annot_a, annot_b] = d_mat(unit_arrays[annotator_a][annot_a],
                                                         unit_arrays[annotator_b][annot_b])""",
  """                        matrix[annot_a, annot_b] = d_mat(unit_arrays[annotator_a][annot_a],
                                                         unit_arrays[annotator_a][annot_b])""", "R-C02-4")
M("C02", "odometer-reset-one", NUM, "            current[i] = 0\n        else:", "            current[i] = 1\n        else:", "R-C02-5")
M("C02", "disorders-of-other-ids", CONT,
  """        alignments_disorders: np.ndarray = disorders[chosen_alignments_ids]

        from .alignment import UnitaryAlignment, Alignment
""",
  """        alignments_disorders: np.ndarray = disorders[:len(chosen_alignments_ids)]

        from .alignment import UnitaryAlignment, Alignment
""", "R-C02-6")
B("C02", "objective-without-transpose", CONT, CBC_BEST,
  "            cp.Problem(cp.Minimize(disorders @ x), [A @ x == 1]).solve(solver=cp.CBC)")
M("C08", "handler-swallows", CONT,
  """            logging.warning("CBC solver not installed. Using GLPK.")
            matmul = A @ x
""" + GLPK_BEST,
  """            logging.warning("CBC solver not installed. Using GLPK.")
            pass""", "R-C08-1")
M("C08", "handler-only-importerror", CONT,
  """            cp.Problem(cp.Minimize(disorders.T @ x), [A @ x == 1]).solve(solver=cp.CBC)
        except (ImportError, cp.SolverError):""",
  """            cp.Problem(cp.Minimize(disorders.T @ x), [A @ x == 1]).solve(solver=cp.CBC)
        except ImportError:""", "R-C08-2")
M("C08", "soft-glpk-partition", CONT, GLPK_SOFT,
  "            cp.Problem(cp.Minimize(disorders.T @ x), [A @ x == 1]).solve(solver=cp.GLPK_MI)", "R-C08-1")
M("C08", "glpk-handler-uses-cbc-again", CONT, GLPK_BEST,
  "            cp.Problem(cp.Minimize(disorders.T @ x), [1 <= matmul, matmul <= 1]).solve(solver=cp.CBC)", "R-C08-2")
B("C08", "except-exception-fallback", CONT,
  """            cp.Problem(cp.Minimize(disorders.T @ x), [A @ x == 1]).solve(solver=cp.CBC)
        except (ImportError, cp.SolverError):""",
  """            cp.Problem(cp.Minimize(disorders.T @ x), [A @ x == 1]).solve(solver=cp.CBC)
        except Exception:""")
M("C11", "soft-cbc-partition", CONT, CBC_SOFT,
  "            cp.Problem(cp.Minimize(disorders.T @ x), [A @ x == 1]).solve(solver=cp.CBC)", "R-C11-1")
M("C11", "soft-glpk-ge-zero", CONT, GLPK_SOFT,
  "            cp.Problem(cp.Minimize(disorders.T @ x), [A @ x >= 0]).solve(solver=cp.GLPK_MI)", "R-C11-1")
M("C11", "soft-at-most-once", CONT, CBC_SOFT,
  "            cp.Problem(cp.Minimize(disorders.T @ x), [A @ x <= 1]).solve(solver=cp.CBC)", "R-C11-1")
M("C11", "soft-returns-alignment", CONT,
  """        return SoftAlignment(set_unitary_alignements,""", """        return Alignment(set_unitary_alignements,""", "R-C11-2")
M("C11", "soft-cache-without-avg", CONT,
  """                             check_validity=False,
                             disorder=np.sum(alignments_disorders) / self.avg_num_annotations_per_annotator)

    def get_first_window""",
  """                             check_validity=False,
                             disorder=np.sum(alignments_disorders))

    def get_first_window""", "R-C11-2")
M("C11", "soft-threshold-differs", CONT,
  """        chosen_alignments_ids, = np.where(x.value > 0.9)

        chosen_alignments: np.ndarray = possible_unitary_alignments[chosen_alignments_ids]
        alignments_disorders: np.ndarray = disorders[chosen_alignments_ids]

        from .alignment import UnitaryAlignment, SoftAlignment
""",
  """        chosen_alignments_ids, = np.where(x.value > 0.0)

        chosen_alignments: np.ndarray = possible_unitary_alignments[chosen_alignments_ids]
        alignments_disorders: np.ndarray = disorders[chosen_alignments_ids]

        from .alignment import UnitaryAlignment, SoftAlignment
""", "R-C11-2")
B("C11", "soft-cover-written-reversed", CONT, CBC_SOFT,
  "            cp.Problem(cp.Minimize(disorders.T @ x), [1 <= A @ x]).solve(solver=cp.CBC)")

# =============================================================================================
# C03
# =============================================================================================
REGRESSIONS.append(dict(prop="C03", id="regression/F1b-unlabelled-units-crash-recompute", patch="7ad1739.diff", rule="R-C03-6"))
M("C03", "normalise-by-n", DIS, "        res /= c2n\n        return res", "        res /= nb_annotators\n        return res", "R-C03-1",
  "invisible for 3 annotators (n == C(n,2))")
M("C03", "pairs-with-diagonal", DIS,
  "            for i in range(nb_annotators):\n                for j in range(i):\n                    if unitary_alignment[i, 3] == -1",
  "            for i in range(nb_annotators):\n                for j in range(i + 1):\n                    if unitary_alignment[i, 3] == -1", "R-C03-1")
M("C03", "sentinel-zero", DIS,
  "                    if unitary_alignment[i, 3] == -1 or unitary_alignment[j, 3] == -1:",
  "                    if unitary_alignment[i, 3] == 0 or unitary_alignment[j, 3] == 0:", "R-C03-1")
M("C03", "empty-test-one-side", DIS,
  "                    if unitary_alignment[i, 3] == -1 or unitary_alignment[j, 3] == -1:",
  "                    if unitary_alignment[i, 3] == -1 or unitary_alignment[i, 3] == -1:", "R-C03-1")
M("C03", "best-cache-divided-by-num-units", CONT,
  """                         check_validity=False,
                         disorder=np.sum(alignments_disorders) / self.avg_num_annotations_per_annotator)

    def compute_gamma""",
  """                         check_validity=False,
                         disorder=np.sum(alignments_disorders) / self.num_units)

    def compute_gamma""", "R-C03-4")
M("C03", "soft-cache-without-avg", CONT,
  """                             check_validity=False,
                             disorder=np.sum(alignments_disorders) / self.avg_num_annotations_per_annotator)

    def get_first_window""",
  """                             check_validity=False,
                             disorder=np.sum(alignments_disorders))

    def get_first_window""", "R-C03-4")
M("C03", "fast-cache-uses-copy-average", CONT,
  """                         check_validity=False,  # Validity has been thoroughly tested
                         disorder=np.sum(disorders) / self.avg_num_annotations_per_annotator)""",
  """                         check_validity=False,  # Validity has been thoroughly tested
                         disorder=np.sum(disorders) / max(1, len(unitary_alignments)))""", "R-C03-4")
M("C03", "recomputed-disorder-shifted", ALI,
  """        for i, disorder in enumerate(disorders):
            self.unitary_alignments[i].disorder = disorder
        self._disorder = (np.sum(disorders)""",
  """        for i, disorder in enumerate(disorders):
            self.unitary_alignments[i - 1].disorder = disorder
        self._disorder = (np.sum(disorders)""", "R-C03-3")
M("C03", "soft-recompute-mean-instead-of-sum", ALI,
  "        self._disorder = np.sum(disorders) / self.avg_num_annotations_per_annotator\n        return self._disorder",
  "        self._disorder = np.mean(disorders) / self.avg_num_annotations_per_annotator\n        return self._disorder", "R-C03-3")
M("C03", "delta-and-dmat-swapped-roles", DIS,
  "        return self._compute_alignment_disorders(alignment_arrays, self.d_mat, self.delta_empty)",
  "        return self._compute_alignment_disorders(alignment_arrays, self.d_mat, 1.0)", "R-C03-2")
B("C03", "slot-by-position-in-tuple", DIS,
  """            for annotator, unit in unitary_alignment.n_tuple:
                annotator_i = annotators.index(annotator)""",
  """            for annotator_i, (annotator, unit) in enumerate(unitary_alignment.n_tuple):""",
  "slot numbering is irrelevant to the symmetric pair-sum: must stay silent")
M("C03", "alignment-disorder-property-mean", ALI,
  """            self._disorder = (sum(u_align.disorder for u_align
                                  in self.unitary_alignments)
                              / self.avg_num_annotations_per_annotator)""",
  """            self._disorder = (sum(u_align.disorder for u_align
                                  in self.unitary_alignments)
                              / len(self.unitary_alignments))""", "R-C03-3")
M("C03", "avg-without-continuum-counts-slots", ALI,
  "            return sum(unitary_alignment.nb_units for unitary_alignment in self) / self.num_annotators",
  "            return len(self.unitary_alignments)", "R-C03-3")
M("C03", "nb-units-counts-all-slots", ALI,
  "        return sum(1 for _ in filter((lambda annot_unit: annot_unit[1] is not None), self._n_tuple))",
  "        return len(self._n_tuple)", "R-SUP")
B("C03", "per-cell-normalisation", DIS,
  """                        res[unitary_alignment_i] += d_mat(unitary_alignment[i], unitary_alignment[j])
        res /= c2n
        return res""",
  """                        res[unitary_alignment_i] += d_mat(unitary_alignment[i], unitary_alignment[j])
            res[unitary_alignment_i] /= c2n
        return res""")
B("C03", "upper-triangle-pairs", DIS,
  "            for i in range(nb_annotators):\n                for j in range(i):\n                    if unitary_alignment[i, 3] == -1",
  "            for i in range(nb_annotators):\n                for j in range(i + 1, nb_annotators):\n                    if unitary_alignment[i, 3] == -1")
B("C03", "c2n-true-division", DIS,
  "        c2n = nb_annotators * (nb_annotators - 1) // 2\n        for unitary_alignment_i",
  "        c2n = (nb_annotators - 1) * nb_annotators / 2\n        for unitary_alignment_i")

# =============================================================================================
# C20
# =============================================================================================
REGRESSIONS.append(dict(prop="C20", id="regression/F9-numerical-tested-as-ordinal", patch="6d18317.diff", rule="R-C20-2"))
REGRESSIONS.append(dict(prop="C20", id="regression/F10-float32-to-writers", patch="81c0d94.diff", rule="R-C20-4"))
M("C20", "empty-delta-not-forwarded", CLI,
  "                                                  delta_empty=args.empty_delta,\n", "", "R-C20-3")
M("C20", "n-samples-ignored", CLI,
  "                                        sampler=sampler,\n                                        n_samples=args.n_samples)",
  "                                        sampler=sampler)", "R-C20-3")
M("C20", "seed-set-after-computation", CLI,
  """    if args.seed is not None:
        np.random.seed(args.seed)

    for file_path in input_files:""",
  """    for file_path in input_files:""", "R-C20-3")
M("C20", "seed-reset-per-file", CLI,
  """    if args.seed is not None:
        np.random.seed(args.seed)

    for file_path in input_files:
        start = time.time()""",
  """    for file_path in input_files:
        if args.seed is not None:
            np.random.seed(args.seed)
        start = time.time()""", "R-C20-3", "API semantic differs for several files: each file restarts the stream")
M("C20", "alpha-beta-crossed", CLI,
  "        dissim = CombinedCategoricalDissimilarity(alpha=args.alpha,\n                                                  beta=args.beta,",
  "        dissim = CombinedCategoricalDissimilarity(alpha=args.beta,\n                                                  beta=args.alpha,", "R-C20-3")
M("C20", "csv-mode-reports-other-accessor", CLI,
  "            result_list.append(float(gamma.gamma))", "            result_list.append(float(gamma.observed_disorder))", "R-C20-5")
M("C20", "separator-not-used-by-writer", CLI,
  "            writer = csv.writer(output_csv, delimiter=args.separator)", "            writer = csv.writer(output_csv)", "R-C20-3")
M("C20", "levenshtein-builds-numerical", CLI,
  "            cat_dissim = LevenshteinCategoricalDissimilarity(continuum.categories)",
  "            cat_dissim = NumericalCategoricalDissimilarity(continuum.categories)", "R-C20-2")
M("C20", "new-option-never-read", CLI,
  """argparser.add_argument("-v", "--verbose",""",
  """argparser.add_argument("--soft", action="store_true", help="soft gamma")
argparser.add_argument("-v", "--verbose",""", "R-C20-1")
M("C20", "gamma-k-csv-not-floated", CLI,
  "result_list.append({category: float(gamma.gamma_k(category)) for category in continuum.categories})",
  "result_list.append({category: gamma.gamma_k(category) for category in continuum.categories})", "R-C20-4")
M("C20", "mathet-flag-inverted", CLI,
  "        if args.mathet_sampler:\n            sampler = ShuffleContinuumSampler()",
  "        if not args.mathet_sampler:\n            sampler = ShuffleContinuumSampler()", "R-C20-3")
B("C20", "options-reordered-help-changed", CLI,
  """argparser.add_argument("-a", "--alpha",
                       default=1, type=float,
                       help="Alpha coefficient (positional dissimilarity ponderation)")
argparser.add_argument("-b", "--beta",
                       default=1, type=float,
                       help="Beta coefficient (categorical dissimilarity ponderation)")""",
  """argparser.add_argument("-b", "--beta",
                       default=1, type=float,
                       help="weight of the categorical dissimilarity")
argparser.add_argument("-a", "--alpha",
                       default=1, type=float,
                       help="weight of the positional dissimilarity")""")
B("C20", "value-through-local", CLI,
  "            result_list.append(float(gamma.gamma))", "            gamma_value = float(gamma.gamma)\n            result_list.append(gamma_value)")

# =============================================================================================
# C18
# =============================================================================================
REGRESSIONS.append(dict(prop="C18", id="regression/F12-csv-without-newline", patch="ab3bf94.diff", rule="R-C18-2"))
M("C18", "writer-swaps-start-end", CONT,
  "                writer.writerow([annotator, unit.annotation,\n                                 unit.segment.start, unit.segment.end])",
  "                writer.writerow([annotator, unit.annotation,\n                                 unit.segment.end, unit.segment.start])", "R-C18-1")
M("C18", "reader-label-from-column-0", CONT,
  "                    continuum.add(row[0], seg, row[1])", "                    continuum.add(row[1], seg, row[0])", "R-C18-1")
M("C18", "delimiter-not-forwarded-to-writer", CONT,
  "            writer = csv.writer(csv_file, delimiter=delimiter)", "            writer = csv.writer(csv_file)", "R-C18-1")
M("C18", "elan-ignores-selected-tiers", CONT,
  """        for tier_name in eaf.get_tier_names():
            if selected_tiers is not None and tier_name not in selected_tiers:
                continue
            for start, end, value""",
  """        for tier_name in eaf.get_tier_names():
            for start, end, value""", "R-C18-4")
M("C18", "textgrid-label-in-tier-mode", CONT,
  """                    self.add(annotator,
                             Segment(interval.minTime, interval.maxTime),
                             tier_name)""",
  """                    self.add(annotator,
                             Segment(interval.minTime, interval.maxTime),
                             interval.mark)""", "R-C18-4")
M("C18", "discard-flag-inverted", CONT,
  "                    if discard_invalid_rows:\n                        print(f\"Discarded invalid segment : {str(e)}\")",
  "                    if not discard_invalid_rows:\n                        print(f\"Discarded invalid segment : {str(e)}\")", "R-C18-3")
M("C18", "elan-times-rounded", CONT,
  "                    self.add(annotator, Segment(start, end), value)", "                    self.add(annotator, Segment(round(start), round(end)), value)", "R-C18-4")
M("C18", "elan-skips-single-char-values", CONT,
  """            for start, end, value in eaf.get_annotation_data_for_tier(tier_name):
                if use_tier_as_annotation:""",
  """            for start, end, value in eaf.get_annotation_data_for_tier(tier_name):
                if len(value) < 2:
                    continue
                if use_tier_as_annotation:""", "R-C18-4")
M("C18", "rttm-annotator-constant", CONT,
  "            continuum.add_annotation(uri, annot)", "            continuum.add_annotation(\"rttm\", annot)", "R-C18-5")
M("C18", "reader-int-times", CONT,
  "                seg = Segment(float(row[2]), float(row[3]))", "                seg = Segment(int(float(row[2])), int(float(row[3])))", "R-C18-1")
M("C18", "invalid-rows-always-swallowed", CONT,
  """                    if discard_invalid_rows:
                        print(f"Discarded invalid segment : {str(e)}")
                    else:
                        raise e""",
  """                    print(f"Discarded invalid segment : {str(e)}")""", "R-C18-3")
B("C18", "writer-row-as-tuple-with-locals", CONT,
  "                writer.writerow([annotator, unit.annotation,\n                                 unit.segment.start, unit.segment.end])",
  "                writer.writerow((annotator, unit.annotation, unit.segment.start,\n                                 unit.segment.end))")
B("C18", "reader-inline-segment", CONT,
  """                seg = Segment(float(row[2]), float(row[3]))
                try:
                    continuum.add(row[0], seg, row[1])""",
  """                try:
                    continuum.add(row[0], Segment(float(row[2]), float(row[3])), row[1])""")

# =============================================================================================
# C05
# =============================================================================================
M("C05", "second-batch-not-collected", CONT,
  """                    for i, result in enumerate(result_pool):
                        chance_best_alignments.append(result.result())
                        logging.info(f"finished computation of additionnal random sample dissimilarity \"""",
  """                    for i, result in enumerate(result_pool):
                        result.result()
                        logging.info(f"finished computation of additionnal random sample dissimilarity \"""", "R-C05-3")
M("C05", "square-dropped", CONT,
  "                required_samples = np.ceil((variation_coeff * confidence / precision_level) ** 2).astype(np.int32)",
  "                required_samples = np.ceil((variation_coeff * confidence / precision_level)).astype(np.int32)", "R-C05-4")
M("C05", "confidence-outside-square", CONT,
  "                required_samples = np.ceil((variation_coeff * confidence / precision_level) ** 2).astype(np.int32)",
  "                required_samples = np.ceil((variation_coeff / precision_level) ** 2 * confidence).astype(np.int32)", "R-C05-4")
M("C05", "sample-hoisted", CONT,
  """            result_pool = [
                # Step one : computing the disorders of a batch of random samples from the continuum (done in parallel)
                p.submit(job,
                         *(dissimilarity, sampler.sample_from_continuum))
                for _ in range(n_samples)
            ]""",
  """            one_sample = sampler.sample_from_continuum
            result_pool = [
                # Step one : computing the disorders of a batch of random samples from the continuum (done in parallel)
                p.submit(job,
                         *(dissimilarity, one_sample))
                for _ in range(n_samples)
            ]""", "R-C05-2", "the same sample aligned n times: expected disorder has zero variance")
M("C05", "expected-over-first-30", CONT,
  "        return float(np.mean([align.disorder for align in self.chance_alignments]))",
  "        return float(np.mean([align.disorder for align in self.chance_alignments[:30]]))", "R-C05-5")
M("C05", "soft-mapped-to-exact-job", CONT,
  "        if soft:\n            job = _compute_soft_alignment_job", "        if soft:\n            job = _compute_best_alignment_job", "R-C05-1")
M("C05", "observed-with-exact-job-in-fast-mode", CONT,
  "            best_alignment_task = p.submit(job,\n                                           *(dissimilarity, self))",
  "            best_alignment_task = p.submit(_compute_best_alignment_job,\n                                           *(dissimilarity, self))", "R-C05-1",
  "observed disorder exact, expected disorders fast: gamma mixes two kinds of alignment")
M("C05", "ground-truth-annotators-dropped", CONT,
  "        sampler.init_sampling(self, ground_truth_annotators)", "        sampler.init_sampling(self)", "R-C05-2")
M("C05", "init-sampling-only-for-default-sampler", CONT,
  """            sampler = StatisticalContinuumSampler()
        sampler.init_sampling(self, ground_truth_annotators)""",
  """            sampler = StatisticalContinuumSampler()
            sampler.init_sampling(self, ground_truth_annotators)""", "R-C05-2", "a user-supplied sampler keeps its previous reference continuum")
M("C05", "second-batch-size-required", CONT,
  "                        for _ in range(required_samples - n_samples)\n                    ]",
  "                        for _ in range(required_samples)\n                    ]", "R-C05-3")
M("C05", "gamma-guard-after-division", CONT,
  """        observed_disorder = self.observed_disorder
        if observed_disorder == 0:
            return 1
        return 1 - observed_disorder / self.expected_disorder""",
  """        observed_disorder = self.observed_disorder
        return 1 - observed_disorder / self.expected_disorder""", "R-C05-5")
M("C05", "cv-over-all-disorders-including-observed", CONT,
  "            best_alignment = best_alignment_task.result()\n            logging.info(\"Best alignment obtained\")",
  "            best_alignment = best_alignment_task.result()\n            chance_disorders.append(best_alignment.disorder)\n            logging.info(\"Best alignment obtained\")", "R-C05-4")
M("C05", "fast-job-fallback-inverted", CONT,
  "    if continuum.best_window_size == np.inf:  # window size is set to infinity when normal gamma is better.",
  "    if continuum.best_window_size != np.inf:  # window size is set to infinity when normal gamma is better.", "R-C05-1")
B("C05", "first-pool-as-loop", CONT,
  """            result_pool = [
                # Step one : computing the disorders of a batch of random samples from the continuum (done in parallel)
                p.submit(job,
                         *(dissimilarity, sampler.sample_from_continuum))
                for _ in range(n_samples)
            ]""",
  """            result_pool = [p.submit(job, dissimilarity, sampler.sample_from_continuum) for _ in range(n_samples)]""")
B("C05", "confidence-inlined", CONT,
  "                required_samples = np.ceil((variation_coeff * confidence / precision_level) ** 2).astype(np.int32)",
  "                required_samples = np.ceil((1.96 * variation_coeff / precision_level) ** 2).astype(np.int32)")

# vectorised ordinal constructor: gather through the argsort permutation is right, scatter is the seeded defect (seeded/C04-*)
B("C04", "ordinal-vectorised-gather", DIS,
  """        for rank_i, i in enumerate(indexes):
            for rank_j, j in enumerate(indexes):
                matrix[rank_i, rank_j] = abs(p[i] - p[j])
                max_val = max(matrix[rank_i, rank_j], max_val)
        matrix /= max_val""",
  """        positions = np.asarray(p)
        matrix = np.abs(positions[:, None] - positions[None, :])[np.ix_(indexes, indexes)]
        matrix = matrix / max(max_val, matrix.max())""")
M("C04", "ordinal-vectorised-scatter", DIS,
  """        for rank_i, i in enumerate(indexes):
            for rank_j, j in enumerate(indexes):
                matrix[rank_i, rank_j] = abs(p[i] - p[j])
                max_val = max(matrix[rank_i, rank_j], max_val)
        matrix /= max_val""",
  """        positions = np.asarray(p)
        matrix[np.ix_(indexes, indexes)] = np.abs(positions[:, None] - positions[None, :])
        matrix /= matrix.max(initial=1.0)""", "R-C04-5")

# =============================================================================================
# C12
# =============================================================================================
M("C12", "weight-one-over-k", ALI, "                weight_base = 1 / (nv - 1)", "                weight_base = 1 / nv", "R-C12-1")
M("C12", "confidence-without-alpha", ALI,
  "                    pos_dissim = dissimilarity.alpha * dissimilarity.positional_dissim.d(unit1, unit2)",
  "                    pos_dissim = dissimilarity.positional_dissim.d(unit1, unit2)", "R-C12-1")
M("C12", "category-filter-or", ALI,
  """                    if category is not None and ((unit1 is None or unit1.annotation != category)
                                                 and (unit2 is None or unit2.annotation != category)):""",
  """                    if category is not None and ((unit1 is None or unit1.annotation != category)
                                                 or (unit2 is None or unit2.annotation != category)):""", "R-C12-1",
  "gamma-k only counts pairs where BOTH units carry the category")
M("C12", "empty-pair-weight-one", ALI,
  "                           total_weight += dissimilarity.delta_empty", "                           total_weight += 1", "R-C12-1")
M("C12", "non-combined-check-after-loop", ALI,
  """        if not isinstance(dissimilarity, CombinedCategoricalDissimilarity):
            raise TypeError("Gamma-k and Gamma-cat can only be computed using "
                            f"the {CombinedCategoricalDissimilarity} "
                            f"dissimilarity.")

        total_disorder = 0""",
  """        total_disorder = 0""", "R-C12-2")
M("C12", "chance-jobs-with-none-category", CONT,
  """                p.submit(_compute_gamma_k_job,
                         *(self.dissimilarity, alignment, category))""",
  """                p.submit(_compute_gamma_k_job,
                         *(self.dissimilarity, alignment, None))""", "R-C12-3", "gamma-k compares a per-category observed value with gamma-cat chance values")
M("C12", "confidence-not-clamped", ALI,
  "                    weight_confidence = max(0, 1 - pos_dissim)", "                    weight_confidence = 1 - pos_dissim", "R-C12-1",
  "negative weights for distant co-aligned units (only with alpha*pos > 1)")
M("C12", "none-unit-dereferenced", ALI,
  """                    if category is not None and ((unit1 is None or unit1.annotation != category)
                                                 and (unit2 is None or unit2.annotation != category)):""",
  """                    if category is not None and (unit1.annotation != category
                                                 and (unit2 is None or unit2.annotation != category)):""", "R-C12-1")
M("C12", "weight-without-base", ALI,
  "                    weight = weight_base * weight_confidence  # Each categorical dissimilarity is weighted by both",
  "                    weight = weight_confidence  # Each categorical dissimilarity is weighted by both", "R-C12-1",
  "identical when every unitary alignment has 2 real units (k-1 = 1)")
M("C12", "gamma-cat-expected-over-best", CONT,
  """                p.submit(_compute_gamma_k_job,
                         *(self.dissimilarity, alignment, None))
                for alignment in self.chance_alignments""",
  """                p.submit(_compute_gamma_k_job,
                         *(self.dissimilarity, self.best_alignment, None))
                for alignment in self.chance_alignments""", "R-C12-3")
B("C12", "pairs-via-combinations", ALI,
  """            for i, (_, unit1) in enumerate(unitary_alignment.n_tuple):
                for _, unit2 in unitary_alignment.n_tuple[i + 1:]:
                    # Case handler for gamma-k
                    if category is not None and ((unit1 is None or unit1.annotation != category)
                                                 and (unit2 is None or unit2.annotation != category)):
                        continue
                    no_cat = False
                    if unit1 is None or unit2 is None:
                        # extra case for unaligned annotations, experimental
                        if unit1 is not None or unit2 is not None:
                           total_disorder += dissimilarity.delta_empty * dissimilarity.delta_empty
                           total_weight += dissimilarity.delta_empty
                        continue
                    no_loop = False
                    pos_dissim = dissimilarity.alpha * dissimilarity.positional_dissim.d(unit1, unit2)
                    weight_confidence = max(0, 1 - pos_dissim)
                    cat_dissim = dissimilarity.categorical_dissim.d(unit1, unit2)
                    weight = weight_base * weight_confidence  # Each categorical dissimilarity is weighted by both
                    total_disorder += cat_dissim * weight  # a positional "confidence" and the # of alignments
                    total_weight += weight  # in the unitary alignment""",
  """            import itertools
            for (_, unit1), (_, unit2) in itertools.combinations(unitary_alignment.n_tuple, 2):
                if category is not None and ((unit1 is None or unit1.annotation != category)
                                             and (unit2 is None or unit2.annotation != category)):
                    continue
                no_cat = False
                if unit1 is None or unit2 is None:
                    if unit1 is not None or unit2 is not None:
                        total_disorder += dissimilarity.delta_empty * dissimilarity.delta_empty
                        total_weight += dissimilarity.delta_empty
                    continue
                no_loop = False
                pos_dissim = dissimilarity.alpha * dissimilarity.positional_dissim.d(unit1, unit2)
                weight_confidence = max(0, 1 - pos_dissim)
                cat_dissim = dissimilarity.categorical_dissim.d(unit1, unit2)
                weight = weight_base * weight_confidence
                total_disorder += cat_dissim * weight
                total_weight += weight""")
B("C12", "accumulation-reordered", ALI,
  """                    weight = weight_base * weight_confidence  # Each categorical dissimilarity is weighted by both
                    total_disorder += cat_dissim * weight  # a positional "confidence" and the # of alignments
                    total_weight += weight  # in the unitary alignment""",
  """                    total_weight += weight_confidence * weight_base
                    total_disorder += weight_base * cat_dissim * weight_confidence""")

# =============================================================================================
# C17
# =============================================================================================
M("C17", "repeated-threshold-two", ALI,
  "        repeated_tuples = {tup for tup, count in tuples_counts.items() if count > 1}",
  "        repeated_tuples = {tup for tup, count in tuples_counts.items() if count > 2}", "R-C17-1", "a unit placed exactly twice is accepted")
M("C17", "missing-test-dropped", ALI,
  """        missing_tuples = continuum_tuples - set(alignment_tuples)
        if missing_tuples:""",
  """        missing_tuples = continuum_tuples - set(alignment_tuples)
        if missing_tuples and len(missing_tuples) > 1:""", "R-C17-1", "a single missing unit is accepted")
M("C17", "soft-zero-test-negative", ALI,
  "                if factor == 0:", "                if factor < 0:", "R-C17-3")
M("C17", "soft-ignores-check-validity", ALI,
  "        super().__init__(unitary_alignments, continuum, check_validity, disorder)",
  "        super().__init__(unitary_alignments, continuum, False, disorder)", "R-C17-4")
M("C17", "check-validity-inverted", ALI,
  "        if not check_validity:\n            return\n        else:\n            self.check()",
  "        if check_validity:\n            return\n        else:\n            self.check()", "R-C17-4")
M("C17", "none-slots-counted-as-missing", ALI,
  """                if unit is None:
                    continue
                alignment_tuples.append((annotator, unit))""",
  """                alignment_tuples.append((annotator, unit))""", "R-C17-1")
M("C17", "missing-only-from-first-unitary-alignment", ALI,
  """        for unitary_alignment in self.unitary_alignments:
            for (annotator, unit) in unitary_alignment.n_tuple:
                if unit is None:""",
  """        for unitary_alignment in self.unitary_alignments[:1]:
            for (annotator, unit) in unitary_alignment.n_tuple:
                if unit is None:""", "R-C17-1")
M("C17", "soft-counts-only-first-occurrence-annotator", ALI,
  "        unit_occurences = SortedDict({annotator: SortedDict({unit: 0 for unit in units})\n                                      for annotator, units in continuum._annotations.items()})",
  "        unit_occurences = SortedDict({annotator: SortedDict({unit: 0 for unit in units[:1]})\n                                      for annotator, units in continuum._annotations.items()})", "R-C17-3")
M("C17", "check-before-fields-set", ALI,
  """        self.unitary_alignments = list(unitary_alignments)
        self.continuum = continuum
        self._disorder: Optional[float] = disorder

        if not check_validity:
            return
        else:
            self.check()""",
  """        self.unitary_alignments = list(unitary_alignments)
        self._disorder: Optional[float] = disorder
        if check_validity:
            self.check()
        self.continuum = continuum""", "R-C17-4", "validation at construction runs without the continuum: raises ValueError instead of checking")
B("C17", "check-validity-positive-form", ALI,
  "        if not check_validity:\n            return\n        else:\n            self.check()",
  "        if check_validity:\n            self.check()")
B("C17", "guarded-append", ALI,
  """                if unit is None:
                    continue
                alignment_tuples.append((annotator, unit))""",
  """                if unit is not None:
                    alignment_tuples.append((annotator, unit))""")

# =============================================================================================
# C10
# =============================================================================================
REGRESSIONS.append(dict(prop="C10", id="regression/F5-take-until-limit-may-yield-nothing", patch="f5d0857.diff", rule="R-C10-1"))
M("C10", "removal-skipped-for-first-slot", CONT,
  """                for annotator, unit in chosen.n_tuple:
                    if unit is not None:
                        copy.remove(annotator, unit)  # Now we remove the units from the chosen alignment.""",
  """                for annotator, unit in chosen.n_tuple[1:]:
                    if unit is not None:
                        copy.remove(annotator, unit)  # Now we remove the units from the chosen alignment.""", "R-C10-2")
M("C10", "append-without-removal", CONT,
  """                for annotator, unit in chosen.n_tuple:
                    if unit is not None:
                        copy.remove(annotator, unit)  # Now we remove the units from the chosen alignment.""",
  """                if len(unitary_alignments) % 7 == 0:
                    continue
                for annotator, unit in chosen.n_tuple:
                    if unit is not None:
                        copy.remove(annotator, unit)  # Now we remove the units from the chosen alignment.""", "R-C10-2")
M("C10", "fallback-test-inverted", CONT,
  "    if continuum.best_window_size == np.inf:  # window size is set to infinity when normal gamma is better.",
  "    if continuum.best_window_size != np.inf:  # window size is set to infinity when normal gamma is better.", "R-C10-4")
M("C10", "measure-assigns-in-both-branches", CONT,
  """            self.best_window_size = window_sizes[min_index]
        else:
            logging.warning("Fast-gamma disadvantageous, using normal gamma.")""",
  """            self.best_window_size = window_sizes[min_index]
        else:
            self.best_window_size = window_sizes[min_index]
            logging.warning("Fast-gamma disadvantageous, using normal gamma.")""", "R-C10-4")
M("C10", "window-from-self-instead-of-copy", CONT,
  "            window, x_limit = copy.get_first_window(dissimilarity, window_size)",
  "            window, x_limit = self.get_first_window(dissimilarity, window_size)", "R-C10-2", "the first window is aligned again and again: units duplicated / no progress")
M("C10", "limit-test-yields-nothing-for-strict-window", ALI,
  "            if i > 0 and unitary_alignment.bounds[1] > x_limit:", "            if unitary_alignment.bounds[1] > x_limit:", "R-C10-1")
M("C10", "copy-flush-loses-window-size", CONT,
  """        continuum.bound_inf, continuum.bound_sup = self.bound_inf, self.bound_sup
        continuum.best_window_size = self.best_window_size
        return continuum

    def copy(self)""",
  """        continuum.bound_inf, continuum.bound_sup = self.bound_inf, self.bound_sup
        return continuum

    def copy(self)""", "R-C10-4", "samples fall back to the exact algorithm while the observed alignment is windowed")
M("C10", "fast-cache-divided-by-copy-average", CONT,
  """                         check_validity=False,  # Validity has been thoroughly tested
                         disorder=np.sum(disorders) / self.avg_num_annotations_per_annotator)""",
  """                         check_validity=False,  # Validity has been thoroughly tested
                         disorder=np.sum(disorders) / copy.avg_num_annotations_per_annotator)""", "R-C10-3")
B("C10", "chosen-materialised-with-fallback", CONT,
  """            for chosen in best_alignment.take_until_limit(x_limit):
                unitary_alignments.append(chosen)""",
  """            kept = list(best_alignment.take_until_limit(x_limit))
            for chosen in kept:
                unitary_alignments.append(chosen)""")
B("C10", "generator-first-then-limit", ALI,
  """        for i, unitary_alignment in enumerate(leftmost_first):
            # the leftmost unitary alignment is always taken, so that the fast alignment progresses
            if i > 0 and unitary_alignment.bounds[1] > x_limit:
                break
            yield unitary_alignment""",
  """        for i, unitary_alignment in enumerate(leftmost_first):
            if i == 0:
                yield unitary_alignment
                continue
            if unitary_alignment.bounds[1] > x_limit:
                break
            yield unitary_alignment""")

# =============================================================================================
# C15
# =============================================================================================
M("C15", "category-weights-dropped", SAM,
  "                category = np.random.choice(self._categories, p=self._categories_weight)",
  "                category = np.random.choice(self._categories)", "R-C15-2", "uniform instead of weighted categories")
M("C15", "gap-from-duration-parameters", SAM,
  "                gap = np.random.normal(self._avg_gap, self._std_gap)",
  "                gap = np.random.normal(self._avg_unit_duration, self._std_unit_duration)", "R-C15-2")
M("C15", "abs-dropped-from-duration", SAM,
  "                end = start + abs(np.random.normal(self._avg_unit_duration, self._std_unit_duration))\n                # Segments",
  "                end = start + np.random.normal(self._avg_unit_duration, self._std_unit_duration)\n                # Segments", "R-C15-2")
M("C15", "std-gap-from-durations", SAM,
  "        self._std_gap = float(np.std(gaps))", "        self._std_gap = float(np.std([unit.segment.duration for _, unit in self._reference_continuum]))", "R-C15-3")
M("C15", "loop-over-all-reference-annotators", SAM,
  "        for annotator in self._ground_truth_annotators:\n            new_continnum.add_annotator(annotator)",
  "        for annotator in self._reference_continuum.annotators:\n            new_continnum.add_annotator(annotator)", "R-C15-1")
M("C15", "nonempty-guard-removed", SAM,
  "            if not new_continnum:\n                nb_units = max(1, nb_units)\n", "", "R-C15-2")
M("C15", "precision-loop-after-add", SAM,
  """                while end - start < pyannote.core.segment.SEGMENT_PRECISION:
                    end = start + abs(np.random.normal(self._avg_unit_duration, self._std_unit_duration))

                category = np.random.choice(self._categories, p=self._categories_weight)

                new_continnum.add(annotator, Segment(start, end), category)
""",
  """                category = np.random.choice(self._categories, p=self._categories_weight)

                new_continnum.add(annotator, Segment(start, end), category)
                while end - start < pyannote.core.segment.SEGMENT_PRECISION:
                    end = start + abs(np.random.normal(self._avg_unit_duration, self._std_unit_duration))
""", "R-C15-2")
M("C15", "custom-std-gap-into-avg", SAM,
  "        self._avg_gap = avg_gap\n        self._std_gap = std_gap", "        self._avg_gap = std_gap\n        self._std_gap = avg_gap", "R-C15-4")
M("C15", "count-std-from-gap", SAM,
  "            nb_units = abs(int(np.random.normal(self._avg_nb_units_per_annotator, self._std_nb_units_per_annotator)))",
  "            nb_units = abs(int(np.random.normal(self._avg_nb_units_per_annotator, self._std_gap)))", "R-C15-2")
M("C15", "weights-not-normalised", SAM,
  "        self._categories_weight /= self._reference_continuum.num_units\n", "", "R-C15-3")
M("C15", "last-point-not-updated", SAM,
  "                new_continnum.add(annotator, Segment(start, end), category)\n\n                last_point = end",
  "                new_continnum.add(annotator, Segment(start, end), category)\n", "R-C15-2", "all units pile up near 0: gaps no longer between consecutive units")
B("C15", "locals-renamed-and-guard-reordered", SAM,
  "                gap = np.random.normal(self._avg_gap, self._std_gap)\n                start = last_point + gap",
  "                start = np.random.normal(self._avg_gap, self._std_gap) + last_point")

# =============================================================================================
# C19
# =============================================================================================
M("C19", "category-shuffle-shifts-segment", CST,
  "                continuum.add(annotator, Segment(unit.segment.start, unit.segment.end), new_category)",
  "                continuum.add(annotator, Segment(unit.segment.start, unit.segment.end + 1e-3), new_category)", "R-C19-2")
M("C19", "false-pos-removes", CST,
  "                continuum.add(annotator,\n                              Segment(center - duration / 2, center + duration / 2),\n                              annotation=category)",
  "                continuum.add(annotator,\n                              Segment(center - duration / 2, center + duration / 2),\n                              annotation=category)\n                continuum.remove(annotator, next(iter(continuum[annotator])))", "R-C19-2")
M("C19", "split-adds-one-piece", CST,
  "                    continuum.add(annotator, Segment(cut, to_split.segment.end), to_split.annotation)\n                    continuum.add(annotator, Segment(to_split.segment.start, cut), to_split.annotation)",
  "                    continuum.add(annotator, Segment(to_split.segment.start, cut), to_split.annotation)", "R-C19-2")
M("C19", "shift-max-without-magnitude", CST,
  "        shift_max = self.magnitude * self.SHIFT_FACTOR * \\\n            self._reference_continuum.avg_length_unit",
  "        shift_max = self.SHIFT_FACTOR * \\\n            self._reference_continuum.avg_length_unit", "R-C19-3")
M("C19", "false-neg-without-security-guard", CST,
  "            if len(continuum._annotations[annotator]) == 0:\n                continuum.add(annotator, security.segment, security.annotation)",
  "            continuum.add(annotator, security.segment, security.annotation)", "R-C19-2", "a removed unit can come back: not only removals")
M("C19", "include-ref-without-absence-check", CST,
  """            assert self._reference_annotator not in continuum.annotators, \\
                "Reference annotator can't be included as " \\
                "an annotator with the same name is in the " \\
                "generated corpus."
""", "", "R-C19-4")
M("C19", "false-neg-removal-non-strict", CST,
  "                if np.random.random() < self.magnitude:", "                if np.random.random() <= self.magnitude:", "R-C19-2")
M("C19", "split-pieces-overlap", CST,
  "                    continuum.add(annotator, Segment(cut, to_split.segment.end), to_split.annotation)",
  "                    continuum.add(annotator, Segment(to_split.segment.start + security, to_split.segment.end), to_split.annotation)", "R-C19-2", "total annotated duration grows")
M("C19", "cat-matrix-not-identity-at-zero", CST,
  "            prob_matrix = prob_matrix * (1 - self.magnitude ** 2) + sec_matrix * self.magnitude ** 2",
  "            prob_matrix = prob_matrix * (1 - self.magnitude ** 2) + sec_matrix * (self.magnitude ** 2 + 0.01)", "R-C19-3")
M("C19", "shift-flag-also-splits", CST,
  "        if shift:\n            self.shift_shuffle(continuum)", "        if shift:\n            self.shift_shuffle(continuum)\n            self.splits_shuffle(continuum)", "R-C19-4")
M("C19", "reference-copy-drops-label", CST,
  "                              Segment(unit.segment.start, unit.segment.end),\n                              unit.annotation)",
  "                              Segment(unit.segment.start, unit.segment.end))", "R-C19-1")
M("C19", "split-label-changes", CST,
  "                    continuum.add(annotator, Segment(to_split.segment.start, cut), to_split.annotation)",
  "                    continuum.add(annotator, Segment(to_split.segment.start, cut), None)", "R-C19-2")
B("C19", "loops-over-list-copies", CST,
  "            for unit in continuum[annotator]:\n                continuum.remove(annotator, unit)\n                start_seg, end_seg = 0.0, 0.0",
  "            for unit in list(continuum[annotator]):\n                continuum.remove(annotator, unit)\n                start_seg, end_seg = 0.0, 0.0")

# =============================================================================================
# C09
# =============================================================================================
M("C09", "denominator-uses-ends", DIS,
  """                    (unit1[2] + unit2[2]))
            return dist * dist * delta_empty
        return d_mat

    def d(self, unit1: 'Unit', unit2: 'Unit'):
        pos = ((abs(unit1.segment.start - unit2.segment.start) + abs(unit1.segment.end - unit2.segment.end)) /
               (unit1.segment.duration + unit2.segment.duration))""",
  """                    (unit1[1] + unit2[1]))
            return dist * dist * delta_empty
        return d_mat

    def d(self, unit1: 'Unit', unit2: 'Unit'):
        pos = ((abs(unit1.segment.start - unit2.segment.start) + abs(unit1.segment.end - unit2.segment.end)) /
               (unit1.segment.end + unit2.segment.end))""", "R-C09-1", "ratio to the end positions: not translation invariant")
M("C09", "absolute-position-term", DIS,
  "            return dist * dist * delta_empty\n        return d_mat",
  "            return dist * dist * delta_empty + (unit1[0] + unit2[0]) * 1e-6\n        return d_mat", "R-C09-1")
M("C09", "criterium-plus-one", DIS,
  "        criterium = c2n * delta_empty * nb_annotators", "        criterium = c2n * delta_empty * nb_annotators + 1", "R-C09-2",
  "the cut no longer scales with delta_empty")
M("C09", "delta-squared-in-empty-cost", DIS,
  "                        res[unitary_alignment_i] += delta_empty\n", "                        res[unitary_alignment_i] += delta_empty * delta_empty\n", "R-C09-2")
M("C09", "sampler-reads-delta-empty", SAM,
  """    def init_sampling(self, reference_continuum: Continuum,
                      ground_truth_annotators: Optional[Iterable['Annotator']] = None):
        \"\"\"
        Sets the sampling parameters using statistical values obtained from the reference continuum.
""",
  """    def tune(self, dissimilarity):
        self._avg_gap = self._avg_gap * float(dissimilarity.delta_empty)

    def init_sampling(self, reference_continuum: Continuum,
                      ground_truth_annotators: Optional[Iterable['Annotator']] = None):
        \"\"\"
        Sets the sampling parameters using statistical values obtained from the reference continuum.
""", "R-C09-5")
M("C09", "absolute-kernel-not-homogeneous", DIS,
  "            return (0 if unit1[3] == unit2[3] else 1) * delta_empty",
  "            return (0 if unit1[3] == unit2[3] else 1) * delta_empty * delta_empty", "R-C09-2")
M("C09", "reach-test-ignores-delta", CONT,
  "                if dissimilarity.d(rightmost_unit, unit) > dissimilarity.delta_empty * self.num_annotators:",
  "                if dissimilarity.d(rightmost_unit, unit) > self.num_annotators:", "R-C09-2")
M("C09", "builder-adds-bound-offset", DIS,
  "                unit_array[unit_id][0] = unit.segment.start\n",
  "                unit_array[unit_id][0] = unit.segment.start\n        offset = continuum.bound_inf\n", "R-C09-3") if False else None
M("C09", "alignment-path-reads-bounds", CONT,
  """        disorders, possible_unitary_alignments = dissimilarity.valid_alignments(self)
        # Definition of the integer linear program
        n = len(disorders)
        # Constraints matrix ("every unit must appear once and only once")
        A = build_A(possible_unitary_alignments, sizes)

        x = cp.Variable(shape=(n,), boolean=True)
        try:
            import cylp
            cp.Problem(cp.Minimize(disorders.T @ x), [A @ x == 1])""",
  """        disorders, possible_unitary_alignments = dissimilarity.valid_alignments(self)
        disorders = disorders * (1 + 1e-9 * self.bound_sup)
        # Definition of the integer linear program
        n = len(disorders)
        # Constraints matrix ("every unit must appear once and only once")
        A = build_A(possible_unitary_alignments, sizes)

        x = cp.Variable(shape=(n,), boolean=True)
        try:
            import cylp
            cp.Problem(cp.Minimize(disorders.T @ x), [A @ x == 1])""", "R-C09-3")
M("C09", "annotator-name-length-in-array", DIS,
  "                unit_array[unit_id][2] = unit.segment.duration",
  "                unit_array[unit_id][2] = unit.segment.duration + 0 * len(annotator)", "R-C09-4")
B("C09", "algebraically-equal-positional", DIS,
  "            return dist * dist * delta_empty\n        return d_mat", "            return delta_empty * dist ** 2\n        return d_mat")
VARIANTS[:] = [v for v in VARIANTS if v is not None]

# pair kernel restructured: count the empty slots, charge them with a closed form (seeded/C03-*)
_PAIR_OLD = """            for i in range(nb_annotators):
                for j in range(i):
                    if unitary_alignment[i, 3] == -1 or unitary_alignment[j, 3] == -1:
                        res[unitary_alignment_i] += delta_empty
                    else:
                        res[unitary_alignment_i] += d_mat(unitary_alignment[i], unitary_alignment[j])
"""
_PAIR_COUNT = """            nb_empty = 0
            for i in range(nb_annotators):
                if unitary_alignment[i, 3] == -1:
                    nb_empty += 1
                    continue
                for j in range(i):
                    if unitary_alignment[j, 3] != -1:
                        res[unitary_alignment_i] += d_mat(unitary_alignment[i], unitary_alignment[j])
            res[unitary_alignment_i] += %s
"""
B("C03", "kernel-counts-empties-correct-closed-form", DIS, _PAIR_OLD,
  _PAIR_COUNT % "(nb_empty * (nb_annotators - nb_empty) + nb_empty * (nb_empty - 1) / 2) * delta_empty")
M("C03", "kernel-counts-empties-drops-empty-empty-pairs", DIS, _PAIR_OLD,
  _PAIR_COUNT % "nb_empty * (nb_annotators - nb_empty) * delta_empty", "R-C03-1")

# rules added after seeded changes C02 / C18
M("C18", "reader-skipinitialspace", CONT,
  "            reader = csv.reader(csv_file, delimiter=delimiter)", "            reader = csv.reader(csv_file, delimiter=delimiter, skipinitialspace=True)", "R-C18-1")
M("C18", "writer-other-quotechar", CONT,
  "            writer = csv.writer(csv_file, delimiter=delimiter)", "            writer = csv.writer(csv_file, delimiter=delimiter, quotechar=\"'\")", "R-C18-1")
B("C18", "same-quoting-both-sides", CONT,
  "            reader = csv.reader(csv_file, delimiter=delimiter)", "            reader = csv.reader(csv_file, delimiter=delimiter, doublequote=True)") if False else None
for prop, rule in (("C02", "R-C02-2"), ("C07", "R-C07-3")):
    M(prop, "extra-pruning-conjunct", DIS, "            if disorder <= criterium:",
      "            if disorder <= criterium and disorder <= (nb_annotators + 1) * delta_empty * c2n / 2:", rule,
      "a second, tighter cut next to the paper's: harmless for 3 annotators, loses optimal candidates for 4+")
B("C07", "cost-through-local", DIS,
  """                    disorder += precomputation[annot_a][annot_b][unitary_alignment[annot_a],
                                                                 unitary_alignment[annot_b]]""",
  """                    pair_cost = precomputation[annot_a][annot_b][unitary_alignment[annot_a],
                                                                  unitary_alignment[annot_b]]
                    disorder += pair_cost""")
VARIANTS[:] = [v for v in VARIANTS if v is not None]

# ILP: aggregate constraints and an extracted solve helper (after seeded changes C01 / C08 / C11)
B("C01", "glpk-aggregate-bound-by-units", CONT, GLPK_BEST,
  "            cp.Problem(cp.Minimize(disorders.T @ x), [1 <= matmul, cp.sum(matmul) <= A.shape[0]]).solve(solver=cp.GLPK_MI)",
  "every entry >= 1 and the total <= number of units forces every entry to 1")
for prop, rule in (("C01", "R-C01-1"), ("C08", "R-C08-1")):
    M(prop, "glpk-aggregate-bound-by-candidates", CONT, GLPK_BEST,
      "            cp.Problem(cp.Minimize(disorders.T @ x), [1 <= matmul, cp.sum(matmul) <= n]).solve(solver=cp.GLPK_MI)", rule)
_HELPER = '''    @staticmethod
    def _solve_selection(disorders, A, exactly_once: bool):
        x = cp.Variable(shape=(len(disorders),), boolean=True)
        covered = A @ x
        try:
            import cylp
            cp.Problem(cp.Minimize(disorders.T @ x), [covered == 1 if exactly_once else covered >= 1]).solve(solver=cp.CBC)
        except (ImportError, cp.SolverError):
            logging.warning("CBC solver not installed. Using GLPK.")
            constraints = [1 <= covered]
            if exactly_once:
                constraints.append(%s)
            cp.Problem(cp.Minimize(disorders.T @ x), constraints).solve(solver=cp.GLPK_MI)
        assert x.value is not None
        ids, = np.where(x.value > 0.9)
        return ids

    def get_first_window(self, dissimilarity'''
_SOLVE_BEST = """        x = cp.Variable(shape=(n,), boolean=True)
        try:
            import cylp
            cp.Problem(cp.Minimize(disorders.T @ x), [A @ x == 1]).solve(solver=cp.CBC)
        except (ImportError, cp.SolverError):
            logging.warning("CBC solver not installed. Using GLPK.")
            matmul = A @ x
            cp.Problem(cp.Minimize(disorders.T @ x), [1 <= matmul, matmul <= 1]).solve(solver=cp.GLPK_MI)
        assert x.value is not None, "The linear solver couldn't find an alignment with minimal disorder " \\
                                    "(likely because the amount of possible unitary alignments was too high)"
        # compare with 0.9 as cvxpy returns 1.000 or small values i.e. 10e-14
        chosen_alignments_ids, = np.where(x.value > 0.9)

        chosen_alignments: np.ndarray = possible_unitary_alignments[chosen_alignments_ids]
        alignments_disorders: np.ndarray = disorders[chosen_alignments_ids]

        from .alignment import UnitaryAlignment, Alignment
"""
_SOLVE_BEST_NEW = """        chosen_alignments_ids = self._solve_selection(disorders, A, exactly_once=True)

        chosen_alignments: np.ndarray = possible_unitary_alignments[chosen_alignments_ids]
        alignments_disorders: np.ndarray = disorders[chosen_alignments_ids]

        from .alignment import UnitaryAlignment, Alignment
"""
for kind, bound, rule in (("B", "covered <= 1", ""), ("M", "x <= 1", "R-C08-1")):
    for prop in ("C08", "C01"):
        VARIANTS.append(dict(prop=prop, id=f"solve-helper-extracted-{'ok' if kind == 'B' else 'glpk-bounds-x'}", kind=kind, rule=("R-C01-1" if prop == "C01" and kind == "M" else rule),
                             edits=[(CONT, "    def get_first_window(self, dissimilarity", _HELPER % bound), (CONT, _SOLVE_BEST, _SOLVE_BEST_NEW)],
                             note="solve step of get_best_alignment extracted into a flag-driven helper"))

# closedness rules
M("C07", "cost-rescaled-before-filter", DIS, "            if disorder <= criterium:", "            disorder *= 0.999\n            if disorder <= criterium:", "R-C07-2")
M("C18", "writer-latin1-reader-default", CONT,
  "        with open(path, \"w\", newline='') as csv_file:", "        with open(path, \"w\", newline='', encoding='latin-1') as csv_file:", "R-C18-2")
B("C18", "both-sides-utf8", None, None, None) if False else None
VARIANTS.append(dict(prop="C18", id="both-sides-utf8", kind="B", rule="", edits=[
    (CONT, "        with open(path, \"w\", newline='') as csv_file:", "        with open(path, \"w\", newline='', encoding='utf-8') as csv_file:"),
    (CONT, "        with open(path, newline='') as csv_file:", "        with open(path, newline='', encoding='utf-8') as csv_file:")]))
VARIANTS.append(dict(prop="C05", id="n-samples-rebound", kind="M", rule="", file=CONT,
                     old="        job = _compute_best_alignment_job\n", new="        n_samples = max(n_samples, 10)\n        job = _compute_best_alignment_job\n",
                     note="not a defect by itself: must be reported as ANALYSIS-ERROR (exit 2), never silently accepted", expect_code=2))
VARIANTS[:] = [v for v in VARIANTS if v is not None]

# interference / closedness mutants
M("C06", "module-level-cache-in-worker", DIS,
  "dissimilarity_dec = nb.njit(nb.float32(nb.float32[:], nb.float32[:]))\n",
  "dissimilarity_dec = nb.njit(nb.float32(nb.float32[:], nb.float32[:]))\n_ARRAY_CACHE = {}\n", "R-C06-4") if False else None
VARIANTS.append(dict(prop="C06", id="module-level-cache-in-worker", kind="M", rule="R-C06-4", edits=[
    (DIS, "dissimilarity_dec = nb.njit(nb.float32(nb.float32[:], nb.float32[:]))\n", "dissimilarity_dec = nb.njit(nb.float32(nb.float32[:], nb.float32[:]))\n_ARRAY_CACHE = {}\n"),
    (DIS, "        units_array = self._build_arrays_continuum(continuum)\n        res =", "        units_array = self._build_arrays_continuum(continuum)\n        _ARRAY_CACHE[len(_ARRAY_CACHE)] = units_array\n        res =")],
    note="jobs append to a module-level dict: shared state written from worker threads"))
M("C06", "tie-break-by-object-id", ALI,
  "        leftmost_first = sorted(self.unitary_alignments, key=lambda unit_align: unit_align.bounds[1])",
  "        leftmost_first = sorted(self.unitary_alignments, key=lambda unit_align: (unit_align.bounds[1], id(unit_align)))", "R-C06-6",
  "ties broken by object address: differs between runs")
M("C13", "add-replaces-equal-segment-unit", CONT,
  "        self._annotations[annotator].add(Unit(segment, annotation))\n        self.bound_inf",
  "        for old in [u for u in self._annotations[annotator] if u.segment == segment]:\n            self._annotations[annotator].discard(old)\n        self._annotations[annotator].add(Unit(segment, annotation))\n        self.bound_inf", "R-C13-3",
  "adding a unit silently removes the units sharing its segment (labels differ): not what a set-per-annotator model predicts")
M("C13", "add-annotator-resets-categories", CONT,
  "        if annotator not in self._annotations:\n            self._annotations[annotator] = SortedSet()\n\n    def add(self",
  "        if annotator not in self._annotations:\n            self._annotations[annotator] = SortedSet()\n            self._categories = SortedSet(self._categories)\n\n    def add(self", "R-C13-3") if False else None
M("C17", "large-alignments-skip-check", ALI,
  "        # set partition tests for the unitary alignments\n        continuum_tuples = set()",
  "        if len(self.unitary_alignments) > 500:\n            return  # too slow\n        # set partition tests for the unitary alignments\n        continuum_tuples = set()", "R-C17-1")
M("C01", "decoder-skips-high-disorder-candidates", CONT,
  """            unitary_alignment = UnitaryAlignment(list(u_align_tuple))
            unitary_alignment.disorder = alignments_disorders[alignment_id]
            set_unitary_alignements.append(unitary_alignment)
        return Alignment(""",
  """            unitary_alignment = UnitaryAlignment(list(u_align_tuple))
            unitary_alignment.disorder = alignments_disorders[alignment_id]
            if unitary_alignment.nb_units == 1 and len(u_align_tuple) > 4:
                continue
            set_unitary_alignements.append(unitary_alignment)
        return Alignment(""", "R-C01-4", "singleton unitary alignments dropped for 5+ annotators: units missing from the partition")
VARIANTS[:] = [v for v in VARIANTS if v is not None]

# =============================================================================================
# refactored-AND-broken variants: the code is restructured the way the benign corpus (selfval/benign_patches) restructures it, and one
# slot is wrong.  They pin down that the generalised recognisers did not become permissive.
# =============================================================================================
M("C03", "rf/pair-kernel-inverted-test-with-or", DIS,
  """                    if unitary_alignment[i, 3] == -1 or unitary_alignment[j, 3] == -1:
                        res[unitary_alignment_i] += delta_empty
                    else:
                        res[unitary_alignment_i] += d_mat(unitary_alignment[i], unitary_alignment[j])""",
  """                    unit_i = unitary_alignment[i]
                    unit_j = unitary_alignment[j]
                    if unit_i[3] != -1 or unit_j[3] != -1:
                        res[unitary_alignment_i] += d_mat(unit_i, unit_j)
                    else:
                        res[unitary_alignment_i] += delta_empty""", "R-C03-1")
M("C03", "rf/pair-kernel-guard-continue-skips-empty-pairs", DIS,
  """                    if unitary_alignment[i, 3] == -1 or unitary_alignment[j, 3] == -1:
                        res[unitary_alignment_i] += delta_empty
                    else:
                        res[unitary_alignment_i] += d_mat(unitary_alignment[i], unitary_alignment[j])""",
  """                    if unitary_alignment[i, 3] == -1 and unitary_alignment[j, 3] == -1:
                        continue
                    if unitary_alignment[i, 3] == -1 or unitary_alignment[j, 3] == -1:
                        res[unitary_alignment_i] += delta_empty
                        continue
                    res[unitary_alignment_i] += d_mat(unitary_alignment[i], unitary_alignment[j])""", "R-C03-1")
M("C03", "rf/sentinel-row-hoisted-wrong-field", DIS,
  """                    alignment_array[i, annotator_i] = np.array([-1, -1, -1, -1], dtype=np.float32)""",
  """                    empty_row = np.array([-1, -1, -1, 0], dtype=np.float32)
                    alignment_array[i, annotator_i] = empty_row""", "R-C03-0")
M("C02", "rf/guard-clause-filter-halved-threshold", DIS,
  """            if disorder <= criterium:
                disorders[i_chosen] = disorder
                alignments[i_chosen] = unitary_alignment
                i_chosen += 1
                if i_chosen == chunk_size:
                    # Increasing the size of the result array if full
                    # (security, doesn't happen often since chunk size
                    # is already decently high by default)
                    add_size = chunk_size // 2
                    disorders = extend_right_disorders(disorders, add_size)
                    alignments = extend_right_alignments(alignments, add_size)
                    chunk_size += add_size""",
  """            cut = criterium / 2
            if disorder > cut:
                continue
            disorders[i_chosen] = disorder
            alignments[i_chosen] = unitary_alignment
            i_chosen += 1
            if i_chosen == chunk_size:
                add_size = chunk_size // 2
                disorders = extend_right_disorders(disorders, add_size)
                alignments = extend_right_alignments(alignments, add_size)
                chunk_size += add_size""", "R-C02-2")
M("C07", "rf/length-mode-capacity-test-one-late", DIS,
  """                if i_chosen == chunk_size:
                    # Increasing the size of the result array if full
                    # (security, doesn't happen often since chunk size
                    # is already decently high by default)
                    add_size = chunk_size // 2
                    disorders = extend_right_disorders(disorders, add_size)
                    alignments = extend_right_alignments(alignments, add_size)
                    chunk_size += add_size""",
  """                capacity = len(disorders)
                if i_chosen > capacity:
                    add_size = capacity // 2
                    disorders = extend_right_disorders(disorders, add_size)
                    alignments = extend_right_alignments(alignments, add_size)""", "R-C07-5")
M("C07", "rf/final-cut-through-local-keeps-all-empty", DIS,
  """        disorders, alignments = disorders[:i_chosen - 1], alignments[:i_chosen - 1]  # removing empty unitary alignment""",
  """        nb_kept = i_chosen
        disorders = disorders[:nb_kept]
        alignments = alignments[:nb_kept]""", "R-C07-")
M("C07", "rf/extend-copies-one-cell-short", NUM,
  """    new_array = np.empty(len(arr) + n, dtype=np.float32)
    new_array[:len(arr)] = arr""",
  """    old_size = len(arr)
    new_array = np.empty(old_size + n, dtype=np.float32)
    new_array[:old_size - 1] = arr[:old_size - 1]""", "R-C07-6")
M("C01", "rf/matrix-empty-row-slice-only", DIS,
  """                for annot_b in range(nb_annot_b + 1):
                    matrix[nb_annot_a, annot_b] = delta_empty
                for annot_a in range(nb_annot_a + 1):
                    matrix[annot_a, nb_annot_b] = delta_empty""",
  """                matrix[nb_annot_a, :] = delta_empty""", "R-C01-")
M("C01", "rf/build-A-range-loop-null-test-off-by-one", NUM,
  """    for p_id, unit_ids_tuple in enumerate(possible_unitary_alignments):
        annotator_units_start = 0
        for annotator_id, unit_id in enumerate(unit_ids_tuple):
            if unit_id != sizes[annotator_id]:  # Non-null unit
                A[annotator_units_start + unit_id, p_id] = 1
            annotator_units_start += sizes[annotator_id]""",
  """    for p_id in range(n):
        unit_ids_tuple = possible_unitary_alignments[p_id]
        annotator_units_start = 0
        for annotator_id, unit_id in enumerate(unit_ids_tuple):
            nb_annotator_units = sizes[annotator_id]
            if unit_id < nb_annotator_units - 1:  # Non-null unit
                A[annotator_units_start + unit_id, p_id] = 1
            annotator_units_start += nb_annotator_units""", "R-C01-2")
M("C07", "rf/odometer-while-form-stops-one-digit-early", NUM,
  """        for i in range(nb_annotators):
            current[i] += 1
            if current[i] < sizes[i]:
                break
            current[i] = 0
        else:
            return""",
  """        position = 0
        while position < nb_annotators - 1:
            current[position] += 1
            if current[position] < sizes[position]:
                break
            current[position] = 0
            position += 1
        if position == nb_annotators - 1:
            return""", "R-C07-8")
M("C01", "rf/decode-zip-null-slot-takes-first-unit", CONT,
  """        for alignment_id, alignment in enumerate(chosen_alignments):
            u_align_tuple = []
            for annotator_id, unit_id in enumerate(alignment):
                annotator, units = self._annotations.peekitem(annotator_id)
                try:
                    unit = units[unit_id]
                    u_align_tuple.append((annotator, unit))
                except IndexError:  # it's a "null unit"
                    u_align_tuple.append((annotator, None))
            unitary_alignment = UnitaryAlignment(list(u_align_tuple))
            unitary_alignment.disorder = alignments_disorders[alignment_id]
            set_unitary_alignements.append(unitary_alignment)
        return Alignment(""",
  """        for alignment, disorder in zip(chosen_alignments, alignments_disorders):
            u_align_tuple = []
            for annotator_id, unit_id in enumerate(alignment):
                annotator, units = self._annotations.peekitem(annotator_id)
                if unit_id > len(units):
                    unit = None
                else:
                    unit = units[unit_id]
                u_align_tuple.append((annotator, unit))
            unitary_alignment = UnitaryAlignment(list(u_align_tuple))
            unitary_alignment.disorder = disorder
            set_unitary_alignements.append(unitary_alignment)
        return Alignment(""", "R-C01-4")
M("C03", "rf/decode-zip-disorder-of-other-array", CONT,
  """        for alignment_id, alignment in enumerate(chosen_alignments):
            u_align_tuple = []
            for annotator_id, unit_id in enumerate(alignment):
                annotator, units = self._annotations.peekitem(annotator_id)
                try:
                    unit = units[unit_id]
                    u_align_tuple.append((annotator, unit))
                except IndexError:  # it's a "null unit"
                    u_align_tuple.append((annotator, None))
            unitary_alignment = UnitaryAlignment(list(u_align_tuple))
            unitary_alignment.disorder = alignments_disorders[alignment_id]
            set_unitary_alignements.append(unitary_alignment)
        return Alignment(""",
  """        for alignment, disorder in zip(chosen_alignments, disorders):
            u_align_tuple = []
            for annotator_id, unit_id in enumerate(alignment):
                annotator, units = self._annotations.peekitem(annotator_id)
                try:
                    unit = units[unit_id]
                    u_align_tuple.append((annotator, unit))
                except IndexError:  # it's a "null unit"
                    u_align_tuple.append((annotator, None))
            unitary_alignment = UnitaryAlignment(list(u_align_tuple))
            unitary_alignment.disorder = disorder
            set_unitary_alignements.append(unitary_alignment)
        return Alignment(""", "R-C03-4")
M("C13", "rf/reset-bounds-named-generator-last-of-set", CONT,
  """        self.bound_sup = max((unit.segment.end for annotations in self._annotations.values() for unit in annotations),
                             default=0.0)""",
  """        all_units = self._annotations.values()
        last_ends = (annotations[-1].segment.end for annotations in all_units if annotations)
        self.bound_sup = max(last_ends, default=0.0)""", "R-C13-7")
M("C13", "rf/add-annotator-early-return-inverted", CONT,
  """        if annotator not in self._annotations:
            self._annotations[annotator] = SortedSet()

    def add(self""",
  """        if annotator not in self._annotations:
            return
        self._annotations[annotator] = SortedSet()

    def add(self""", "R-C13-3")
M("C13", "rf/copy-via-copy-flush-forgets-categories", CONT,
  """        continuum = Continuum(self.uri)
        continuum._annotations = deepcopy(self._annotations)
        continuum._categories = SortedSet(self._categories)
        continuum.bound_inf, continuum.bound_sup = self.bound_inf, self.bound_sup
        continuum.best_window_size = self.best_window_size
        return continuum""",
  """        continuum = self.copy_flush()
        continuum._annotations = deepcopy(self._annotations)
        return continuum""", "R-C13-4")
M("C13", "rf/eq-merged-or-drops-unit-comparison", CONT,
  """            if my_annotator != other_annotator:
                return False
            elif my_unit != other_unit:
                return False""",
  """            if my_annotator != other_annotator or my_unit.segment != other_unit.segment:
                return False""", "R-C13-6")
M("C18", "rf/handler-raise-first-polarity-inverted", CONT,
  """                except ValueError as e:
                    if discard_invalid_rows:
                        print(f"Discarded invalid segment : {str(e)}")
                    else:
                        raise e""",
  """                except ValueError as err:
                    if discard_invalid_rows:
                        raise err
                    print("Discarded invalid segment : {}".format(str(err)))""", "R-C18-3")
M("C18", "rf/single-add-call-label-choice-swapped", CONT,
  """                if use_tier_as_annotation:
                    self.add(annotator, Segment(start, end), tier_name)
                else:
                    self.add(annotator, Segment(start, end), value)""",
  """                annotation = value if use_tier_as_annotation else tier_name
                self.add(annotator, Segment(start, end), annotation)""", "R-C18-4")
M("C18", "rf/writer-row-local-swaps-start-end", CONT,
  """                writer.writerow([annotator, unit.annotation,
                                 unit.segment.start, unit.segment.end])""",
  """                segment = unit.segment
                row = [annotator, unit.annotation, segment.end, segment.start]
                writer.writerow(row)""", "R-C18-1")
M("C19", "rf/false-pos-half-duration-not-absolute", CST,
  """                duration = abs(np.random.normal(avg_dur, var_dur))
                continuum.add(annotator,
                              Segment(center - duration / 2, center + duration / 2),
                              annotation=category)""",
  """                half_duration = np.random.normal(avg_dur, var_dur) / 2
                continuum.add(annotator,
                              Segment(center - half_duration, center + half_duration),
                              annotation=category)""", "R-C19-2")
M("C19", "rf/shuffle-table-runs-split-unconditionally", CST,
  """        if shift:
            self.shift_shuffle(continuum)
        if false_pos:
            self.false_pos_shuffle(continuum)
        if false_neg:
            self.false_neg_shuffle(continuum)
        if cat_shuffle:
            self.category_shuffle(continuum)
        if split:
            self.splits_shuffle(continuum)""",
  """        shuffles = ((shift, self.shift_shuffle),
                    (false_pos, self.false_pos_shuffle),
                    (false_neg, self.false_neg_shuffle),
                    (cat_shuffle, self.category_shuffle),
                    (True, self.splits_shuffle))
        for enabled, shuffle in shuffles:
            if enabled:
                shuffle(continuum)""", "R-C19-4")
M("C17", "rf/alignment-pairs-comprehension-keeps-empty-slots", ALI,
  """        alignment_tuples = list()
        for unitary_alignment in self.unitary_alignments:
            for (annotator, unit) in unitary_alignment.n_tuple:
                if unit is None:
                    continue
                alignment_tuples.append((annotator, unit))""",
  """        alignment_tuples = [(annotator, unit)
                            for unitary_alignment in self.unitary_alignments
                            for (annotator, unit) in unitary_alignment.n_tuple]""", "R-C17-1")
M("C12", "rf/pair-loops-local-tuple-includes-self-pairs", ALI,
  """            for i, (_, unit1) in enumerate(unitary_alignment.n_tuple):
                for _, unit2 in unitary_alignment.n_tuple[i + 1:]:""",
  """            n_tuple = unitary_alignment.n_tuple
            for i, (_, unit1) in enumerate(n_tuple):
                for _, unit2 in n_tuple[i:]:""", "R-C12-1")
M("C10", "rf/window-keyword-args-constant-size", CONT,
  """            window, x_limit = copy.get_first_window(dissimilarity, window_size)""",
  """            window, x_limit = copy.get_first_window(dissimilarity, w=1)""", "R-C10-2")
M("C10", "rf/right-bound-helper-sorts-by-left-end", ALI,
  """        leftmost_first = sorted(self.unitary_alignments, key=lambda unit_align: unit_align.bounds[1])""",
  """        leftmost_first = sorted(self.unitary_alignments, key=self._left_bound)""", "R-C10-1",
  note="helper added by the second edit")
VARIANTS[-1]["edits"] = [(ALI, VARIANTS[-1].pop("old"), VARIANTS[-1].pop("new")),
                         (ALI, "    def take_until_limit(self, x_limit):", "    @staticmethod\n    def _left_bound(unitary_alignment):\n        return unitary_alignment.bounds[0]\n\n    def take_until_limit(self, x_limit):")]
VARIANTS[-1].pop("file")
M("C09", "rf/reach-threshold-local-squares-delta", CONT,
  """                if dissimilarity.d(rightmost_unit, unit) > dissimilarity.delta_empty * self.num_annotators:""",
  """                max_reach = dissimilarity.delta_empty * dissimilarity.delta_empty * self.num_annotators
                if dissimilarity.d(rightmost_unit, unit) > max_reach:""", "R-C09-2")
M("C03", "rf/nb-units-generator-tests-annotator-not-unit", ALI,
  "        return sum(1 for _ in filter((lambda annot_unit: annot_unit[1] is not None), self._n_tuple))",
  "        return sum(1 for annot_unit in self._n_tuple if annot_unit[0] is not None)", "R-SUP")
M("C04", "rf/lambda-matrix-chained-store-not-mirrored", DIS,
  """                matrix[i, j] = dist_cat
                matrix[j, i] = dist_cat""",
  """                matrix[i, j] = matrix[j, j] = dist_cat""", "R-C04-3")
M("C06", "rf/batched-chance-disorders-by-core-count", CONT,
  """            expected_disorder = float(np.mean(np.array([job_res.result() for job_res in chance_disorders_jobs])))
        if expected_disorder == 0:
            return 0
        return 1 - observed_disorder / expected_disorder

    def gamma_k""",
  """            n_batches = os.cpu_count() or 1
            values = [job_res.result() for job_res in chance_disorders_jobs]
            partial = [np.float32(sum(values[b::n_batches])) for b in range(n_batches)]
            expected_disorder = float(sum(partial) / len(values))
        if expected_disorder == 0:
            return 0
        return 1 - observed_disorder / expected_disorder

    def gamma_k""", "R-C06-8")
M("C16", "rf/shift-helper-wraps-on-end-instead-of-start", SAM,
  """                    if unit.segment.start + pivot > bound_sup:
                        new_continuum.add(new_annotator,
                                          Segment(unit.segment.start + pivot + bound_inf - bound_sup,
                                                  unit.segment.end + pivot + bound_inf - bound_sup),
                                          unit.annotation)
                    else:
                        new_continuum.add(new_annotator,
                                          Segment(unit.segment.start + pivot,
                                                  unit.segment.end + pivot),
                                          unit.annotation)""",
  """                    segment = unit.segment
                    if segment.end + pivot > bound_sup:
                        shifted = Segment(segment.start + pivot + bound_inf - bound_sup,
                                          segment.end + pivot + bound_inf - bound_sup)
                    else:
                        shifted = Segment(segment.start + pivot, segment.end + pivot)
                    new_continuum.add(new_annotator, shifted, unit.annotation)""", "R-C16-2")
M("C16", "rf/pivot-value-drawn-once-int-mode-not-truncated", SAM,
  """        if self._pivot_type == 'int_pivot':
            return int(np.random.uniform(segment.start, segment.end))
        else:
            return np.random.uniform(segment.start, segment.end)""",
  """        value = np.random.uniform(segment.start, segment.end)
        return value if self._pivot_type == 'int_pivot' else int(value)""", "R-C16-3")

# ---- second set: broken twins of the deeper restructurings (benign corpus D / E / F)
M("C03", "rf/zip-row-view-field-0-holds-end", DIS,
  """            for unit_id, unit in enumerate(units):
                unit_array[unit_id][0] = unit.segment.start
                unit_array[unit_id][1] = unit.segment.end
                unit_array[unit_id][2] = unit.segment.duration
                unit_array[unit_id][3] = self._category_index(categories, unit.annotation)""",
  """            for unit_row, unit in zip(unit_array, units):
                segment = unit.segment
                unit_row[0] = segment.end
                unit_row[1] = segment.end
                unit_row[2] = segment.duration
                unit_row[3] = self._category_index(categories, unit.annotation)""", "R-C03-0")
M("C01", "rf/zip-row-view-rows-misaligned-with-units", DIS,
  """            for unit_id, unit in enumerate(units):
                unit_array[unit_id][0] = unit.segment.start
                unit_array[unit_id][1] = unit.segment.end
                unit_array[unit_id][2] = unit.segment.duration
                unit_array[unit_id][3] = self._category_index(categories, unit.annotation)""",
  """            for unit_id, unit in enumerate(units):
                unit_row = unit_array[len(units) - 1 - unit_id]
                unit_row[0] = unit.segment.start
                unit_row[1] = unit.segment.end
                unit_row[2] = unit.segment.duration
                unit_row[3] = self._category_index(categories, unit.annotation)""", "R-C01-3")
M("C03", "rf/local-accumulator-never-reset", DIS,
  """        res = np.zeros(nb_alignments, dtype=np.float32)
        c2n = nb_annotators * (nb_annotators - 1) // 2
        for unitary_alignment_i in range(nb_alignments):
            unitary_alignment = alignment_array[unitary_alignment_i]
            for i in range(nb_annotators):
                for j in range(i):
                    if unitary_alignment[i, 3] == -1 or unitary_alignment[j, 3] == -1:
                        res[unitary_alignment_i] += delta_empty
                    else:
                        res[unitary_alignment_i] += d_mat(unitary_alignment[i], unitary_alignment[j])""",
  """        res = np.zeros(nb_alignments, dtype=np.float32)
        c2n = nb_annotators * (nb_annotators - 1) // 2
        pairs_total = np.float32(0.0)
        for unitary_alignment_i in range(nb_alignments):
            unitary_alignment = alignment_array[unitary_alignment_i]
            for i in range(nb_annotators):
                for j in range(i):
                    if unitary_alignment[i, 3] == -1 or unitary_alignment[j, 3] == -1:
                        pairs_total += delta_empty
                    else:
                        pairs_total += d_mat(unitary_alignment[i], unitary_alignment[j])
            res[unitary_alignment_i] = pairs_total""", "R-C03-1")
M("C07", "rf/growth-guard-clause-inverted", DIS,
  """                if i_chosen == chunk_size:
                    # Increasing the size of the result array if full
                    # (security, doesn't happen often since chunk size
                    # is already decently high by default)
                    add_size = chunk_size // 2
                    disorders = extend_right_disorders(disorders, add_size)
                    alignments = extend_right_alignments(alignments, add_size)
                    chunk_size += add_size""",
  """                if i_chosen == chunk_size:
                    continue
                add_size = chunk_size // 2
                disorders = extend_right_disorders(disorders, add_size)
                alignments = extend_right_alignments(alignments, add_size)
                chunk_size += add_size""", "R-C07-5")
M("C07", "rf/renamed-cut-results-of-different-length", DIS,
  """        disorders, alignments = disorders[:i_chosen - 1], alignments[:i_chosen - 1]  # removing empty unitary alignment
        disorders /= c2n
        return disorders, alignments""",
  """        nb_kept = i_chosen - 1
        kept_disorders = disorders[:nb_kept]
        kept_alignments = alignments[:i_chosen]
        kept_disorders /= c2n
        return kept_disorders, kept_alignments""", "R-C07-")
M("C01", "rf/sizes-enumerate-without-the-empty-index", DIS,
  """        for annotator_id in range(nb_annotators):
            sizes[annotator_id] = len(unit_arrays[annotator_id])
            sizes_with_null[annotator_id] = len(unit_arrays[annotator_id]) + 1""",
  """        for annotator_id, annotator_units in enumerate(unit_arrays):
            nb_annotator_units = len(annotator_units)
            sizes[annotator_id] = nb_annotator_units
            sizes_with_null[annotator_id] = nb_annotator_units""", "R-C01-2")
M("C05", "rf/job-dispatch-table-soft-and-fast-swapped", CONT,
  """        job = _compute_best_alignment_job
        if soft and fast:
            raise NotImplementedError("Fast-gamma and Soft-gamma are not compatible with each other.")
        if soft:
            job = _compute_soft_alignment_job
        # Multiprocessed computation of sample disorder
        if fast:
            job = _compute_fast_alignment_job
            self.measure_best_window_size(dissimilarity)""",
  """        if soft and fast:
            raise NotImplementedError("Fast-gamma and Soft-gamma are not compatible with each other.")
        jobs = {(False, False): _compute_best_alignment_job,
                (True, False): _compute_fast_alignment_job,
                (False, True): _compute_soft_alignment_job}
        job = jobs[bool(soft), bool(fast)]
        if fast:
            self.measure_best_window_size(dissimilarity)""", "R-C05-1")
M("C05", "rf/sample-jobs-helper-draws-once", CONT,
  """            result_pool = [
                # Step one : computing the disorders of a batch of random samples from the continuum (done in parallel)
                p.submit(job,
                         *(dissimilarity, sampler.sample_from_continuum))
                for _ in range(n_samples)
            ]""",
  """            sample = sampler.sample_from_continuum
            futures = []
            for _ in range(n_samples):
                futures.append(p.submit(job, dissimilarity, sample))
            result_pool = futures""", "R-C05-2")
M("C12", "rf/shared-disorders-helper-none-marker-on-wrong-branch", CONT,
  """            observed_disorder = observed_disorder_job.result()
            if observed_disorder == 0:
                return 1
            expected_disorder = float(np.mean(np.array([job_res.result() for job_res in chance_disorders_jobs])))

        return 1 - observed_disorder / expected_disorder""",
  """            observed_disorder = observed_disorder_job.result()
            if observed_disorder != 0:
                expected_disorder = None
            else:
                expected_disorder = float(np.mean(np.array([job_res.result() for job_res in chance_disorders_jobs])))
        if expected_disorder is None:
            return 1
        return 1 - observed_disorder / expected_disorder""", "R-C12-3")
M("C13", "rf/eq-not-any-drops-annotator-comparison", CONT,
  """        for (my_annotator, my_unit), (other_annotator, other_unit) in zip(self, other):
            if my_annotator != other_annotator:
                return False
            elif my_unit != other_unit:
                return False

        return True""",
  """        return not any(my_unit != other_unit
                       for (my_annotator, my_unit), (other_annotator, other_unit) in zip(self, other))""", "R-C13-6")
M("C18", "rf/writerows-generator-swaps-label-and-annotator", CONT,
  """            for annotator, unit in self:
                writer.writerow([annotator, unit.annotation,
                                 unit.segment.start, unit.segment.end])""",
  """            writer.writerows([unit.annotation, annotator, unit.segment.start, unit.segment.end] for annotator, unit in self)""", "R-C18-1")
M("C18", "rf/tier-filter-helper-rejects-everything-without-selection", CONT,
  """            if selected_tiers is not None and tier_name not in selected_tiers:
                continue
            for start, end, value in eaf.get_annotation_data_for_tier(tier_name):""",
  """            if not (False if selected_tiers is None else tier_name in selected_tiers):
                continue
            for start, end, value in eaf.get_annotation_data_for_tier(tier_name):""", "R-C18-4")
M("C18", "rf/keyword-add-call-label-choice-swapped", CONT,
  """                if use_tier_as_annotation:
                    self.add(annotator, Segment(start, end), tier_name)
                else:
                    self.add(annotator, Segment(start, end), value)""",
  """                self.add(annotator=annotator, segment=Segment(start, end),
                         annotation=value if use_tier_as_annotation else tier_name)""", "R-C18-4")
M("C16", "rf/shifted-segment-expression-wrap-test-on-end", SAM,
  """                    if unit.segment.start + pivot > bound_sup:
                        new_continuum.add(new_annotator,
                                          Segment(unit.segment.start + pivot + bound_inf - bound_sup,
                                                  unit.segment.end + pivot + bound_inf - bound_sup),
                                          unit.annotation)
                    else:
                        new_continuum.add(new_annotator,
                                          Segment(unit.segment.start + pivot,
                                                  unit.segment.end + pivot),
                                          unit.annotation)""",
  """                    new_continuum.add(new_annotator,
                                      Segment(unit.segment.start + pivot + bound_inf - bound_sup, unit.segment.end + pivot + bound_inf - bound_sup)
                                      if unit.segment.end + pivot > bound_sup else Segment(unit.segment.start + pivot, unit.segment.end + pivot),
                                      unit.annotation)""", "R-C16-2")
M("C10", "rf/fast-alignment-generator-removes-from-self", CONT,
  """                    if unit is not None:
                        copy.remove(annotator, unit)  # Now we remove the units from the chosen alignment.""",
  """                    if unit is not None:
                        self.remove(annotator, unit)""", "R-C1")

# =============================================================================================
# round 5: dispatched entry points, sampler initialisation, the unitary record, shared kernels
# =============================================================================================
_COMB_D = """    def d(self, unit1: 'Unit', unit2: 'Unit'):
        return (self.alpha * self.positional_dissim.d(unit1, unit2)
                + self.beta * self.categorical_dissim.d(unit1, unit2))"""
M("C02", "entry/override-delegates-to-component", DIS, _COMB_D,
  """    def valid_alignments(self, continuum):
        if self.alpha == 0:
            return self.categorical_dissim.valid_alignments(continuum)
        return super().valid_alignments(continuum)

""" + _COMB_D, "R-C02-2", "candidates costed by the component's kernel and delta_empty")
M("C03", "entry/compute-disorder-override-delegates", DIS, _COMB_D,
  """    def compute_disorder(self, alignment):
        if self.beta == 0:
            return self.positional_dissim.compute_disorder(alignment)
        return super().compute_disorder(alignment)

""" + _COMB_D, "R-C03-2")
B("C02", "entry/override-defers-to-super", DIS, _COMB_D,
  """    def valid_alignments(self, continuum):
        logging.debug("enumerating the candidates")
        return super().valid_alignments(continuum)

""" + _COMB_D, "an override that only defers to super() is the same program")
B("C03", "entry/compute-disorder-override-defers", DIS, _COMB_D,
  """    def compute_disorder(self, alignment):
        return super().compute_disorder(alignment)

""" + _COMB_D)
_STAT_INIT = """        super().init_sampling(reference_continuum, ground_truth_annotators)
        self._set_gap_information()"""
M("C05", "sampler-init/early-return-same-reference", SAM, _STAT_INIT,
  """        if reference_continuum is self._reference_continuum:
            return
""" + _STAT_INIT, "R-C05-2", "the ground truth of the second call is dropped")
M("C15", "sampler-init/estimators-skipped-when-measured", SAM, _STAT_INIT,
  """        super().init_sampling(reference_continuum, ground_truth_annotators)
        if self._avg_gap is not None:
            return
        self._set_gap_information()""", "R-C15-3", "a sampler initialised twice keeps the first reference's statistics")
M("C05", "sampler-init/base-skips-ground-truth", SAM,
  """        self._reference_continuum = reference_continuum
        if ground_truth_annotators is None:""",
  """        self._reference_continuum = reference_continuum
        if self._ground_truth_annotators is not None:
            return
        if ground_truth_annotators is None:""", "R-C05-2")
B("C05", "sampler-init/log-before-super", SAM, _STAT_INIT,
  """        logging.debug("measuring the reference")
""" + _STAT_INIT)
B("C05", "sampler-init/keyword-ground-truth", SAM, _STAT_INIT,
  """        super().init_sampling(reference_continuum, ground_truth_annotators=ground_truth_annotators)
        self._set_gap_information()""")
_UA_INIT = """        self._n_tuple: UnitsTuple = n_tuple
        self._disorder: Optional[float] = None"""
M("C17", "ua-record/through-sorted-dict", ALI, _UA_INIT,
  """        self._n_tuple: UnitsTuple = list(SortedDict(n_tuple).items())
        self._disorder: Optional[float] = None""", "R-C17-1", "a repeated annotator collapses to one slot before check() sees it")
M("C01", "ua-record/through-dict", ALI, _UA_INIT,
  """        self._n_tuple: UnitsTuple = list(dict(n_tuple).items())
        self._disorder: Optional[float] = None""", "R-C01-4")
B("C17", "ua-record/list-copy", ALI, _UA_INIT,
  """        self._n_tuple: UnitsTuple = list(n_tuple)
        self._disorder: Optional[float] = None""")
_NB = """        return sum(1 for _ in filter((lambda annot_unit: annot_unit[1] is not None), self._n_tuple))"""
M2("C12", "ua-record/nb-units-cached-not-refreshed",
   [(ALI, _UA_INIT, _UA_INIT + """
        self._nb_units: int = sum(1 for _, unit in n_tuple if unit is not None)"""),
    (ALI, _NB, "        return self._nb_units")], "R-C12-1", "stale after the n_tuple setter")
B2("C12", "ua-record/nb-units-cached-and-refreshed",
   [(ALI, _UA_INIT, _UA_INIT + """
        self._nb_units: int = sum(1 for _, unit in n_tuple if unit is not None)"""),
    (ALI, """        self._n_tuple = n_tuple
        self._disorder = None""", """        self._n_tuple = n_tuple
        self._nb_units = sum(1 for _, unit in n_tuple if unit is not None)
        self._disorder = None"""),
    (ALI, _NB, "        return self._nb_units")], "every writer of the tuple refreshes the count")
M2("C12", "ua-record/nb-units-refreshed-with-length",
   [(ALI, _UA_INIT, _UA_INIT + """
        self._nb_units: int = sum(1 for _, unit in n_tuple if unit is not None)"""),
    (ALI, """        self._n_tuple = n_tuple
        self._disorder = None""", """        self._n_tuple = n_tuple
        self._nb_units = sum(1 for _ in n_tuple if _ is not None)
        self._disorder = None"""),
    (ALI, _NB, "        return self._nb_units")], "R-C12-1", "the refreshed count includes the empty slots")
_ABS = """    def compile_d_mat(self):
        delta_empty = self.delta_empty

        @dissimilarity_dec
        def d_mat(unit1: np.ndarray, unit2: np.ndarray) -> float:
            return (0 if unit1[3] == unit2[3] else 1) * delta_empty
        return d_mat"""
M("C09", "shared-kernel/class-level-memo", DIS, _ABS,
  """    _shared = None

    def compile_d_mat(self):
        if AbsoluteCategoricalDissimilarity._shared is None:
            delta_empty = self.delta_empty

            @dissimilarity_dec
            def d_mat(unit1: np.ndarray, unit2: np.ndarray) -> float:
                return (0 if unit1[3] == unit2[3] else 1) * delta_empty
            AbsoluteCategoricalDissimilarity._shared = d_mat
        return AbsoluteCategoricalDissimilarity._shared""", "R-C09-2", "the first instance's delta_empty serves every later instance")
M("C04", "shared-kernel/type-self-memo", DIS, _ABS,
  """    _shared = None

    def compile_d_mat(self):
        if type(self)._shared is None:
            delta_empty = self.delta_empty

            @dissimilarity_dec
            def d_mat(unit1: np.ndarray, unit2: np.ndarray) -> float:
                return (0 if unit1[3] == unit2[3] else 1) * delta_empty
            type(self)._shared = d_mat
        return type(self)._shared""", "R-C04-1")
M("C04", "derived-table/wrapped-prescaled", DIS,
  """        self._matrix = matrix
        super().__init__(categories, delta_empty)

    def compile_d_mat(self):
        matrix = self._matrix
        delta_empty = self.delta_empty

        @dissimilarity_dec
        def d_mat(unit1: np.ndarray, unit2: np.ndarray) -> float:
            return matrix[np.int32(unit1[3]), np.int32(unit2[3])] * delta_empty""",
  """        self._matrix = matrix
        self._weighted = np.ascontiguousarray(matrix * np.float32(delta_empty), dtype=np.float32)
        super().__init__(categories, delta_empty)

    def compile_d_mat(self):
        matrix = self._weighted

        @dissimilarity_dec
        def d_mat(unit1: np.ndarray, unit2: np.ndarray) -> float:
            return matrix[np.int32(unit1[3]), np.int32(unit2[3])]""", "R-C04-1", "scaled once at construction; the delta_empty setter no longer reaches the kernel")
_GLPK_SOFT = """            logging.warning("CBC solver not installed. Using GLPK.")
            cp.Problem(cp.Minimize(disorders.T @ x), [A @ x >= 1]).solve(solver=cp.GLPK_MI)"""
_GLPK_HELPER = '''

def _solve_with_glpk(objective, occurrences, at_least=1, at_most=1):
    logging.warning("CBC solver not installed. Using GLPK.")
    constraints = []
    if at_least is not None:
        constraints.append(at_least <= occurrences)
    if at_most is not None:
        constraints.append(occurrences <= at_most)
    cp.Problem(objective, constraints).solve(solver=cp.GLPK_MI)


def _compute_best_alignment_job(dissimilarity: AbstractDissimilarity,'''
M2("C11", "flag-helper/soft-fallback-default-at-most", [
    (CONT, _GLPK_SOFT, "            _solve_with_glpk(cp.Minimize(disorders.T @ x), A @ x, 1)"),
    (CONT, "\n\ndef _compute_best_alignment_job(dissimilarity: AbstractDissimilarity,", _GLPK_HELPER)], "R-C11-1",
   "the helper's default at_most=1 turns the soft fallback into a partition")
B2("C11", "flag-helper/soft-fallback-no-upper-bound", [
    (CONT, _GLPK_SOFT, "            _solve_with_glpk(cp.Minimize(disorders.T @ x), A @ x, 1, None)"),
    (CONT, "\n\ndef _compute_best_alignment_job(dissimilarity: AbstractDissimilarity,", _GLPK_HELPER)],
   "literal None folds the upper-bound branch away")

# =============================================================================================
# from the mutation sweep (first-order mutants no owner reported)
# =============================================================================================
M("C01", "sweep/unlabelled-refused-without-table", DIS,
  """            if self.categories is not None:
                raise ValueError("Units without annotation cannot be used with a dissimilarity \"""",
  """            if self.categories is None:
                raise ValueError("Units without annotation cannot be used with a dissimilarity \"""", "R-C01-6",
  "the default dissimilarities refuse unlabelled units")
M("C02", "sweep/pair-matrix-store-past-last-column", DIS,
  """                for annot_b in range(nb_annot_b + 1):
                    matrix[nb_annot_a, annot_b] = delta_empty""",
  """                for annot_b in range(nb_annot_b + 2):
                    matrix[nb_annot_a, annot_b] = delta_empty""", "R-C02-4", "a store one past the last row's end: heap corruption in compiled code")
M("C07", "sweep/pair-matrix-store-past-last-row", DIS,
  """                for annot_a in range(nb_annot_a + 1):
                    matrix[annot_a, nb_annot_b] = delta_empty""",
  """                for annot_a in range(nb_annot_a + 2):
                    matrix[annot_a, nb_annot_b] = delta_empty""", "R-C07-", "")
M("C04", "sweep/label-index-in-the-continuum-categories", DIS,
  "        categories = continuum.categories if self.categories is None else self.categories",
  "        categories = continuum.categories", "R-C04-0", "a continuum using a strict subset of the table's categories is looked up at shifted cells")
M("C03", "sweep/label-index-in-the-alignment-categories", DIS,
  "        categories = alignment.categories if self.categories is None else self.categories",
  "        categories = alignment.categories", "R-C03-0")
B("C04", "sweep/index-space-if-statement", DIS,
  "        categories = continuum.categories if self.categories is None else self.categories",
  """        categories = self.categories
        if categories is None:
            categories = continuum.categories""", "same index space, other spelling")
M("C05", "sweep/ground-truth-ignored", SAM,
  """            self._ground_truth_annotators = SortedSet(ground_truth_annotators)""",
  """            self._ground_truth_annotators = self._reference_continuum.annotators""", "R-C05-2", "the given ground-truth annotators are checked and dropped")
M("C16", "sweep/separated-draw-when-no-room", SAM,
  "                if len(segments_available) != 0:", "                if len(segments_available) == 0:", "R-C16-3")
B("C16", "sweep/room-test-truthiness", SAM,
  "                if len(segments_available) != 0:", "                if segments_available:", "")
B("C16", "sweep/room-test-swapped-branches", SAM,
  """                if len(segments_available) != 0:
                    pivot: float = self._random_from_segments(segments_available)
                    segments_available = self._remove_pivot_segment(pivot, segments_available, min_dist_between_pivots)
                else:
                    pivot = np.random.uniform(bound_inf, bound_sup)""",
  """                if not segments_available:
                    pivot = np.random.uniform(bound_inf, bound_sup)
                else:
                    pivot: float = self._random_from_segments(segments_available)
                    segments_available = self._remove_pivot_segment(pivot, segments_available, min_dist_between_pivots)""", "")
M("C03", "sweep/n-tuple-setter-keeps-cached-disorder", ALI,
  """        self._n_tuple = n_tuple
        self._disorder = None""", """        self._n_tuple = n_tuple""", "R-SUP", "stale disorder after the tuple is replaced")
M("C17", "sweep/n-tuple-setter-stores-nothing", ALI,
  """        self._n_tuple = n_tuple
        self._disorder = None""", """        self._disorder = None""", "R-C17-1")

# =============================================================================================
# round 6
# =============================================================================================
M("C13", "r6/unit-set-key-conflates-none-and-empty", CONT,
  """        if annotator not in self._annotations:
            self._annotations[annotator] = SortedSet()
        if annotation is not None:""",
  """        if annotator not in self._annotations:
            self._annotations[annotator] = SortedSet(key=lambda u: (u.segment.start, u.segment.end, u.annotation or ""))
        if annotation is not None:""", "R-C13-1", "the container's order no longer comes from Unit.__lt__")
B("C13", "r6/sorted-set-with-key-none", CONT,
  """        if annotator not in self._annotations:
            self._annotations[annotator] = SortedSet()
        if annotation is not None:""",
  """        if annotator not in self._annotations:
            self._annotations[annotator] = SortedSet(key=None)
        if annotation is not None:""", "key=None is the default order")
M("C06", "r6/sampler-keeps-snapshot-of-reference", SAM,
  "        self._reference_continuum = reference_continuum\n",
  "        self._reference_continuum = reference_continuum.copy()\n", "R-C06-7", "samples carry the window size of the previous call")
M("C19", "r6/annotator-name-stripped", CONT,
  """        if segment.duration == 0.0:
            raise ValueError("Tried adding segment of duration 0.0")
""", """        if segment.duration == 0.0:
            raise ValueError("Tried adding segment of duration 0.0")
        annotator = annotator.strip()
""", "R-C19-1", "a requested annotator name with a trailing blank is not among the corpus' annotators")
M("C18", "r6/annotator-name-lowered", CONT,
  """        if segment.duration == 0.0:
            raise ValueError("Tried adding segment of duration 0.0")
""", """        if segment.duration == 0.0:
            raise ValueError("Tried adding segment of duration 0.0")
        annotator = str(annotator).lower()
""", "R-C18-3")
M("C01", "r6/alignment-drops-single-unit-alignments", ALI,
  "        self.unitary_alignments = list(unitary_alignments)",
  "        self.unitary_alignments = [ua for ua in unitary_alignments if ua.nb_units > 1]", "R-C01-4", "units aligned with nothing disappear from the result")
B("C01", "r6/alignment-keeps-tuple", ALI,
  "        self.unitary_alignments = list(unitary_alignments)",
  "        self.unitary_alignments = list(tuple(unitary_alignments))", "")

# refactored-and-broken twins of the shapes learnt from the supporting-code refactorings (batches J, K)
M("C10", "rf/take-until-limit-head-under-limit-test", ALI,
  """        for i, unitary_alignment in enumerate(leftmost_first):
            # the leftmost unitary alignment is always taken, so that the fast alignment progresses
            if i > 0 and unitary_alignment.bounds[1] > x_limit:
                break
            yield unitary_alignment""",
  """        if not leftmost_first:
            return
        if leftmost_first[0].bounds[1] <= x_limit:
            yield leftmost_first[0]
        for unitary_alignment in leftmost_first[1:]:
            if unitary_alignment.bounds[1] > x_limit:
                break
            yield unitary_alignment""", "R-C10-1", "head-first shape, but the head is yielded only under the limit: may yield nothing")
M("C13", "rf/guarded-bound-update-wrong-direction", CONT,
  """        self.bound_inf = min(self.bound_inf, segment.start)
        self.bound_sup = max(self.bound_sup, segment.end)""",
  """        if segment.start > self.bound_inf:
            self.bound_inf = segment.start
        if segment.end > self.bound_sup:
            self.bound_sup = segment.end""", "R-C13-3", "the lower bound moves up")
B("C13", "rf/guarded-bound-update", CONT,
  """        self.bound_inf = min(self.bound_inf, segment.start)
        self.bound_sup = max(self.bound_sup, segment.end)""",
  """        if segment.start < self.bound_inf:
            self.bound_inf = segment.start
        if self.bound_sup < segment.end:
            self.bound_sup = segment.end""", "")
M("C13", "rf/bool-search-loop-wrong-polarity", CONT,
  "        return not all(len(annotations) == 0 for annotations in self._annotations.values())",
  """        for annotations in self._annotations.values():
            if len(annotations) == 0:
                return True
        return False""", "R-SUP", "true iff some annotator has no unit")
M("C15", "rf/gap-across-annotators-swapped-branches", SAM,
  """            if annotator != current_annotator:
                current_annotator = annotator
            else:
                gaps.append(unit.segment.start - last_unit.segment.end)""",
  """            if annotator == current_annotator:
                current_annotator = annotator
            else:
                gaps.append(unit.segment.start - last_unit.segment.end)""", "R-C15-3", "gaps measured across annotators only")
M("C17", "rf/soft-ctor-keywords-flag-dropped", ALI,
  "        super().__init__(unitary_alignments, continuum, check_validity, disorder)",
  "        super().__init__(unitary_alignments, continuum=continuum, check_validity=False, disorder=disorder)", "R-C17-4")
M("C05", "rf/num-units-map-of-wrong-function", CONT,
  "        return sum(len(units) for units in self._annotations.values())",
  "        return sum(map(bool, self._annotations.values()))", "R-SUP", "counts the annotators that have units")

# =============================================================================================
# round 7
# =============================================================================================
M("C04", "r7/unlabelled-index-is-the-empty-marker", DIS,
  "            return len(categories)\n", "            return -1\n", "R-C04-0", "an unlabelled real unit is taken for the empty unit by the pair kernel")
M("C08", "r7/glpk-solve-with-mip-gap", CONT,
  "            cp.Problem(cp.Minimize(disorders.T @ x), [1 <= matmul, matmul <= 1]).solve(solver=cp.GLPK_MI)",
  "            cp.Problem(cp.Minimize(disorders.T @ x), [1 <= matmul, matmul <= 1]).solve(solver=cp.GLPK_MI, mip_gap=0.02)", "R-C08-3",
  "the fallback stops within 2% of the bound")
M("C02", "r7/module-level-glpk-time-limit", CONT,
  "CHUNK_SIZE = (10**6) // os.cpu_count()",
  """CHUNK_SIZE = (10**6) // os.cpu_count()
try:
    from cvxopt import glpk as _glpk
    _glpk.options["tm_lim"] = 10000
except ImportError:
    pass""", "R-C02-1", "process-wide option table of the fallback back-end")
B("C08", "r7/solve-verbose-false", CONT,
  "            cp.Problem(cp.Minimize(disorders.T @ x), [1 <= matmul, matmul <= 1]).solve(solver=cp.GLPK_MI)",
  "            cp.Problem(cp.Minimize(disorders.T @ x), [1 <= matmul, matmul <= 1]).solve(solver=cp.GLPK_MI, verbose=False)", "verbosity only")
M("C18", "r7/add-registers-annotator-before-guard", CONT,
  """        if segment.duration == 0.0:
            raise ValueError("Tried adding segment of duration 0.0")

        if annotator not in self._annotations:
            self._annotations[annotator] = SortedSet()""",
  """        self.add_annotator(annotator)
        if segment.duration == 0.0:
            raise ValueError("Tried adding segment of duration 0.0")
""", "R-C18-3", "a discarded csv row leaves a phantom annotator")
M("C02", "r7/override-scales-component-answer", DIS, _COMB_D,
  """    def valid_alignments(self, continuum):
        if self.beta == 0:
            disorders, alignments = self.positional_dissim.valid_alignments(continuum)
            return self.alpha * disorders, alignments
        return super().valid_alignments(continuum)

""" + _COMB_D, "R-C02-2")
M("C11", "r7/pair-cost-capped-to-infinity", DIS,
  """                        matrix[annot_a, annot_b] = d_mat(unit_arrays[annotator_a][annot_a],
                                                         unit_arrays[annotator_b][annot_b])""",
  """                        couple = d_mat(unit_arrays[annotator_a][annot_a], unit_arrays[annotator_b][annot_b])
                        if couple > 2 * (nb_annotators - 1) * delta_empty:
                            couple = np.inf
                        matrix[annot_a, annot_b] = couple""", "R-C11-4")
B("C08", "r7/module-level-glpk-quiet", CONT,
  "CHUNK_SIZE = (10**6) // os.cpu_count()",
  """CHUNK_SIZE = (10**6) // os.cpu_count()
try:
    from cvxopt import glpk as _glpk
    _glpk.options["msg_lev"] = "GLP_MSG_OFF"
except ImportError:
    pass""", "verbosity of the fallback back-end only")
B("C01", "r7/module-level-glpk-quiet-other-property", CONT,
  "CHUNK_SIZE = (10**6) // os.cpu_count()",
  """CHUNK_SIZE = (10**6) // os.cpu_count()
try:
    from cvxopt import glpk as _glpk
    _glpk.options["msg_lev"] = "GLP_MSG_OFF"
except ImportError:
    pass""", "")

# hand-written probes of the code around the analysed functions (class-level state, flushed copies, compilation options)
M2("C14", "around/categories-shared-at-class-level", [
    (CONT, """    bound_inf: float
    bound_sup: float

    def __init__(self, uri: Optional[str] = None):""", """    bound_inf: float
    bound_sup: float
    _categories: SortedSet = SortedSet()

    def __init__(self, uri: Optional[str] = None):"""),
    (CONT, "        self._categories: SortedSet = SortedSet()\n", "")], "R-C14-2", "one category set for every continuum of the process")
M2("C13", "around/categories-shared-at-class-level-c13", [
    (CONT, """    bound_inf: float
    bound_sup: float

    def __init__(self, uri: Optional[str] = None):""", """    bound_inf: float
    bound_sup: float
    _categories: SortedSet = SortedSet()

    def __init__(self, uri: Optional[str] = None):"""),
    (CONT, "        self._categories: SortedSet = SortedSet()\n", "")], "R-C13-2")
B("C14", "around/class-level-default-rebound-by-constructor", CONT, """    bound_inf: float
    bound_sup: float

    def __init__(self, uri: Optional[str] = None):""", """    bound_inf: float
    bound_sup: float
    _categories: SortedSet = SortedSet()

    def __init__(self, uri: Optional[str] = None):""", "the constructor still binds a fresh set on every path")
M("C16", "around/flushed-copy-keeps-annotators", CONT,
  """        continuum = Continuum(self.uri)
        continuum.bound_inf, continuum.bound_sup = self.bound_inf, self.bound_sup
        continuum.best_window_size = self.best_window_size
        return continuum""",
  """        continuum = Continuum(self.uri)
        for annotator in self.annotators:
            continuum.add_annotator(annotator)
        continuum.bound_inf, continuum.bound_sup = self.bound_inf, self.bound_sup
        continuum.best_window_size = self.best_window_size
        return continuum""", "R-SUP", "samples carry the reference's annotators next to the sampled ones")
B("C04", "around/kernel-compiled-with-cache", DIS,
  "dissimilarity_dec = nb.njit(nb.float32(nb.float32[:], nb.float32[:]))",
  "dissimilarity_dec = nb.njit(nb.float32(nb.float32[:], nb.float32[:]), cache=True)", "on-disk cache of the compiled kernel: same semantics")

# patch-based hand probes (selfval/hand_patches/): edits that touch several files consistently
import os as _os
_HP = _os.path.join(_os.path.dirname(_os.path.abspath(__file__)), "hand_patches")
VARIANTS.append(dict(prop="C07", id="around/unit-positions-in-8-bit-integers", kind="M", rule="R-C07-", patch=_os.path.join(_HP, "broken-index-int8.diff"),
                     note="every int16 on the path of the unit positions narrowed to int8 (signatures included): positions wrap at 128"))
VARIANTS.append(dict(prop="C01", id="around/unit-positions-in-8-bit-integers-c01", kind="M", rule="R-C01-5", patch=_os.path.join(_HP, "broken-index-int8.diff")))
for _p in ("C01", "C02", "C03", "C07", "C09", "C11"):
    VARIANTS.append(dict(prop=_p, id="around/unit-positions-in-32-bit-integers", kind="B", rule="", patch=_os.path.join(_HP, "benign-index-int32.diff"),
                         note="widening is behaviour-preserving"))
for _p in ("C04", "C09", "C12"):
    VARIANTS.append(dict(prop=_p, id="around/kernels-compiled-with-fastmath", kind="M", rule="", expect_code=2, patch=_os.path.join(_HP, "refused-fastmath.diff"),
                         note="the assumption 'Python arithmetic in compiled kernels' is given up: refused, never a silent pass"))

# =============================================================================================
# rounds 8-9
# =============================================================================================
M("C13", "r8/annotator-mapping-keyed-by-lowercase", CONT,
  "        self._annotations: SortedDict = SortedDict()", "        self._annotations: SortedDict = SortedDict(str.lower)", "R-C13-1")
M("C10", "r8/annotator-mapping-keyed-by-length", CONT,
  "        self._annotations: SortedDict = SortedDict()", "        self._annotations: SortedDict = SortedDict(key=len)", "R-SUP", "")
M("C17", "r8/unit-str-formats-optional-label", CONT,
  """        else:
            return self.segment < other.segment
""", """        else:
            return self.segment < other.segment

    def __str__(self):
        return f"{self.annotation:>8} [{self.segment.start:.3f}, {self.segment.end:.3f}]"
""", "R-C17-1")
B("C17", "r8/unit-str-plain", CONT,
  """        else:
            return self.segment < other.segment
""", """        else:
            return self.segment < other.segment

    def __str__(self):
        return f"{self.annotation} [{self.segment.start}, {self.segment.end}]"
""", "a plain f-string over the fields cannot fail")
M("C15", "r9/ground-truth-kept-from-previous-initialisation", SAM,
  """        if ground_truth_annotators is None:
            self._ground_truth_annotators = self._reference_continuum.annotators""",
  """        if ground_truth_annotators is None:
            self._ground_truth_annotators = self._ground_truth_annotators or self._reference_continuum.annotators""", "R-C15-3")
M("C09", "r9/segment-snapped-to-grid", CONT,
  """        if segment.duration == 0.0:
            raise ValueError("Tried adding segment of duration 0.0")
""", """        if segment.duration == 0.0:
            raise ValueError("Tried adding segment of duration 0.0")
        segment = Segment(round(segment.start, 6), round(segment.end, 6)) or segment
""", "R-C09-3")
M2("C06", "r8/stale-cached-property-on-sampler", [
    (SAM, "from abc import ABCMeta, abstractmethod\n", "from abc import ABCMeta, abstractmethod\nfrom functools import cached_property\n"),
    (SAM, """    @staticmethod
    def _remove_pivot_segment(pivot: float, segments: List[Segment], dist: float) -> List[Segment]:""",
     """    @cached_property
    def _pool(self):
        return np.array(self._ground_truth_annotators)

    @staticmethod
    def _remove_pivot_segment(pivot: float, segments: List[Segment], dist: float) -> List[Segment]:"""),
    (SAM, "                rnd_annotator = np.random.choice(annotators)", "                rnd_annotator = np.random.choice(self._pool)")],
   "R-DECORATORS", "memo over a field that init_sampling reassigns: a re-used sampler draws from the first ground truth")

# C20: polarity of the tests of the command line (from the mutation sweep)
M("C20", "sweep/cat-dissim-choice-test-inverted", CLI,
  '        if args.cat_dissim == "levenshtein":', '        if args.cat_dissim != "levenshtein":', "R-C20-2", "every choice but levenshtein builds the Levenshtein dissimilarity")
M("C20", "sweep/gamma-cat-column-declared-when-not-requested", CLI,
  """    if args.gamma_cat:
        labels.append('gamma-cat')""", """    if not args.gamma_cat:
        labels.append('gamma-cat')""", "R-C20-5", "json keys / csv header misaligned with the stored values")
M("C20", "sweep/mode-test-or-instead-of-and", CLI,
  "        if args.output_csv is None and args.output_json is None:", "        if args.output_csv is None or args.output_json is None:", "R-C20-5",
  "with a report file requested nothing is stored for the writer")
B("C20", "sweep/mode-test-swapped-branches", CLI,
  "        if args.output_csv is None and args.output_json is None:", "        if not (args.output_csv is not None or args.output_json is not None):", "same test")

# =============================================================================================
# round 10
# =============================================================================================
M("C14", "r10/categories-accessor-updates-the-continuum-in-place", ALI,
  """        if self.continuum is not None:
            return self.continuum.categories
        else:""", """        if self.continuum is not None:
            categories = self.continuum.categories
            categories |= SortedSet(u.annotation for ua in self for _, u in ua.n_tuple if u is not None and u.annotation is not None)
            return categories
        else:""", "R-C14-1", "`|=` on an alias of the continuum's category set is an in-place update")
B("C14", "r10/categories-accessor-union-into-a-fresh-set", ALI,
  """        if self.continuum is not None:
            return self.continuum.categories
        else:""", """        if self.continuum is not None:
            return self.continuum.categories
        elif False:
            categories = SortedSet()
            categories |= SortedSet(["x"])
            return categories
        else:""", "in-place update of a fresh set")
M2("C13", "r10/annotator-mapping-with-missing-hook", [
    (CONT, """class Continuum:
    \"\"\"
    Representation of a continuum,""", """class _AnnotatorUnits(SortedDict):
    def __missing__(self, annotator):
        units = self[annotator] = SortedSet()
        return units


class Continuum:
    \"\"\"
    Representation of a continuum,"""),
    (CONT, "        self._annotations: SortedDict = SortedDict()", "        self._annotations: SortedDict = _AnnotatorUnits()")],
   "R-C13-2", "a failed lookup registers the annotator")
M("C17", "r10/constructor-parameter-inserted-before-forwarded-positionals", ALI,
  """                 continuum: Optional['Continuum'] = None,
                 check_validity: bool = False,
                 disorder: Optional[float] = None
                 ):
        \"\"\"
        Alignment constructor.""", """                 continuum: Optional['Continuum'] = None,
                 chronological: bool = False,
                 check_validity: bool = False,
                 disorder: Optional[float] = None
                 ):
        \"\"\"
        Alignment constructor.""", "R-C17-4", "SoftAlignment forwards positionally: check_validity lands in the new slot")

# probes of the alias / effect analysis itself: unusual spellings of "mutate the continuum an alignment is attached to"
for _q, _what in (("q1", "bound mutator taken as a value and called later"), ("q2", "walrus-bound alias updated"), ("q3", "comprehension used for its side effect"),
                  ("q4", "setattr on the continuum"), ("q5", "explicit __ior__ on an alias"), ("q7", "bound package method called through a local"),
                  ("q11", "getattr with a constant name"), ("q12", "vars(obj)[...]"), ("q16", "random.shuffle / np.random.shuffle of an alias"),
                  ("q17", "obj.__dict__.update(...)")):
    VARIANTS.append(dict(prop="C14", id=f"around/alias-{_q}", kind="M", rule="R-C14-1", patch=_os.path.join(_HP, f"alias-{_q}.diff"), note=_what))

# =============================================================================================
# round 11
# =============================================================================================
M("C16", "r11/shuffle-init-replaces-reference-by-ground-truth-copy", SAM,
  """        super().init_sampling(reference_continuum, ground_truth_annotators)

    @staticmethod
    def _remove_pivot_segment""", """        super().init_sampling(reference_continuum, ground_truth_annotators)
        if ground_truth_annotators is not None:
            restricted = reference_continuum.copy_flush()
            for annotator in self._ground_truth_annotators:
                for unit in reference_continuum.iter_annotator(annotator):
                    restricted.add(annotator, unit.segment, unit.annotation)
            self._reference_continuum = restricted

    @staticmethod
    def _remove_pivot_segment""", "R-C16-3", "the average unit length (pivot separation) is that of another continuum")
M("C08", "r11/glpk-options-update-keywords", CONT,
  "CHUNK_SIZE = (10**6) // os.cpu_count()",
  """CHUNK_SIZE = (10**6) // os.cpu_count()
try:
    from cvxopt import glpk as _glpk
    _glpk.options.update(msg_lev="GLP_MSG_OFF", mip_gap=0.005)
except ImportError:
    pass""", "R-C08-3")


# =============================================================================================
# round 12
# =============================================================================================
_ALL = [f"C{_i:02d}" for _i in range(1, 21)]
for _prop, _rule, _patch, _what in (
        ("C17", "R-C17-4", "broken-continuum-weak-proxy", "the alignment holds its continuum through weakref.proxy: not kept once the caller drops it"),
        ("C01", "R-C01-4", "broken-unitary-alignments-by-bounds", "the unitary alignments routed through a dict keyed by bounds: one per key survives"),
        ("C10", "R-C10-2", "broken-unitary-alignments-by-bounds", ""),
        ("C17", "R-C17-4", "broken-unitary-alignments-by-bounds", ""),
        ("C07", "R-C07-3", "broken-arrays-by-annotator-size", "the unit arrays built over the annotators sorted by number of units: array i is not annotator i"),
        ("C01", "R-C01-3", "broken-arrays-by-annotator-size", ""),
        ("C02", "R-C02-2", "broken-arrays-by-annotator-size", ""),
        ("C19", "R-C19-3", "broken-shuffle-matrix-in-place", "in-place updates of the transition matrix that do not vanish at magnitude 0"),
        ("C06", "R-C06-8", "broken-pool-size-chunks", "the number of samples rounded to a multiple of the pool size read back from the executor")):
    VARIANTS.append(dict(prop=_prop, id=f"r12/{_patch}", kind="M", rule=_rule, patch=_os.path.join(_HP, f"{_patch}.diff"), note=_what))
for _patch, _what in (("benign-shuffle-matrix-in-place", "the same formula as a run of in-place updates of the fresh identity matrix"),
                      ("benign-pool-size-logged", "the pool size read back from the executor only to be logged"),
                      ("benign-continuum-transparent-property", "Alignment.continuum behind a getter / setter pair that stores and returns it unchanged"),
                      ("benign-arrays-keys-loop", "the array builder walks the keys of _annotations and looks the units up")):
    for _p in _ALL:
        VARIANTS.append(dict(prop=_p, id=f"r12/{_patch}", kind="B", rule="", patch=_os.path.join(_HP, f"{_patch}.diff"), note=_what))


# =============================================================================================
# round 13
# =============================================================================================
for _prop, _rule, _patch, _what in (
        ("C15", "R-C15-3", "broken-gap-zip-swapped", "gaps over consecutive pairs of each annotator's units, the roles of the pair swapped"),
        ("C04", "R-DEFAULTS", "broken-default-shared-component", "a default argument that builds the categorical component once at import: shared by every combination"),
        ("C15", "R-C15-3", "broken-ground-truth-kept-as-list", "the ground-truth annotators recorded as a list: a repeated name is two entries"),
        ("C16", "R-C16-3", "broken-ground-truth-kept-as-list", ""),
        ("C05", "R-C05-2", "broken-ground-truth-kept-as-list", ""),
        ("C18", "R-C18-3", "broken-segment-precision-at-import", "Segment.set_precision(3) at import: units shorter than a millisecond are zero-length for add()"),
        ("C13", "R-C13-3", "broken-segment-precision-at-import", ""),
        ("C19", "R-C19-2", "broken-segment-precision-at-import", "")):
    VARIANTS.append(dict(prop=_prop, id=f"r13/{_patch}", kind="M", rule=_rule, patch=_os.path.join(_HP, f"{_patch}.diff"), note=_what))
for _p in ("C01", "C09", "C12"):
    VARIANTS.append(dict(prop=_p, id="r13/broken-default-shared-component", kind="M", rule="", expect_code=2, patch=_os.path.join(_HP, "broken-default-shared-component.diff"),
                         note="reported, not judged, where the constructor is only related to what the property analyses"))
for _patch, _what in (("benign-gap-zip-consecutive", "gaps computed per annotator over zip(units, units[1:])"),
                      ("benign-default-named-constant", "a default value given by a module-level constant")):
    for _p in _ALL:
        VARIANTS.append(dict(prop=_p, id=f"r13/{_patch}", kind="B", rule="", patch=_os.path.join(_HP, f"{_patch}.diff"), note=_what))
for _p, _patch, _what in (
        ("C13", "probe-unit-post-init", "Unit.__post_init__ strips the label: a hook that runs whenever a unit is made, on a class the analysed functions instantiate"),
        ("C18", "probe-unit-post-init", ""), ("C19", "probe-unit-post-init", ""),
        ("C12", "probe-alignment-descriptor", "a data descriptor bound at class level under the name of the field `unitary_alignments` (truncating what is stored)"),
        ("C02", "probe-alignment-descriptor", ""), ("C17", "probe-alignment-descriptor", ""), ("C10", "probe-alignment-descriptor", ""),
        ("C13", "probe-continuum-metaclass", "a metaclass whose __call__ hands back the previous empty continuum"),
        ("C18", "probe-continuum-metaclass", "")):
    VARIANTS.append(dict(prop=_p, id=f"r13/{_patch}", kind="M", rule="", expect_code=2, patch=_os.path.join(_HP, f"{_patch}.diff"), note=_what))
VARIANTS.append(dict(prop="C13", id="r13/probe-unit-eq-false", kind="M", rule="R-C13-1", patch=_os.path.join(_HP, "probe-unit-eq-false.diff"),
                     note="@dataclass(eq=False): units compare and hash by identity"))
VARIANTS.append(dict(prop="C06", id="r13/broken-timing-steers-sampling", kind="M", rule="R-C06-6", patch=_os.path.join(_HP, "broken-timing-steers-sampling.diff"),
                     note="the clock decides whether a second batch of samples is drawn"))
for _p in _ALL:
    VARIANTS.append(dict(prop=_p, id="r13/benign-timing-logged", kind="B", rule="", patch=_os.path.join(_HP, "benign-timing-logged.diff"),
                         note="a duration measured with time.perf_counter() and written to the log only"))
for _p in ("C05", "C06"):
    VARIANTS.append(dict(prop=_p, id="r13/probe-process-pool", kind="M", rule="", expect_code=2, patch=_os.path.join(_HP, "probe-process-pool.diff"),
                         note="the jobs handed to a ProcessPoolExecutor: the thread-pool assumption of the rules is given up, refused"))
VARIANTS.append(dict(prop="C05", id="r13/probe-env-n-samples", kind="M", rule="R-C05-3", patch=_os.path.join(_HP, "probe-env-n-samples.diff"),
                     note="the size of the first batch read from an environment variable"))
VARIANTS.append(dict(prop="C06", id="r13/probe-seed-in-init", kind="M", rule="R-C06-5", patch=_os.path.join(_HP, "probe-seed-in-init.diff"),
                     note="np.random.seed called by the sampler's initialisation"))
for _p, _r, _patch, _what in (("C14", "R-C14-2", "probe-copy-shallow", "copy() shares the unit sets with the original (shallow mapping copy)"),
                              ("C13", "R-C13-3", "probe-units-sortedlist", "an annotator's units kept in a SortedList: duplicates are stored twice"),
                              ("C10", "R-C10-4", "probe-copy-window-dropped", "copy() no longer carries best_window_size")):
    VARIANTS.append(dict(prop=_p, id=f"r13/{_patch}", kind="M", rule=_r, patch=_os.path.join(_HP, f"{_patch}.diff"), note=_what))
VARIANTS.append(dict(prop="C17", id="r14/broken-alignment-peeks-first", kind="M", rule="R-C17-4", patch=_os.path.join(_HP, "broken-alignment-peeks-first.diff"),
                     note="Alignment.__init__ takes the first element of its iterable argument before storing list(argument)"))
VARIANTS.append(dict(prop="C19", id="r14/broken-category-weights-key-casefolded", kind="M", rule="R-SUP", patch=_os.path.join(_HP, "broken-category-weights-key-casefolded.diff"),
                     note="category_weights counts under the case-folded label: its keys are not the labels the units carry"))
for _patch, _what in (("probe-init-plain-dict", "Continuum.__init__ keeps the annotators in a plain dict"),
                      ("probe-init-categories-list", "Continuum.__init__ keeps the categories in a list")):
    VARIANTS.append(dict(prop="C13", id=f"r14/{_patch}", kind="M", rule="R-SUP", patch=_os.path.join(_HP, f"{_patch}.diff"), note=_what))
    VARIANTS.append(dict(prop="C10", id=f"r14/{_patch}", kind="M", rule="R-SUP", patch=_os.path.join(_HP, f"{_patch}.diff"), note=_what))
    VARIANTS.append(dict(prop="C01", id=f"r14/{_patch}", kind="M", rule="", expect_code=2, patch=_os.path.join(_HP, f"{_patch}.diff"), note=_what))
for _p in _ALL:
    VARIANTS.append(dict(prop=_p, id="r15/benign-guard-message-enriched", kind="B", rule="", patch=_os.path.join(_HP, "benign-guard-message-enriched.diff"),
                         note="the zero-length error names the start time and the annotator (reads of the arguments only)"))
VARIANTS.append(dict(prop="C04", id="r17/broken-positions-sorted-in-place", kind="M", rule="R-C04-5", patch=_os.path.join(_HP, "broken-positions-sorted-in-place.diff"),
                     note="the numerical positions sorted in place before they are handed over, the labels left in the order given"))
VARIANTS.append(dict(prop="C19", id="sweep/sweep-category-weights-count-never-stepped", kind="M", rule="R-SUP", patch=_os.path.join(_HP, "sweep-category-weights-count-never-stepped.diff"),
                     note="category_weights never steps the count of a label it has already seen"))
VARIANTS.append(dict(prop="C19", id="sweep/sweep-category-weights-not-normalised", kind="M", rule="", expect_code=2, patch=_os.path.join(_HP, "sweep-category-weights-not-normalised.diff"),
                     note="category_weights returns raw counts (the division by the number of units deleted): the value shape is not found, refused"))
# round 18: the array builders rebuild at every call (after seeded/C03-r18-*: the array form kept on the alignment, keyed without the units)
for _p, _r in (("C03", "R-C03-0"), ("C04", "R-C04-0")):
    VARIANTS.append(dict(prop=_p, id="r18/broken-alignment-arrays-memo-on-self", kind="M", rule=_r, patch=_os.path.join(_HP, "broken-alignment-arrays-memo-on-self.diff"),
                         note="_build_arrays_alignment keeps the arrays in a dict on the dissimilarity keyed by id(alignment): edited unitary alignments are priced with their old units"))
    VARIANTS.append(dict(prop=_p, id="r18/benign-alignment-arrays-returned-through-local", kind="B", rule="", patch=_os.path.join(_HP, "benign-alignment-arrays-returned-through-local.diff"),
                         note="the array built in this call returned through a conditional expression and a local"))
