#!/usr/bin/env python3
"""Differential test of the load-time normal form (pgstat/model.normalise_tree + pgstat/inline): every rewriting is claimed to be exact, so a
normalised function must behave like the original.  This file does NOT touch the repository under verification: it normalises the small
functions below (written to exercise each rewriting and the side conditions that must block it), executes original and normal form on the
sample arguments and compares results, raised exception types, printed output and mutations of the arguments.

    python selfval/normal_form_tests.py        exit 0 = all equal
"""
import ast, contextlib, copy, io, sys
from pathlib import Path
sys.path.insert(0, str(Path(__file__).resolve().parent.parent))
from pgstat import inline as _inline
from pgstat.model import normalise_tree, _canonical_receivers, _propagate_module_constants, _prelower_conditional_calls, record_classes

CASES = r'''
import functools
import itertools as _it
from operator import itemgetter as _ig
from functools import partial as _ft_partial
_state = {"k": 1}

@functools.lru_cache(maxsize=None)
def _helper_cached(x):
    return x * _state["k"]

def uses_cached_helper_must_stay(a):
    r1 = _helper_cached(a)
    _state["k"] = 10
    r2 = _helper_cached(a)
    _state["k"] = 1
    return r1, r2
def temp_return(a, b):
    v = a * b + 1
    return v

def augassign(a, b):
    x = a
    x = x + b
    x = x * 2
    return x

def ifexp_assign(a, b):
    t = a if a > b else b
    return t - 1

def ifexp_return(a, b):
    return a - b if a > b else b - a

def else_after_return(a):
    if a > 3:
        return "big"
    else:
        r = "small"
    return r

def pass_else(a):
    if a > 3:
        pass
    else:
        a = a + 10
    return a

def tuple_split(a, b):
    x, y = a, b
    return x - y

def tuple_swap_must_stay(a, b):
    a, b = b, a
    return a - b

def chained(a):
    x = y = a
    return x + y

def alias(a, b):
    c = a + b
    d = c
    return d * d

def alias_in_loop(xs):
    last = None
    for x in xs:
        cur = x * 2
        last = cur
    return last

def field_read(p):
    s = p.real
    return s + s

def element_read(xs, i):
    e = xs[i]
    return e + e

def element_read_blocked_by_store(xs, i):
    e = xs[i]
    xs[i] = 100
    return e

def row_view(rows, i):
    r = rows[i]
    r[0] = 7
    r[1] = 8
    return rows

def adjacent_temp(a, b):
    t = a * b
    u = t + 1
    return u

def adjacent_temp_impure_must_stay(log, a):
    t = log.append(a)
    u = (len(log), t)
    return u

def whole_value_temp(log, a):
    t = log.copy()
    out = t
    out.append(a)
    return out, log

def counting_while(xs):
    total = 0
    i = 0
    while i < len(xs):
        total += xs[i]
        i += 1
    return total

def counting_while_else(xs, stop):
    i = 0
    found = "none"
    while i < len(xs):
        if xs[i] == stop:
            found = "hit"
            break
        i += 1
    if i == len(xs):
        found = "exhausted"
    return found

def counting_while_index_used_after_must_stay(xs):
    i = 0
    while i < len(xs):
        if xs[i] < 0:
            break
        i += 1
    return i

def index_loop(xs):
    out = []
    for k in range(len(xs)):
        v = xs[k]
        out.append((k, v))
    return out

def triangular(xs):
    out = []
    for i, x in enumerate(xs):
        for j in range(i):
            out.append((x, xs[j]))
    return out

def collect_nest(rows):
    out = []
    for row in rows:
        for v in row:
            if v is None:
                continue
            out.append(v * 2)
    return out

def collect_set(rows):
    s = set()
    for a, b in rows:
        s.add((b, a))
    return sorted(s)

def collect_guarded(xs):
    out = list()
    for x in xs:
        if x % 2 == 0:
            out.append(x)
    return out

def literal_loop(a, b, log):
    for flag, name in ((a, "first"), (b, "second"), (True, "third")):
        if flag:
            log.append(name)
    return log

def quantifier_not_any(xs, ys):
    if len(xs) != len(ys):
        return False
    return not any(x != y for x, y in zip(xs, ys))

def quantifier_all(xs):
    if not xs:
        return "empty"
    return all(x > 0 for x in xs)

def not_eq_must_stay(a, b):
    return not a == b

def constant_fold(a):
    x = a if True else -a
    if False:
        x = 0
    return x

def nested_ifexp_assign(a):
    s = "neg" if a < 0 else ("zero" if a == 0 else "pos")
    return s

def comparison_orientation(a, b):
    if 3 < a:
        return "gt3"
    if b > a:
        return "b"
    return "other"

def _helper_double(x):
    return x * 2

def _helper_clip(x, lo, hi):
    if x < lo:
        return lo
    if x > hi:
        return hi
    return x

def _helper_push_all(dst, src, stop):
    for v in src:
        if v == stop:
            return
        dst.append(v)

def _helper_gen(xs, k):
    rest = list(xs)
    while rest:
        head = rest[:k]
        yield head
        for h in head:
            rest.remove(h)

def _helper_with(lock, a, b):
    with lock:
        s = a + b
        if s == 0:
            return s, None
        q = a / s
    return s, q

def uses_expression_helper(a):
    return _helper_double(a) + _helper_double(a + 1)

def uses_chain_helper(a):
    y = _helper_clip(a, 0, 10)
    return y * 3

def uses_procedure_helper(src, stop):
    dst = ["start"]
    _helper_push_all(dst, src, stop)
    dst.append("end")
    return dst

def uses_generator_helper(xs):
    out = []
    for chunk in _helper_gen(xs, 2):
        out.append(sum(chunk))
    return out

def uses_with_helper(lock, a, b):
    s, q = _helper_with(lock, a, b)
    if q is None:
        return "zero"
    return (s, q)

def uses_helper_twice(a, b):
    x = _helper_clip(a, 0, 5)
    y = _helper_clip(b, 0, 5)
    return x, y

def _helper_bounds(xs, at_least=1, at_most=1):
    out = []
    if at_least is not None:
        out.append(("ge", at_least, len(xs)))
    if at_most is not None:
        out.append(("le", at_most, len(xs)))
    return out

def uses_flag_helper_default(xs):
    r = _helper_bounds(xs, 1)
    return r

def uses_flag_helper_none(xs):
    r = _helper_bounds(xs, 2, None)
    return r

def constant_comparisons(a):
    out = []
    if None is None:
        out.append(a + 1)
    if 2 < 1:
        out.append("never")
    if "x" == "x":
        out.append("x")
    return out if 3 >= 3 else None

def dead_twice_bound(a):
    if a > 0:
        w = 1
    else:
        w = 2
    return a

def forwarded_temp(a):
    t = a * 2
    b = t
    c = t + 1
    return (b, c)

def forwarded_temp_target_rebound(a):
    t = a * 2
    b = t
    b = b + 100
    c = t + 1
    return (b, c)

def forwarded_temp_read_elsewhere(a):
    if a > 0:
        t = a * 2
        b = t
    else:
        t = 0
        b = -1
    return (b, t)

def _helper_draw(xs, lo):
    if not xs:
        return lo, xs
    p = xs[0] + lo
    return p, xs[1:]

def uses_pair_helper(xs, lo):
    out = []
    for _ in range(3):
        p, xs = _helper_draw(xs, lo)
        out.append(p)
    return out, xs

def tuple_split_sequential(a, b):
    x, y = a + 1, b + a
    return (x, y)

def tuple_split_blocked_swap(a, b):
    a, b = b, a
    return (a, b)

def tuple_split_blocked_later_reads_earlier(a, b):
    a, c = b + 1, a * 2
    return (a, c)

def tuple_split_side_effect_order(xs):
    a, b = xs.pop(), xs.pop()
    return (a, b, xs)

def _pred_second_not_none(p):
    """a predicate used by reference"""
    return p[1] is not None

def _key_second(p):
    return p[1]

def uses_function_reference(pairs):
    kept = list(filter(_pred_second_not_none, pairs))
    return sorted(kept, key=_key_second), sum(1 for _ in filter(_pred_second_not_none, pairs))

def shadowed_function_reference(pairs):
    _pred_second_not_none = lambda p: True
    return list(filter(_pred_second_not_none, pairs))

def flag_loop(xs, stop):
    out = []
    done = True
    for x in xs:
        out.append(x)
        if x == stop:
            done = False
            break
        out.append(-x)
    if done:
        out.append("end")
    return out

def flag_loop_negative(xs, stop):
    found = False
    for x in xs:
        if x == stop:
            found = True
            break
    if not found:
        return "absent"
    return "present"

def flag_loop_flag_read_later(xs, stop):
    done = True
    for x in xs:
        if x == stop:
            done = False
            break
    if done:
        xs = list(xs) + ["end"]
    return (done, xs)

def flag_loop_break_without_set(xs, stop):
    done = True
    for x in xs:
        if x == stop:
            done = False
            break
        if x is None:
            break
    if done:
        return "no stop seen"
    return "stopped"

def flag_loop_nested_break(xss, stop):
    ok = True
    for xs in xss:
        for x in xs:
            if x == stop:
                break
        if not xs:
            ok = False
            break
    if ok:
        return "all non-empty"
    return "empty row"

class _Holder:
    def __init__(self, d):
        self._annotations = dict(d)

def keys_loop(d):
    h = _Holder(d)
    out = []
    for k in h._annotations:
        units = h._annotations[k]
        out.append((k, len(units), h._annotations[k][0]))
    return out

def keys_loop_keys_call(d):
    h = _Holder(d)
    out = []
    for k in h._annotations.keys():
        out.append((k, sum(h._annotations[k])))
    return (out, k if d else None)

def keys_loop_body_stores_must_stay(d):
    h = _Holder(d)
    for k in h._annotations:
        h._annotations[k] = h._annotations[k] + [0]
    return sorted(h._annotations.items())

def keys_loop_other_key_must_stay(d, other):
    h = _Holder(d)
    out = []
    for k in h._annotations:
        out.append((h._annotations[k], h._annotations.get(other)))
    return out

def keys_loop_rebinds_key_must_stay(d):
    h = _Holder(d)
    out = []
    for k in h._annotations:
        v = h._annotations[k]
        k = k + "!"
        out.append((k, v))
    return out

def concat_rebinds_not_in_place(xs, ys):
    alias = xs
    xs = xs + ys
    return (alias, xs)

def concat_in_place(xs, ys):
    alias = xs
    xs += ys
    return (alias, xs)

def cached_append_in_try(rows):
    out = []
    for row in rows:
        acc = []
        push = acc.append
        for i in (0, 1, 2):
            try:
                push(row[i])
            except IndexError:
                push(None)
        out.append(acc)
    return out

def cached_method_in_try_catching_all_must_stay(obj, xs):
    out = []
    get = obj.index
    for x in xs:
        try:
            out.append(get(x))
        except Exception:
            out.append("caught")
    return out

def cached_method_in_try_value_error(seq, xs):
    out = []
    find = seq.index
    for x in xs:
        try:
            out.append(find(x))
        except ValueError:
            out.append(-1)
    return out

def getter_map_count(pairs):
    from operator import itemgetter
    return sum(1 for u in map(itemgetter(1), pairs) if u is not None)

def getter_map_ctor(pairs):
    return sorted(set(map(_ig(0), pairs)))

def getter_sort_key(pairs):
    return sorted(pairs, key=_ig(1))

def enumerate_start(xs):
    out = []
    for i, x in enumerate(xs, start=1):
        for y in xs[i:]:
            out.append((i, x, y))
    return out

def enumerate_start_positional(xs):
    return [(i, x) for i, x in enumerate(xs, 5)] + [j * 2 for j, _ in enumerate(xs, 1)]

def enumerate_start_read_after_must_stay(xs):
    i = 0
    for i, x in enumerate(xs, 1):
        pass
    return i

def chained_comprehension(rows):
    every = _it.chain.from_iterable(r for r in rows)
    kept = [(a, b) for a, b in every if b is not None]
    return kept

def chained_comprehension_inline(rows):
    return {a for a, _ in _it.chain.from_iterable([r for r in rows if r])}

def chained_used_twice_must_stay(rows):
    every = _it.chain.from_iterable(r for r in rows)
    first = [a for a, _ in every]
    second = [a for a, _ in every]
    return (first, second)

def loop_var_read_after_comprehension_must_stay(xs):
    out = []
    for x in xs:
        out.append(x * 2)
    return (out, x if xs else None)

def walrus_first(d, k):
    if (v := d.get(k)) is None:
        return "absent"
    return v

def walrus_second_operand(c, h):
    if c is None and (c := h.get("c")) is None:
        raise ValueError("none")
    return c

def walrus_truth(xs):
    if n := len(xs):
        return n * 2
    return -1

def walrus_in_else_branch(a, d):
    if a > 3:
        r = "big"
    elif (m := d.get(a)) is not None:
        r = m
    else:
        r = "none"
    return r

def walrus_not_leading_must_stay(a, d):
    if a > 3 or (m := d.get(a)) is not None:
        return "yes"
    return "no"

def match_literals(kind, n):
    match kind:
        case "double":
            r = n * 2
        case "neg" | "minus":
            r = -n
        case None:
            r = 0
        case _:
            r = n
    return r

def match_computed_subject(xs):
    match len(xs):
        case 0:
            return "empty"
        case 1 | 2:
            return "few"
    return "many"

def match_capture_must_stay(p):
    match p:
        case (a, b):
            return a + b
        case _:
            return None

def row_store(rows):
    import numpy as np
    out = np.empty((len(rows), 3), dtype=np.float32)
    for i, r in enumerate(rows):
        out[i] = (r[0], r[1], r[0] + r[1])
    return out.tolist()

def row_store_scalar_3d(n):
    import numpy as np
    out = np.zeros((n, 2, 4), dtype=np.float32)
    for i in range(n):
        out[i, 0] = -1
        out[i, 1] = (i, i + 1, i + 2, i + 3)
    return out.tolist()

def row_store_on_list_must_stay(rows):
    out = [None] * len(rows)
    for i, r in enumerate(rows):
        out[i] = (r[0], r[1])
    return out

def _row_of(r):
    s = r[0] + r[1]
    return r[0], r[1], s

def conditional_private_call(rows):
    out = []
    for r in rows:
        row = None if r is None else _row_of(r)
        out.append(row)
    return out

class _Pool:
    def __init__(self):
        self.calls = []
    def submit(self, fn, *args, **kw):
        self.calls.append((fn.__name__ if hasattr(fn, "__name__") else "partial", args, tuple(sorted(kw.items()))))
        return fn(*args, **kw)

def _job3(d, x, category):
    return (d, x, category)

def partial_jobs(d, xs):
    p = _Pool()
    job = _ft_partial(_job3, d, category=None)
    out = [p.submit(job, x) for x in xs]
    return out

def partial_job_selected(d, xs, fast):
    p = _Pool()
    f = _job3
    if fast:
        f = _job3
    job = _ft_partial(f, d)
    return [p.submit(job, x, "k") for x in xs]

def partial_rebound_arg_must_stay(d, xs):
    p = _Pool()
    job = _ft_partial(_job3, d, category=None)
    d = "other"
    return [p.submit(job, x) for x in xs], d

def partial_escapes_must_stay(d, xs):
    p = _Pool()
    job = _ft_partial(_job3, d, category=None)
    return [p.submit(job, x) for x in xs], job.args

def row_store_array_literal(rows):
    import numpy as np
    out = np.empty((len(rows), 2), dtype=np.float32)
    for i, r in enumerate(rows):
        out[i] = np.array([r[0], r[0] / 3], dtype=np.float32)
    return out.tolist()

def row_store_array_other_dtype_must_stay(rows):
    import numpy as np
    out = np.empty((len(rows), 2), dtype=np.float32)
    for i, r in enumerate(rows):
        out[i] = np.array([r[0], r[0] / 3], dtype=np.float16)
    return out.tolist()

def extend_generator(rows):
    out = []
    for r in rows:
        out.extend((a, b) for a, b in r if b is not None)
    return out

def extend_generator_target_read_later_must_stay(rows):
    a = "kept"
    out = []
    out.extend(a for a in rows)
    return (out, a)

def appended_temporary(futs):
    got, sizes = [], []
    for i, f in enumerate(futs, start=1):
        r = f()
        got.append(r)
        sizes.append(len(r))
    return (got, sizes)

def appended_temporary_list_touched_must_stay(futs):
    got = []
    for f in futs:
        r = f()
        got.append(r)
        got.append(None)
        last = r
    return got

def default_into_new_local(x, d=None):
    dd = {"k": 1} if d is None else d
    dd["x"] = x
    return dd

def default_into_new_local_not_none(x, d=None):
    dd = d if d is not None else []
    dd.append(x)
    return (dd, len(dd))

def default_param_read_later_must_stay(x, d=None):
    dd = [] if d is None else d
    dd.append(x)
    return (dd, d)

def takes_three(a, b, c=3):
    return (a, b, c)

def calls_with_keywords(x):
    return takes_three(x, c=x + 2, b=x + 1), takes_three(x, b=x + 1, c=x + 2), takes_three(a=x, b=1), takes_three(x, 2, c=5)

def alias_source_rebound_later(a):
    c = a
    d = c
    c = 5
    return d + c

def field_read_then_store(p):
    s = p.x
    p.x = 3
    return s + p.x

def element_read_then_pop(xs):
    e = xs[0]
    xs.pop(0)
    return e, xs

def temp_into_comprehension_scope(x):
    t = x * 2
    out = [t + x for x in range(3)]
    return out

def temp_into_first_iterable(x):
    t = x + 1
    out = [x for x in range(t)]
    return out

def literal_loop_with_break_must_stay(a, b, log):
    for flag, name in ((a, "first"), (b, "second")):
        if flag:
            log.append(name)
            break
    return log

def counting_while_else_adjacent(xs, stop):
    found = "none"
    i = 0
    while i < len(xs):
        if xs[i] == stop:
            found = "hit"
            break
        i += 1
    if i == len(xs):
        found = "exhausted"
    return found

def counting_while_with_continue_must_stay(xs):
    total = 0
    i = 0
    while i < len(xs):
        if xs[i] < 0:
            i += 1
            continue
        total += xs[i]
        i += 1
    return total

def _helper_scale(x, factor=3, *, offset=0):
    y = x * factor
    return y + offset

def uses_helper_defaults(a, log):
    r1 = _helper_scale(a)
    r2 = _helper_scale(a, offset=1)
    r3 = _helper_scale(log.pop(), factor=2)
    return r1, r2, r3, log

def _helper_pairs(xs):
    for k, x in enumerate(xs):
        yield k, x

def generator_consumer_with_break_must_stay(xs, stop):
    out = []
    for k, x in _helper_pairs(xs):
        if x == stop:
            break
        out.append(k)
    return out

def nested_collecting(rows):
    flat = []
    for row in rows:
        for v in row:
            flat.append(v)
    total = sum(flat)
    return flat, total

def chained_store_through_subscript(m, i, j, v):
    m[i][j] = m[j][i] = v
    return m

def guard_continue_collect(xs):
    out = []
    for x in xs:
        if x is None:
            continue
        if x < 0:
            continue
        out.append(x)
    return out

from typing import NamedTuple
_LIMIT = 5
_NAME = "tag"

class _Pair(NamedTuple):
    left: int
    right: int

def record_scalar_replacement(a, b):
    total = a + b
    pr = _Pair(left=a, right=total)
    return pr.left * 10 + pr.right

def record_escapes_must_stay(a, b):
    pr = _Pair(a, b)
    return pr, pr.left

def _helper_normalise(level, table):
    if isinstance(level, str):
        level = table[level]
    assert 0 < level < 1.0
    return level

def uses_rebinding_helper(level, table):
    level = _helper_normalise(level, table)
    return level * 2

def format_call(a, b):
    return "x={} y={}".format(a, b) + "{}!".format(_NAME)

def format_call_with_spec_must_stay(a):
    return "{:>4}|{!r}".format(a, a)

def polarity_two_branches(x):
    if x is not None:
        r = x + 1
    else:
        r = 0
    if not x:
        s = "falsy"
    else:
        s = "truthy"
    return r, s

def polarity_return_pair(x, ys):
    if x not in ys:
        return "absent"
    return "present"

def module_constants(a):
    if a > _LIMIT:
        return _NAME
    return a + _LIMIT

def shadowed_module_constant(a):
    _LIMIT = a * 2
    return _LIMIT + 1

def read_before_try_must_stay(xs, i):
    e = xs[i]
    try:
        return e + 1
    except IndexError:
        return "caught"

def field_read_before_try_must_stay(p):
    v = p.missing
    try:
        return v
    except AttributeError:
        return "caught"

def _helper_mutable_default(x, acc=[]):
    acc.append(x)
    return len(acc)

def uses_mutable_default_helper_must_stay(a):
    n1 = _helper_mutable_default(a)
    n2 = _helper_mutable_default(a)
    return n2 - n1

def live_ranges(xs, ys):
    out = []
    for x in xs:
        t = x * 2
        out.append(t)
        out.append(t + 1)
    for y in ys:
        t = y + 1
        out.append(t)
        out.append(t * t)
    return out

def live_range_loop_carried_must_stay(xs):
    t = 0
    out = []
    for x in xs:
        out.append(t)
        t = x
    return out, t

def live_range_conditional_must_stay(a):
    t = 1
    if a:
        t = 2
    return t

class Box:
    def __init__(self, v):
        self.v = v
        self.log = []

    def _bump(self, by):
        self.log.append(by)
        self.v = self.v + by
        return self.v

    def _peek(self):
        return self.v * 10

    def run(self, a):
        first = self._bump(a)
        second = self._peek()
        third = self._bump(first)
        return first, second, third, self.log

def uses_box(a):
    return Box(a).run(2)
'''

class _P:
    def __init__(self, x):
        self.x = x
    def __repr__(self):
        return f"_P({self.x})"
    def __deepcopy__(self, memo):
        return _P(self.x)


class _Lock:
    def __enter__(self):
        return self
    def __exit__(self, *a):
        return False

ARGS = {
    "temp_return": [(2, 3), (0, 0)], "augassign": [(1, 2), (-3, 4)], "ifexp_assign": [(1, 2), (5, 2)], "ifexp_return": [(1, 2), (5, 2), (3, 3)],
    "else_after_return": [(1,), (9,)], "pass_else": [(1,), (9,)], "tuple_split": [(5, 3)], "tuple_swap_must_stay": [(5, 3)], "chained": [(4,)],
    "alias": [(1, 2)], "alias_in_loop": [([1, 2, 3],), ([],)], "field_read": [(3 + 4j,), (2.5,)], "element_read": [([1, 2, 3], 1)],
    "element_read_blocked_by_store": [([1, 2, 3], 1)], "row_view": [([[0, 0], [1, 1]], 1)], "adjacent_temp": [(2, 3)],
    "adjacent_temp_impure_must_stay": [([1], 5)], "whole_value_temp": [([1, 2], 3)], "counting_while": [([1, 2, 3],), ([],)],
    "counting_while_else": [([1, 2, 3], 2), ([1, 2, 3], 9), ([], 1)], "counting_while_index_used_after_must_stay": [([1, -2, 3],), ([1, 2],)],
    "index_loop": [(["a", "b"],), ([],)], "triangular": [([1, 2, 3],)], "collect_nest": [([[1, None], [2, 3]],)], "collect_set": [([(1, 2), (3, 4), (1, 2)],)],
    "collect_guarded": [([1, 2, 3, 4],)], "literal_loop": [(True, False, []), (False, True, ["x"])], "quantifier_not_any": [([1, 2], [1, 2]), ([1, 2], [1, 3]), ([1], [1, 2])],
    "quantifier_all": [([1, 2],), ([1, -2],), ([],)], "not_eq_must_stay": [(1, 1), (1, 2)], "constant_fold": [(3,)], "nested_ifexp_assign": [(-1,), (0,), (2,)],
    "comparison_orientation": [(5, 1), (1, 2), (1, 0)], "uses_expression_helper": [(3,)], "uses_chain_helper": [(-5,), (5,), (50,)],
    "uses_procedure_helper": [([1, 2, 3], 2), ([1, 2, 3], 9), ([], 1)], "uses_generator_helper": [([1, 2, 3, 4, 5],), ([],)],
    "uses_with_helper": [(_Lock(), 1, 2), (_Lock(), 1, -1)], "uses_helper_twice": [(7, -1), (2, 3)],
    "uses_flag_helper_default": [([1, 2],)], "uses_flag_helper_none": [([1],)], "constant_comparisons": [(4,)], "dead_twice_bound": [(1,), (-1,)],
    "forwarded_temp": [(3,)], "forwarded_temp_target_rebound": [(3,)], "forwarded_temp_read_elsewhere": [(3,), (-3,)],
    "uses_pair_helper": [([1, 2], 10), ([], 5), ([1, 2, 3, 4], 0)], "tuple_split_sequential": [(1, 2)], "tuple_split_blocked_swap": [(1, 2)],
    "tuple_split_blocked_later_reads_earlier": [(1, 2)], "tuple_split_side_effect_order": [([1, 2, 3],)],
    "uses_function_reference": [([("a", 2), ("b", None), ("c", 1)],)], "shadowed_function_reference": [([("a", 2), ("b", None)],)],
    "flag_loop": [([1, 2, 3], 2), ([1, 2, 3], 9), ([], 1)], "flag_loop_negative": [([1, 2], 2), ([1, 2], 5)],
    "flag_loop_flag_read_later": [([1, 2], 2), ([1, 2], 5)], "flag_loop_break_without_set": [([1, None, 2], 2), ([1, 2], 2), ([1, 3], 2)],
    "flag_loop_nested_break": [([[1, 2], [3]], 2), ([[1], []], 1)],
    "concat_rebinds_not_in_place": [([1], [2])], "concat_in_place": [([1], [2])],
    "cached_append_in_try": [([[1, 2, 3], [4], []],)], "cached_method_in_try_catching_all_must_stay": [(None, [1]), ([1, 2], [2, 3])],
    "cached_method_in_try_value_error": [([1, 2], [2, 3]), ((5,), [])],
    "getter_map_count": [([("a", 1), ("b", None)],), ([],)], "getter_map_ctor": [([("b", 1), ("a", None), ("a", 2)],)], "getter_sort_key": [([("a", 3), ("b", 1)],)],
    "enumerate_start": [([1, 2, 3],), ([],)], "enumerate_start_positional": [([7, 8],)], "enumerate_start_read_after_must_stay": [([7, 8],), ([],)],
    "chained_comprehension": [([[("a", 1), ("b", None)], [("c", 2)]],), ([],)], "chained_comprehension_inline": [([[("a", 1)], [], [("c", 2)]],)],
    "chained_used_twice_must_stay": [([[("a", 1)], [("c", 2)]],)], "loop_var_read_after_comprehension_must_stay": [([1, 2],), ([],)],
    "walrus_first": [({"a": 1}, "a"), ({"a": 1}, "b")], "walrus_second_operand": [(1, {}), (None, {"c": 2}), (None, {})], "walrus_truth": [([1, 2],), ([],)],
    "walrus_in_else_branch": [(5, {}), (1, {1: "one"}), (2, {1: "one"})], "walrus_not_leading_must_stay": [(5, {}), (1, {1: 1}), (2, {})],
    "match_literals": [("double", 3), ("minus", 3), (None, 3), ("other", 3)], "match_computed_subject": [([],), ([1, 2],), ([1, 2, 3],)],
    "match_capture_must_stay": [((1, 2),), (5,)],
    "row_store": [([(1, 2), (3, 4)],), ([],)], "row_store_scalar_3d": [(2,), (0,)], "row_store_on_list_must_stay": [([(1, 2)],)],
    "conditional_private_call": [([(1, 2), None, (3, 4)],)],
    "partial_jobs": [("D", [1, 2])], "partial_job_selected": [("D", [1], True), ("D", [1, 2], False)], "partial_rebound_arg_must_stay": [("D", [1])],
    "partial_escapes_must_stay": [("D", [1])],
    "row_store_array_literal": [([(1, 2), (7, 4)],)], "row_store_array_other_dtype_must_stay": [([(1, 2), (7, 4)],)],
    "extend_generator": [([[(1, 2), (3, None)], [(4, 5)]],)], "extend_generator_target_read_later_must_stay": [([1, 2],)],
    "appended_temporary": [([lambda: [1], lambda: [1, 2]],)], "appended_temporary_list_touched_must_stay": [([lambda: 1],)],
    "default_into_new_local": [(1,), (1, {"z": 0})], "default_into_new_local_not_none": [(1,), (1, [5])], "default_param_read_later_must_stay": [(1,), (1, [5])],
    "keys_loop": [({"b": [1, 2], "a": [3]},), ({},)], "keys_loop_keys_call": [({"b": [1, 2], "a": [3]},), ({},)],
    "keys_loop_body_stores_must_stay": [({"b": [1, 2], "a": [3]},)], "keys_loop_other_key_must_stay": [({"b": [1], "a": [3]}, "a")],
    "keys_loop_rebinds_key_must_stay": [({"b": [1], "a": [3]},)],
    "calls_with_keywords": [(1,)],
    "alias_source_rebound_later": [(2,)], "field_read_then_store": [(_P(9),)], "element_read_then_pop": [([1, 2, 3],)],
    "temp_into_comprehension_scope": [(5,)], "temp_into_first_iterable": [(2,)], "literal_loop_with_break_must_stay": [(True, True, []), (False, True, [])],
    "counting_while_else_adjacent": [([1, 2, 3], 2), ([1, 2, 3], 9), ([], 1)], "counting_while_with_continue_must_stay": [([1, -2, 3],)],
    "uses_helper_defaults": [(2, [5, 6])], "generator_consumer_with_break_must_stay": [([1, 2, 3], 2), ([1, 2, 3], 9)], "nested_collecting": [([[1, 2], [3]],)],
    "uses_cached_helper_must_stay": [(3,), (4,)],
    "live_ranges": [([1, 2], [5])], "live_range_loop_carried_must_stay": [([1, 2, 3],)], "live_range_conditional_must_stay": [(0,), (1,)],
    "read_before_try_must_stay": [([1, 2], 0), ([1, 2], 5)], "field_read_before_try_must_stay": [(_P(1),)], "uses_mutable_default_helper_must_stay": [(1,)],
    "record_scalar_replacement": [(1, 2)], "record_escapes_must_stay": [(1, 2)], "uses_rebinding_helper": [("low", {"low": 0.1}), (0.5, {}), (2.0, {})],
    "format_call": [(1, "z")], "format_call_with_spec_must_stay": [(7,)], "polarity_two_branches": [(None,), (0,), (3,)],
    "polarity_return_pair": [(1, [1, 2]), (5, [1, 2])], "module_constants": [(2,), (9,)], "shadowed_module_constant": [(4,)],
    "chained_store_through_subscript": [([[0, 0], [0, 0]], 0, 1, 7)], "guard_continue_collect": [([1, None, -2, 3],)], "uses_box": [(1,), (5,)],
}


def run(fn, args):
    args = copy.deepcopy(args)
    buf = io.StringIO()
    try:
        with contextlib.redirect_stdout(buf):
            r = fn(*args)
        out = ("value", repr(r))
    except Exception as e:          # noqa: BLE001 - the exception type is the observation
        out = ("raise", type(e).__name__)
    return out, buf.getvalue(), repr([a for a in args if not isinstance(a, _Lock)])


def main() -> int:
    orig = {"_P": _P}
    exec(compile(CASES, "<cases>", "exec"), orig)
    tree = ast.parse(CASES)
    _canonical_receivers(tree)
    _propagate_module_constants(tree)
    _prelower_conditional_calls(tree)
    n_inlined, log = _inline.inline_module_helpers(tree, "cases")
    dropped = _inline.drop_unreferenced_helpers([tree])
    from pgstat.model import package_signatures
    normalise_tree(tree, frozenset(), record_classes([tree]), package_signatures([tree]))
    # `x = x op y` and `x op= y` share one node shape in the normal form; the node of the former carries the mark `rebinds`, which is how the
    # analyses tell them apart (flow.py treats a marked node as a plain assignment).  Python itself knows nothing of the mark, so the marked
    # nodes are rendered back as assignments before the normal form is executed: what runs is what the analyses take the node to mean.
    class _Unmark(ast.NodeTransformer):
        def visit_AugAssign(self, node):
            if getattr(node, "rebinds", False):
                import copy as _copy
                load = _copy.deepcopy(node.target)
                load.ctx = ast.Load()
                return ast.copy_location(ast.Assign(targets=[node.target], value=ast.BinOp(left=load, op=node.op, right=node.value)), node)
            return node
    tree = _Unmark().visit(tree)
    ast.fix_missing_locations(tree)
    norm_src = ast.unparse(tree)
    new = {"_Lock": _Lock, "_P": _P}
    exec(compile(tree, "<normal form>", "exec"), new)
    bad = 0
    changed = 0
    for name, argsets in ARGS.items():
        if name not in new:
            print("MISSING after normalisation:", name)
            bad += 1
            continue
        o_src = ast.unparse(next(n for n in ast.parse(CASES).body if isinstance(n, ast.FunctionDef) and n.name == name))
        n_src = ast.unparse(next(n for n in tree.body if isinstance(n, ast.FunctionDef) and n.name == name))
        if o_src != n_src:
            changed += 1
        if name.endswith("must_stay") and o_src != n_src and "swap" in name:
            pass
        for a in argsets:
            if run(orig[name], a) != run(new[name], a):
                bad += 1
                print(f"DIFFERENT BEHAVIOUR: {name}{a!r}: original {run(orig[name], a)} normal form {run(new[name], a)}\n{n_src}")
    print(f"normal-form differential test: {len(ARGS)} functions ({changed} rewritten, {n_inlined} helper call(s) inlined, helpers dropped: {dropped}), "
          f"{sum(len(v) for v in ARGS.values())} argument sets, {bad} difference(s)")
    if "--show" in sys.argv:
        print(norm_src)
    return 1 if bad else 0


if __name__ == "__main__":
    sys.exit(main())
