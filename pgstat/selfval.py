"""Both-ways validation of the checker on scratch variants of the repository (DESIGN 3.9).

  python -m pgstat.selfval [PROPERTY ...] [--jobs N] [--only ID] [--seeded]

A variant is a small source edit (exact snippet replaced once; a vanished anchor = skipped, reported).
  kind "M"  mutant  : the property's check must exit 1 and name the expected rule
  kind "B"  benign  : the property's check must exit 0
Scratch copies live under $TMPDIR/pgstat-selfval-<pid>/ and are removed immediately.
"""
from __future__ import annotations

import argparse
import ast
import io
import json
import os
import shutil
import subprocess
import sys
import tempfile
import time
from concurrent.futures import ProcessPoolExecutor
from contextlib import redirect_stdout
from pathlib import Path
from typing import List, Optional

VERIF = Path(__file__).resolve().parent.parent
REPO = Path(os.environ.get("PGSTAT_REPO", "/repo"))


def load_variants() -> List[dict]:
    sys.path.insert(0, str(VERIF / "selfval"))
    import importlib
    mod = importlib.import_module("variants")
    out = list(mod.VARIANTS)
    # global behaviour-preserving transformation: every local variable of the package renamed (no rule may depend on local names)
    props = [json.loads(l)["id"] for l in (VERIF / "properties.jsonl").read_text().splitlines() if l.strip()]
    for pr in props:
        out.append({"prop": pr, "id": "global/rename-all-locals", "kind": "B", "rule": "", "transform": "rename_locals"})
        out.append({"prop": pr, "id": "global/log-line-and-docstring-in-every-function", "kind": "B", "rule": "", "transform": "add_logging"})
        out.append({"prop": pr, "id": "global/annotate-every-local-assignment", "kind": "B", "rule": "", "transform": "annotate_locals"})
        out.append({"prop": pr, "id": "global/receiver-renamed-this", "kind": "B", "rule": "", "transform": "rename_self"})
        out.append({"prop": pr, "id": "global/comparison-operands-flipped", "kind": "B", "rule": "", "transform": "flip_comparisons"})
        for tname in ("return_via_local", "split_tuple_assign", "expand_augassign", "listcomp_to_loop", "drop_else_after_return",
                      "explaining_temps", "guard_continue", "ifexp_to_if", "if_to_ifexp", "for_to_while", "keyword_args",
                      "swap_if_branches", "unguard_continue", "name_constants"):
            out.append({"prop": pr, "id": f"global/{tname.replace('_', '-')}", "kind": "B", "rule": "", "transform": tname})
    # behaviour-preserving refactorings written by independent sub-agents (selfval/benign_patches/*.diff): every check must stay silent on each
    bp = VERIF / "selfval" / "benign_patches"
    if bp.is_dir():
        for pf in sorted(bp.glob("*.diff")):
            for pr in props:
                out.append({"prop": pr, "id": f"global/refactoring/{pf.stem}", "kind": "B", "rule": "", "patch": str(pf)})
    # combinations of 3-10 of those refactorings applied together (tools/combine_patches.py): interactions between rewritings
    bc = VERIF / "selfval" / "benign_combos"
    if bc.is_dir():
        for pf in sorted(bc.glob("*.diff")):
            for pr in props:
                out.append({"prop": pr, "id": f"global/refactoring-combo/{pf.stem[:9]}", "kind": "B", "rule": "", "patch": str(pf)})
    # regressions: reverse patches of the fix commits (real defects of the pinned tree)
    for r in getattr(mod, "REGRESSIONS", []):
        out.append(dict(r, kind="M", patch=str(VERIF / "selfval" / "regressions" / r["patch"])))
    # seeded changes written by independent sub-agents
    sd = VERIF / "seeded"
    if sd.is_dir():
        for d in sorted(sd.iterdir()):
            mj = d / "meta.json"
            if mj.exists() and (d / "patch.diff").exists():
                meta = json.loads(mj.read_text())
                for prop in meta.get("detected_by", []):
                    out.append({"prop": prop["property"], "id": f"seeded/{d.name}", "kind": "M", "rule": prop.get("rule", ""),
                                "patch": str(d / "patch.diff"), "note": meta.get("summary", "")})
                # changes the static check can only refuse to decide (ANALYSIS-ERROR, exit 2): recorded honestly, must never become a silent pass
                for prop in meta.get("refused_by", []):
                    out.append({"prop": prop["property"], "id": f"seeded/{d.name}", "kind": "M", "rule": "", "expect_code": 2,
                                "patch": str(d / "patch.diff"), "note": meta.get("summary", "")})
    return out


def make_variant(v: dict, root: Path) -> Optional[str]:
    """copy the package and apply the edit; returns None on success or a reason for skipping"""
    dst = root / "pygamma_agreement"
    if v.get("transform") == "rename_locals":
        sys.path.insert(0, str(VERIF / "tools"))
        import rename_locals
        rename_locals.rename_package(REPO / "pygamma_agreement", dst)
        return None
    if v.get("transform"):
        sys.path.insert(0, str(VERIF / "tools"))
        import transforms
        transforms.transform_package(v["transform"], REPO / "pygamma_agreement", dst)
        return None
    shutil.copytree(REPO / "pygamma_agreement", dst, ignore=shutil.ignore_patterns("__pycache__"))
    if "patch" in v:
        r = subprocess.run(["patch", "-p1", "-s", "-d", str(root), "-i", v["patch"], "--no-backup-if-mismatch"],
                           capture_output=True, text=True)
        if r.returncode != 0:
            return f"patch does not apply: {r.stdout.strip()[:200]}"
    else:
        edits = v.get("edits") or [(v["file"], v["old"], v["new"])]
        for fn, old, new in edits:
            p = dst / fn
            s = p.read_text()
            if s.count(old) != 1:
                return f"anchor snippet found {s.count(old)} times in {fn}"
            p.write_text(s.replace(old, new))
    for p in dst.glob("*.py"):
        try:
            import warnings
            with warnings.catch_warnings():
                warnings.simplefilter("ignore")
                ast.parse(p.read_text())
        except SyntaxError as e:
            return f"variant does not compile: {e}"
    return None


def run_variant(v: dict) -> dict:
    from .__main__ import run_property
    t0 = time.time()
    root = Path(tempfile.mkdtemp(prefix=f"pgstat-selfval-{os.getpid()}-"))
    try:
        why = make_variant(v, root)
        if why:
            return dict(v, status="skipped", why=why, wall=0)
        buf = io.StringIO()
        with redirect_stdout(buf):
            code = run_property(v["prop"], root, "quick", 0, False, quiet=True)
        out = buf.getvalue()
    finally:
        shutil.rmtree(root, ignore_errors=True)
    res = dict(v, code=code, wall=round(time.time() - t0, 2))
    if v.get("expect_code") is not None:
        # a change that must make the check refuse to decide (ANALYSIS-ERROR), neither pass nor claim a violation
        res["status"] = "ok" if code == v["expect_code"] else "wrong-exit"
        if res["status"] != "ok":
            res["why"] = f"exit {code}, expected {v['expect_code']}"
    elif v["kind"] == "M":
        rule = v.get("rule", "")
        named = any((rule in l) for l in out.splitlines() if "VIOLATED" in l) if rule else True
        if code == 1 and named:
            res["status"] = "ok"
        elif code == 1:
            res["status"] = "wrong-rule"
            res["why"] = "violation reported, but not by the expected rule: " + "; ".join(
                l[:120] for l in out.splitlines() if "VIOLATED" in l)[:400]
        else:
            res["status"] = "missed" if code == 0 else "analysis-error"
            res["why"] = "; ".join(l[:200] for l in out.splitlines() if "ANALYSIS-ERROR" in l)[:600]
    else:
        res["status"] = "ok" if code == 0 else "false-alarm"
        if code != 0:
            res["why"] = "; ".join(l[:200] for l in out.splitlines() if ("VIOLATED" in l or "ANALYSIS-ERROR" in l))[:600]
    res.pop("old", None), res.pop("new", None), res.pop("edits", None)
    return res


def run_all(props: Optional[List[str]] = None, jobs: int = 16, only: Optional[str] = None) -> List[dict]:
    vs = load_variants()
    if props:
        vs = [v for v in vs if v["prop"] in props]
    if only:
        vs = [v for v in vs if only in v["id"]]
    if not vs:
        return []
    if jobs <= 1 or len(vs) == 1:
        return [run_variant(v) for v in vs]
    with ProcessPoolExecutor(max_workers=min(jobs, len(vs))) as ex:
        return list(ex.map(run_variant, vs))


def run_cross_benign(prop: str, jobs: int = 16) -> List[dict]:
    """false-alarm test: `prop`'s check must stay silent on the benign rewrites written for every OTHER property"""
    vs = [dict(v, prop=prop, id=f"cross/{v['prop']}/{v['id']}") for v in load_variants() if v["kind"] == "B" and v["prop"] != prop
          and not v["id"].startswith("global/")]
    if not vs:
        return []
    with ProcessPoolExecutor(max_workers=min(jobs, len(vs))) as ex:
        return list(ex.map(run_variant, vs))


def summarize(results: List[dict]) -> dict:
    s = {"variants": len(results), "mutants": 0, "mutants_caught": 0, "benign": 0, "benign_silent": 0, "skipped": 0,
         "failures": []}
    for r in results:
        if r["status"] == "skipped":
            s["skipped"] += 1
            continue
        if r["kind"] == "M":
            s["mutants"] += 1
            s["mutants_caught"] += r["status"] == "ok"
        else:
            s["benign"] += 1
            s["benign_silent"] += r["status"] == "ok"
        if r["status"] != "ok":
            s["failures"].append({"id": r["id"], "prop": r["prop"], "status": r["status"], "why": r.get("why", "")})
    return s


def main(argv=None) -> int:
    ap = argparse.ArgumentParser()
    ap.add_argument("props", nargs="*")
    ap.add_argument("--jobs", type=int, default=min(16, os.cpu_count() or 1))
    ap.add_argument("--only", default=None)
    ap.add_argument("--cross", action="store_true", help="run each given property's check on the benign rewrites of all other properties")
    a = ap.parse_args(argv)
    t0 = time.time()
    if a.cross:
        res = []
        for p in [p.upper() for p in a.props]:
            res += run_cross_benign(p, a.jobs)
    else:
        res = run_all([p.upper() for p in a.props] or None, a.jobs, a.only)
    for r in res:
        flag = {"ok": "ok  ", "skipped": "SKIP"}.get(r["status"], "FAIL")
        print(f"{flag} {r['prop']} {r['kind']} {r['id']:<44} {r['status']:<14} {r.get('rule','')} {r.get('why','')[:200]}")
    s = summarize(res)
    print(json.dumps({k: v for k, v in s.items() if k != "failures"}), f"wall={time.time()-t0:.1f}s")
    return 0 if not s["failures"] else 1


if __name__ == "__main__":
    sys.exit(main())
