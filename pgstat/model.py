"""Resolved program model of /repo/pygamma_agreement (DESIGN 3.1).

Pure `ast`; nothing of the analysed package is ever imported or executed.
"""
from __future__ import annotations

import ast
import hashlib
import os
from dataclasses import dataclass, field
from pathlib import Path
from typing import Dict, Iterable, Iterator, List, Optional, Sequence, Set, Tuple

PKG = "pygamma_agreement"


class AnalysisError(Exception):
    """Anchor vanished / unsupported shape: the run is UNDECIDED (exit 2), never a silent pass."""

    def __init__(self, rule: str, msg: str):
        super().__init__(f"{rule}: {msg}")
        self.rule = rule
        self.msg = msg


# --------------------------------------------------------------------------------------------
# types
# --------------------------------------------------------------------------------------------

@dataclass(frozen=True)
class Ty:
    name: str
    args: Tuple["Ty", ...] = ()
    opt: bool = False

    def __str__(self):
        s = self.name
        if self.args:
            s += "[" + ",".join(map(str, self.args)) + "]"
        return ("Optional[%s]" % s) if self.opt else s

    def elem(self) -> Optional["Ty"]:
        """type of an element obtained by iteration / integer subscript"""
        if self.name in ("SortedSet", "list", "set", "Iterable", "ndarray", "frozenset", "List", "typedlist"):
            return self.args[0] if self.args else None
        if self.name in ("SortedDict", "dict"):
            return self.args[0] if self.args else None  # iteration yields keys
        if self.name == "tuple" and self.args:
            return self.args[0]
        return None

    def value(self) -> Optional["Ty"]:
        if self.name in ("SortedDict", "dict") and len(self.args) == 2:
            return self.args[1]
        return None


T_STR = Ty("str")
T_FLOAT = Ty("float")
T_INT = Ty("int")
T_BOOL = Ty("bool")
T_NONE = Ty("None")
T_UNIT = Ty("Unit")
T_SEG = Ty("Segment")
T_UNITSET = Ty("SortedSet", (T_UNIT,))
T_ANNOTS = Ty("SortedDict", (T_STR, T_UNITSET))
T_NTUPLE = Ty("list", (Ty("tuple", (T_STR, Ty("Unit", opt=True))),))

# Hand-confirmed field types (DESIGN 3.1).  Only generic parameters that annotations do not carry.
FIELD_TYPES: Dict[Tuple[str, str], Ty] = {
    ("Continuum", "_annotations"): T_ANNOTS,
    ("Continuum", "_categories"): Ty("SortedSet", (T_STR,)),
    ("Continuum", "bound_inf"): T_FLOAT,
    ("Continuum", "bound_sup"): T_FLOAT,
    ("Continuum", "uri"): T_STR,
    ("Continuum", "best_window_size"): T_FLOAT,
    ("Unit", "segment"): T_SEG,
    ("Unit", "annotation"): Ty("str", opt=True),
    ("Segment", "start"): T_FLOAT,
    ("Segment", "end"): T_FLOAT,
    ("Segment", "duration"): T_FLOAT,
    ("UnitaryAlignment", "_n_tuple"): T_NTUPLE,
    ("UnitaryAlignment", "_disorder"): T_FLOAT,
    ("Alignment", "unitary_alignments"): Ty("list", (Ty("UnitaryAlignment"),)),
    ("Alignment", "continuum"): Ty("Continuum", opt=True),
    ("Alignment", "_disorder"): T_FLOAT,
    ("AbstractDissimilarity", "delta_empty"): T_FLOAT,
    ("AbstractDissimilarity", "categories"): Ty("SortedSet", (T_STR,), opt=True),
    ("AbstractDissimilarity", "d_mat"): Ty("Callable"),
    ("PrecomputedCategoricalDissimilarity", "_matrix"): Ty("ndarray"),
    ("CombinedCategoricalDissimilarity", "positional_dissim"): Ty("AbstractDissimilarity"),
    ("CombinedCategoricalDissimilarity", "categorical_dissim"): Ty("CategoricalDissimilarity"),
    ("CombinedCategoricalDissimilarity", "alpha"): T_FLOAT,
    ("CombinedCategoricalDissimilarity", "beta"): T_FLOAT,
    ("AbstractContinuumSampler", "_reference_continuum"): Ty("Continuum", opt=True),
    ("AbstractContinuumSampler", "_ground_truth_annotators"): Ty("SortedSet", (T_STR,), opt=True),
    ("ShuffleContinuumSampler", "_pivot_type"): T_STR,
    ("StatisticalContinuumSampler", "_categories"): Ty("ndarray", (T_STR,)),
    ("StatisticalContinuumSampler", "_categories_weight"): Ty("ndarray", (T_FLOAT,)),
    ("CorpusShufflingTool", "_reference_continuum"): Ty("Continuum"),
    ("CorpusShufflingTool", "_reference_annotator"): T_STR,
    ("CorpusShufflingTool", "_categories"): Ty("SortedSet", (T_STR,)),
    ("CorpusShufflingTool", "magnitude"): T_FLOAT,
    ("GammaResults", "best_alignment"): Ty("Alignment"),
    ("GammaResults", "chance_alignments"): Ty("list", (Ty("Alignment"),)),
    ("GammaResults", "dissimilarity"): Ty("AbstractDissimilarity"),
    ("GammaResults", "precision_level"): Ty("float", opt=True),
}

# return types of getters/methods whose annotation is missing or too coarse (hand-confirmed)
RETURN_TYPES: Dict[str, Ty] = {
    "Continuum.__iter__": Ty("Iterable", (Ty("tuple", (T_STR, T_UNIT)),)),
    "Continuum.iter_annotator": Ty("Iterable", (T_UNIT,)),
    "Continuum.iterunits": Ty("Iterable", (T_UNIT,)),
    "Continuum.__getitem__": T_UNITSET,       # str key (the only form used inside the package)
    "Continuum.annotators": Ty("SortedSet", (T_STR,)),
    "Continuum.categories": Ty("SortedSet", (T_STR,)),
    "Continuum.category_weights": Ty("SortedDict", (T_STR, T_FLOAT)),
    "Continuum.bounds": Ty("tuple", (T_FLOAT, T_FLOAT)),
    "Continuum.get_first_window": Ty("tuple", (Ty("Continuum"), T_FLOAT)),
    "Continuum.copy": Ty("Continuum"),
    "Continuum.copy_flush": Ty("Continuum"),
    "Continuum.merge": Ty("Continuum", opt=True),
    "Continuum.__add__": Ty("Continuum"),
    "Continuum.get_best_alignment": Ty("Alignment"),
    "Continuum.get_fast_alignment": Ty("Alignment"),
    "Continuum.get_best_soft_alignment": Ty("SoftAlignment"),
    "Continuum.compute_gamma": Ty("GammaResults"),
    "UnitaryAlignment.n_tuple": T_NTUPLE,
    "Alignment.__iter__": Ty("Iterable", (Ty("UnitaryAlignment"),)),
    "Alignment.take_until_limit": Ty("Iterable", (Ty("UnitaryAlignment"),)),
    "Alignment.annotators": Ty("SortedSet", (T_STR,)),
    "Alignment.categories": Ty("SortedSet", (T_STR,)),
    "AbstractContinuumSampler.sample_from_continuum": Ty("Continuum"),
    "ShuffleContinuumSampler.sample_from_continuum": Ty("Continuum"),
    "StatisticalContinuumSampler.sample_from_continuum": Ty("Continuum"),
    "CorpusShufflingTool.corpus_from_reference": Ty("Continuum"),
    "CorpusShufflingTool.corpus_shuffle": Ty("Continuum"),
}

TYPE_ALIASES = {"Annotator": T_STR, "Path": Ty("Path"), "PivotType": T_STR, "PrecisionLevel": T_STR,
                "UnitsTuple": T_NTUPLE}

BUILTIN_CONTAINER_METHODS = {
    "add", "remove", "pop", "discard", "clear", "update", "append", "extend", "insert", "sort", "reverse",
    "index", "copy", "items", "keys", "values", "get", "setdefault", "popitem", "count", "peekitem",
    "issuperset", "issubset", "union", "intersection", "difference", "bisect_left", "bisect_right", "irange",
}
BUILTIN_MUTATORS = {"add", "remove", "pop", "discard", "clear", "update", "append", "extend", "insert", "sort",
                    "reverse", "setdefault", "popitem", "__setitem__", "__delitem__", "difference_update",
                    "intersection_update", "symmetric_difference_update",
                    "__ior__", "__iand__", "__isub__", "__ixor__", "__iadd__", "__imul__", "__setattr__", "__delattr__", "fill", "resize", "put", "itemset",
                    "appendleft", "extendleft", "popleft", "rotate", "move_to_end", "subtract"}
IMMUTABLE_TYPES = {"str", "float", "int", "bool", "None", "Unit", "Segment", "tuple", "Path", "Callable", "bytes"}


def ann_to_ty(node: Optional[ast.AST], classes: Set[str]) -> Optional[Ty]:
    """Annotation AST -> Ty (None when unknown)."""
    if node is None:
        return None
    if isinstance(node, ast.Constant):
        if isinstance(node.value, str):
            try:
                return ann_to_ty(ast.parse(node.value, mode="eval").body, classes)
            except SyntaxError:
                return None
        if node.value is None:
            return T_NONE
        return None
    if isinstance(node, ast.Name):
        if node.id in TYPE_ALIASES:
            return TYPE_ALIASES[node.id]
        if node.id in ("str", "float", "int", "bool", "list", "set", "dict", "tuple"):
            return Ty(node.id)
        return Ty(node.id)
    if isinstance(node, ast.Attribute):
        return Ty(node.attr)
    if isinstance(node, ast.Subscript):
        base = node.value
        bname = base.id if isinstance(base, ast.Name) else (base.attr if isinstance(base, ast.Attribute) else None)
        sl = node.slice
        parts = list(sl.elts) if isinstance(sl, ast.Tuple) else [sl]
        sub = [ann_to_ty(p, classes) for p in parts]
        if bname == "Optional":
            t = sub[0]
            return Ty(t.name, t.args, True) if t else None
        if bname == "Union":
            cands = [t for t in sub if t is not None and t.name != "None"]
            pk = [t for t in cands if t.name in classes]
            t = (pk or cands or [None])[0]
            if t is None:
                return None
            return Ty(t.name, t.args, any(s is not None and s.name == "None" for s in sub))
        if bname in ("List", "list"):
            return Ty("list", tuple(t for t in sub if t))
        if bname in ("Tuple", "tuple"):
            return Ty("tuple", tuple(t if t else Ty("?") for t in sub))
        if bname in ("Iterable", "Iterator", "Sequence"):
            return Ty("Iterable", tuple(t for t in sub[:1] if t))
        if bname == "Generator":
            return Ty("Iterable", tuple(t for t in sub[:1] if t))
        if bname in ("SortedSet", "SortedDict", "Dict", "dict", "Set", "set"):
            return Ty({"Dict": "dict", "Set": "set"}.get(bname, bname), tuple(t for t in sub if t))
        if bname == "Callable":
            return Ty("Callable")
        if bname == "Literal":
            return T_STR
        return Ty(bname) if bname else None
    return None


# --------------------------------------------------------------------------------------------
# program entities
# --------------------------------------------------------------------------------------------

@dataclass
class FuncInfo:
    qualname: str                  # "Continuum.add", "_compute_best_alignment_job", "X.compile_d_mat.<locals>.d_mat"
    name: str
    node: ast.AST                  # FunctionDef | Lambda
    module: "Module"
    cls: Optional["ClassInfo"]
    parent: Optional["FuncInfo"]
    kind: str = "function"         # function | method | property | setter | staticmethod | classmethod
    decorators: List[str] = field(default_factory=list)   # dotted names, e.g. "numba.njit", "property"
    nested: List["FuncInfo"] = field(default_factory=list)
    abstract: bool = False

    @property
    def params(self) -> List[str]:
        a = self.node.args
        return [x.arg for x in a.posonlyargs + a.args] + ([a.vararg.arg] if a.vararg else []) + \
               [x.arg for x in a.kwonlyargs] + ([a.kwarg.arg] if a.kwarg else [])

    @property
    def self_name(self) -> Optional[str]:
        if self.cls is not None and self.kind in ("method", "property", "setter") and self.node.args.args:
            return self.node.args.args[0].arg
        return None

    @property
    def is_njit(self) -> bool:
        return any(d.startswith("numba.njit") or d in ("dissimilarity_dec",) or d.endswith(".dissimilarity_dec")
                   for d in self.decorators)

    @property
    def file(self) -> str:
        return self.module.relpath

    @property
    def lineno(self) -> int:
        return getattr(self.node, "lineno", 0)

    def loc(self, node: Optional[ast.AST] = None) -> str:
        ln = getattr(node, "lineno", None) if node is not None else self.lineno
        return f"{self.file}:{ln}"

    def __hash__(self):
        return hash(self.qualname)

    def __eq__(self, other):
        return isinstance(other, FuncInfo) and other.qualname == self.qualname

    def __repr__(self):
        return f"<fn {self.qualname}>"


@dataclass
class ClassInfo:
    name: str
    node: ast.ClassDef
    module: "Module"
    base_names: List[str]
    methods: Dict[str, FuncInfo] = field(default_factory=dict)     # plain methods + static/class methods
    getters: Dict[str, FuncInfo] = field(default_factory=dict)     # @property
    setters: Dict[str, FuncInfo] = field(default_factory=dict)
    class_attrs: Dict[str, ast.AST] = field(default_factory=dict)  # NAME = value at class level
    annotations: Dict[str, ast.AST] = field(default_factory=dict)  # NAME: T at class level
    decorators: List[str] = field(default_factory=list)

    def __hash__(self):
        return hash(self.name)

    def __eq__(self, other):
        return isinstance(other, ClassInfo) and other.name == self.name


@dataclass
class Module:
    name: str            # pygamma_agreement.continuum
    relpath: str         # pygamma_agreement/continuum.py
    src: str
    tree: ast.Module
    aliases: Dict[str, str] = field(default_factory=dict)
    functions: Dict[str, FuncInfo] = field(default_factory=dict)   # module level
    classes: Dict[str, ClassInfo] = field(default_factory=dict)
    globals_: Dict[str, ast.AST] = field(default_factory=dict)

    def seg(self, node: ast.AST) -> str:
        return ast.get_source_segment(self.src, node) or ""


def norm(node: ast.AST) -> str:
    """Normalised text of a construct (used for keys instead of line numbers)."""
    try:
        return " ".join(ast.unparse(node).split())
    except Exception:  # pragma: no cover
        return type(node).__name__


def dotted(node: ast.AST) -> Optional[str]:
    if isinstance(node, ast.Name):
        return node.id
    if isinstance(node, ast.Attribute):
        b = dotted(node.value)
        return f"{b}.{node.attr}" if b else None
    return None


_LOG_RECEIVERS = ("logging", "logger", "log", "LOGGER", "_logger", "warnings")
_LOG_METHODS = {"debug", "info", "warning", "warn", "error", "critical", "exception", "log"}
_PURE_CALLS = {"len", "str", "repr", "int", "float", "round", "os.path.basename", "time.time", "time.perf_counter", "time.monotonic", "time.process_time", "type"}


def _pure_log_arg(e: ast.AST) -> bool:
    """argument of a logging call that cannot have an effect: constants, plain names, arithmetic, f-strings over those, a few pure calls.
    Attribute loads are NOT accepted (an attribute may be a property that draws random numbers, e.g. sampler.sample_from_continuum)."""
    if isinstance(e, (ast.Constant, ast.Name)):
        return True
    if isinstance(e, ast.JoinedStr):
        return all(_pure_log_arg(v) for v in e.values)
    if isinstance(e, ast.FormattedValue):
        return _pure_log_arg(e.value)
    if isinstance(e, ast.BinOp):
        return _pure_log_arg(e.left) and _pure_log_arg(e.right)
    if isinstance(e, ast.UnaryOp):
        return _pure_log_arg(e.operand)
    if isinstance(e, ast.Call):
        return dotted(e.func) in _PURE_CALLS and all(_pure_log_arg(a) for a in e.args) and not e.keywords
    if isinstance(e, (ast.Tuple, ast.List)):
        return all(_pure_log_arg(x) for x in e.elts)
    return False


def _is_inert(s: ast.stmt) -> bool:
    if isinstance(s, ast.Pass):
        return True
    if isinstance(s, ast.Expr):
        v = s.value
        if isinstance(v, ast.Constant):
            return True                                  # docstring / stray literal
        if isinstance(v, ast.Call) and isinstance(v.func, ast.Attribute) and v.func.attr in _LOG_METHODS:
            recv = v.func.value
            ok_recv = (isinstance(recv, ast.Name) and recv.id in _LOG_RECEIVERS) or \
                (isinstance(recv, ast.Call) and dotted(recv.func) in ("logging.getLogger",) and all(_pure_log_arg(a) for a in recv.args))
            return ok_recv and all(_pure_log_arg(a) for a in v.args) and all(_pure_log_arg(k.value) for k in v.keywords)
    return False


def _canonical_receivers(tree: ast.AST):
    """first parameter of every (non-static) method is named `self` (`cls` for classmethods)"""
    for c in [n for n in ast.walk(tree) if isinstance(n, ast.ClassDef)]:
        for m in c.body:
            if not isinstance(m, (ast.FunctionDef, ast.AsyncFunctionDef)) or not m.args.args:
                continue
            decos = [ast.unparse(d) for d in m.decorator_list]
            if any(d.endswith("staticmethod") for d in decos):
                continue
            want = "cls" if any(d.endswith("classmethod") for d in decos) else "self"
            old = m.args.args[0].arg
            if old == want or any(isinstance(x, ast.Name) and x.id == want for x in ast.walk(m)):
                continue
            for x in ast.walk(m):
                if isinstance(x, ast.Name) and x.id == old:
                    x.id = want
                elif isinstance(x, ast.arg) and x.arg == old:
                    x.arg = want


_FLIP = {ast.Lt: ast.Gt, ast.Gt: ast.Lt, ast.LtE: ast.GtE, ast.GtE: ast.LtE, ast.Eq: ast.Eq, ast.NotEq: ast.NotEq}


def _cmp_key(e: ast.AST):
    rank = 2 if isinstance(e, ast.Constant) or (isinstance(e, ast.UnaryOp) and isinstance(e.operand, ast.Constant)) else (1 if isinstance(e, ast.Name) else 0)
    return (rank, ast.unparse(e))


def _simplify_not(tree: ast.AST):
    """`not (a is None)` -> `a is not None`, `not (a == b)` -> `a != b`, `not not x` stays (truthiness)"""
    class T(ast.NodeTransformer):
        def visit_UnaryOp(self, n):
            self.generic_visit(n)
            # (== / != are left alone: `not a == b` calls __eq__, `a != b` calls __ne__ - different methods for user classes)
            if isinstance(n.op, ast.Not) and isinstance(n.operand, ast.Compare) and len(n.operand.ops) == 1 and \
                    type(n.operand.ops[0]) in (ast.Is, ast.IsNot, ast.In, ast.NotIn):
                return _negate(n.operand)
            return n
    T().visit(tree)


def _format_calls_to_fstrings(tree: ast.AST):
    """'a {} b {}'.format(x, y)  (auto-numbered plain fields, positional arguments only) is the f-string  f'a {x} b {y}'  """
    import string

    class T(ast.NodeTransformer):
        def visit_Call(self, n):
            self.generic_visit(n)
            if isinstance(n.func, ast.Attribute) and n.func.attr == "format" and isinstance(n.func.value, ast.Constant) and isinstance(n.func.value.value, str) \
                    and not n.keywords and not any(isinstance(a, ast.Starred) for a in n.args):
                try:
                    parts = list(string.Formatter().parse(n.func.value.value))
                except ValueError:
                    return n
                fields = [p for p in parts if p[1] is not None]
                if len(fields) != len(n.args) or any(p[1] != "" or p[2] or p[3] for p in fields):
                    return n
                values, k = [], 0
                for lit, fld, spec, conv in parts:
                    if lit:
                        values.append(ast.Constant(value=lit))
                    if fld is not None:
                        values.append(ast.FormattedValue(value=n.args[k], conversion=-1, format_spec=None))
                        k += 1
                return ast.copy_location(ast.JoinedStr(values=values), n)
            return n
    T().visit(tree)


def _hoist_package_imports(tree: ast.AST):
    """`from .module import Name` statements at the top level of a function body (the package's way around circular imports) are moved to
    the start of the function: they only bind names, and sitting between two statements they kept `t = E` apart from its use"""
    for fn in [n for n in ast.walk(tree) if isinstance(n, (ast.FunctionDef, ast.AsyncFunctionDef))]:
        imps = [s for s in fn.body if isinstance(s, ast.ImportFrom) and s.level > 0]
        if not imps:
            continue
        bound = {(a.asname or a.name) for s in imps for a in s.names}
        first_use = None
        for k, s in enumerate(fn.body):
            if s in imps:
                continue
            if any(isinstance(x, ast.Name) and x.id in bound for x in ast.walk(s)):
                first_use = k
                break
        # moving an import before statements that do not mention its names cannot be observed by this function
        rest = [s for s in fn.body if s not in imps]
        doc = rest[:1] if rest and isinstance(rest[0], ast.Expr) and isinstance(rest[0].value, ast.Constant) and isinstance(rest[0].value.value, str) else []
        fn.body = doc + imps + rest[len(doc):]


def record_classes(trees) -> Dict[str, List[str]]:
    """immutable record classes of the package: NamedTuple subclasses (class syntax) -> their fields in order"""
    out: Dict[str, List[str]] = {}
    for t in trees:
        for c in [n for n in ast.walk(t) if isinstance(n, ast.ClassDef)]:
            if any(ast.unparse(b).split(".")[-1] == "NamedTuple" for b in c.bases):
                out[c.name] = [s.target.id for s in c.body if isinstance(s, ast.AnnAssign) and isinstance(s.target, ast.Name)]
    return out


def _scalar_replace_records(tree: ast.AST, records: Dict[str, List[str]]):
    """`t = Record(a, b=c)` (an immutable record of the package built from plain names / constants) whose every use is a field read `t.f`:
    the field reads are the arguments themselves, the record disappears (a tuple that only carries values between two steps)"""
    import copy as _copy
    if not records:
        return
    for fn in [n for n in ast.walk(tree) if isinstance(n, (ast.FunctionDef, ast.AsyncFunctionDef))]:
        for _round in range(4):
            done = False
            for node in ast.walk(fn):
                for fld in ("body", "orelse", "finalbody"):
                    blk = getattr(node, fld, None)
                    if not isinstance(blk, list) or not blk or not isinstance(blk[0], ast.stmt):
                        continue
                    for k, st in enumerate(blk):
                        if not (isinstance(st, ast.Assign) and len(st.targets) == 1 and isinstance(st.targets[0], ast.Name) and isinstance(st.value, ast.Call)
                                and isinstance(st.value.func, ast.Name) and st.value.func.id in records):
                            continue
                        t = st.targets[0].id
                        fields = records[st.value.func.id]
                        call = st.value
                        if any(isinstance(a, ast.Starred) for a in call.args) or any(kw.arg is None for kw in call.keywords) or len(call.args) > len(fields):
                            continue
                        bound = dict(zip(fields, call.args))
                        bound.update({kw.arg: kw.value for kw in call.keywords})
                        if set(bound) != set(fields) or not all(isinstance(v, (ast.Name, ast.Constant)) for v in bound.values()):
                            continue
                        stores = sum(1 for x in ast.walk(fn) if isinstance(x, ast.Name) and x.id == t and isinstance(x.ctx, (ast.Store, ast.Del)))
                        if stores != 1:
                            continue
                        rest = blk[k + 1:]
                        inside = {id(x) for s in rest for x in ast.walk(s)}
                        uses = [x for x in ast.walk(fn) if isinstance(x, ast.Name) and x.id == t and isinstance(x.ctx, ast.Load)]
                        attr_uses = [x for x in ast.walk(fn) if isinstance(x, ast.Attribute) and isinstance(x.value, ast.Name) and x.value.id == t and
                                     isinstance(x.ctx, ast.Load) and x.attr in fields]
                        if not uses or len(uses) != len(attr_uses) or any(id(x) not in inside for x in uses):
                            continue
                        arg_names = {v.id for v in bound.values() if isinstance(v, ast.Name)}
                        if arg_names & _stored_names(rest):
                            continue

                        class R(ast.NodeTransformer):
                            def visit_Attribute(self, n):
                                self.generic_visit(n)
                                if isinstance(n.value, ast.Name) and n.value.id == t and isinstance(n.ctx, ast.Load) and n.attr in bound:
                                    return ast.copy_location(_copy.deepcopy(bound[n.attr]), n)
                                return n
                        for s in rest:
                            R().visit(s)
                        del blk[k]
                        if not blk:
                            blk.append(ast.copy_location(ast.Pass(), st))
                        done = True
                        break
                    if done:
                        break
                if done:
                    break
            if not done:
                break
    ast.fix_missing_locations(tree)


def _fold_constants(tree: ast.AST):
    """`A if True else B` -> A, `if True: S else: T` -> S, `not True` -> False (constants appear when a helper called with a literal
    flag is inlined)"""
    class T(ast.NodeTransformer):
        def visit_UnaryOp(self, n):
            self.generic_visit(n)
            if isinstance(n.op, ast.Not) and isinstance(n.operand, ast.Constant) and isinstance(n.operand.value, bool):
                return ast.copy_location(ast.Constant(value=not n.operand.value), n)
            return n

        def visit_Compare(self, n):
            self.generic_visit(n)
            if len(n.ops) != 1 or not isinstance(n.left, ast.Constant) or not isinstance(n.comparators[0], ast.Constant):
                return n
            a, b, op = n.left.value, n.comparators[0].value, n.ops[0]
            simple = lambda v: v is None or type(v) in (int, float, str, bool)
            if not (simple(a) and simple(b)):
                return n
            if isinstance(op, (ast.Is, ast.IsNot)):
                if a is not None and b is not None:
                    return n          # identity of two non-None literals is the implementation's business
                r = (a is b) if isinstance(op, ast.Is) else (a is not b)
            elif isinstance(op, (ast.Eq, ast.NotEq)):
                r = (a == b) if isinstance(op, ast.Eq) else (a != b)
            elif isinstance(op, (ast.Lt, ast.LtE, ast.Gt, ast.GtE)) and type(a) in (int, float) and type(b) in (int, float):
                r = {ast.Lt: a < b, ast.LtE: a <= b, ast.Gt: a > b, ast.GtE: a >= b}[type(op)]
            else:
                return n
            return ast.copy_location(ast.Constant(value=bool(r)), n)

        def visit_IfExp(self, n):
            self.generic_visit(n)
            if isinstance(n.test, ast.Constant) and isinstance(n.test.value, bool):
                return n.body if n.test.value else n.orelse
            return n

        def visit_If(self, n):
            self.generic_visit(n)
            if isinstance(n.test, ast.Constant) and isinstance(n.test.value, bool):
                blk = n.body if n.test.value else n.orelse
                return blk if blk else ast.copy_location(ast.Pass(), n)
            return n
    T().visit(tree)


def _propagate_module_constants(tree: ast.Module) -> int:
    """a module-level name bound exactly once, to a number / string / None / bool literal, never declared global in a function: its reads
    inside the module's functions are the literal itself (named constants and magic numbers are the same program)"""
    import copy as _copy
    def literal(v):
        if isinstance(v, ast.Constant) and (v.value is None or isinstance(v.value, (int, float, str, bool))):
            return True
        if isinstance(v, ast.UnaryOp) and isinstance(v.op, ast.USub) and isinstance(v.operand, ast.Constant) and isinstance(v.operand.value, (int, float)):
            return True
        return isinstance(v, ast.Tuple) and bool(v.elts) and all(literal(e) for e in v.elts)        # a tuple of literals is as immutable as they are
    binds: Dict[str, List[ast.AST]] = {}
    for s in tree.body:
        for n in ast.walk(s) if not isinstance(s, (ast.FunctionDef, ast.AsyncFunctionDef, ast.ClassDef)) else []:
            if isinstance(n, ast.Name) and isinstance(n.ctx, (ast.Store, ast.Del)):
                binds.setdefault(n.id, []).append(s)
        if isinstance(s, (ast.FunctionDef, ast.AsyncFunctionDef, ast.ClassDef)):
            binds.setdefault(s.name, []).append(s)
        if isinstance(s, (ast.Import, ast.ImportFrom)):
            for al in s.names:
                binds.setdefault((al.asname or al.name).split(".")[0], []).append(s)
    consts = {}
    for nm, ss in binds.items():
        if len(ss) == 1 and isinstance(ss[0], ast.Assign) and len(ss[0].targets) == 1 and isinstance(ss[0].targets[0], ast.Name) and literal(ss[0].value):
            consts[nm] = ss[0].value
        elif len(ss) == 1 and isinstance(ss[0], ast.AnnAssign) and isinstance(ss[0].target, ast.Name) and ss[0].value is not None and literal(ss[0].value):
            consts[nm] = ss[0].value
    for n in ast.walk(tree):
        if isinstance(n, (ast.Global, ast.Nonlocal)):
            for nm in n.names:
                consts.pop(nm, None)
    if not consts:
        return 0
    count = 0
    # module-level statements after the definition (option tables, derived constants) read the literal as well
    seen_defs = set()
    for s in tree.body:
        if isinstance(s, (ast.FunctionDef, ast.AsyncFunctionDef, ast.ClassDef)):
            continue
        defined_here = {t.id for t in (s.targets if isinstance(s, ast.Assign) else [s.target] if isinstance(s, ast.AnnAssign) else []) if isinstance(t, ast.Name)}
        avail = seen_defs - defined_here

        class TM(ast.NodeTransformer):
            def visit_Name(self, n):
                nonlocal count
                if isinstance(n.ctx, ast.Load) and n.id in consts and n.id in avail:
                    count += 1
                    return ast.copy_location(_copy.deepcopy(consts[n.id]), n)
                return n

            def visit_Lambda(self, n):
                return n
        if avail:
            if isinstance(s, ast.Assign):
                s.value = TM().visit(s.value)
            elif isinstance(s, ast.AnnAssign) and s.value is not None:
                s.value = TM().visit(s.value)
            elif isinstance(s, ast.Expr):
                s.value = TM().visit(s.value)
        seen_defs |= {nm for nm in defined_here if nm in consts}
    for fn in [n for n in ast.walk(tree) if isinstance(n, (ast.FunctionDef, ast.AsyncFunctionDef))]:
        local = {x.id for x in ast.walk(fn) if isinstance(x, ast.Name) and isinstance(x.ctx, (ast.Store, ast.Del))}
        a_ = fn.args
        local |= {x.arg for x in a_.args + a_.kwonlyargs + a_.posonlyargs} | ({a_.vararg.arg} if a_.vararg else set()) | ({a_.kwarg.arg} if a_.kwarg else set())

        class T(ast.NodeTransformer):
            def visit_Name(self, n):
                nonlocal count
                if isinstance(n.ctx, ast.Load) and n.id in consts and n.id not in local:
                    count += 1
                    return ast.copy_location(_copy.deepcopy(consts[n.id]), n)
                return n
        fn.body = [T().visit(s) for s in fn.body]
    return count


def _canonical_comparisons(tree: ast.AST):
    """single comparisons with <, <=, >, >=, ==, != get a canonical operand order (complex expression left, constant right, ties by text),
    so that `a < b` and `b > a` are the same construct for every rule.  Comparisons with None and chained comparisons are left alone."""
    for n in ast.walk(tree):
        if isinstance(n, ast.Compare) and len(n.ops) == 1 and type(n.ops[0]) in _FLIP:
            l, r = n.left, n.comparators[0]
            if any(isinstance(x, ast.Constant) and x.value is None for x in (l, r)):
                continue
            if _cmp_key(l) > _cmp_key(r):
                n.left, n.comparators, n.ops = r, [l], [_FLIP[type(n.ops[0])]()]


def _names_in(n: ast.AST):
    return {x.id for x in ast.walk(n) if isinstance(x, ast.Name)}


def _canonical_statements(tree: ast.AST):
    """statement-level canonical forms inside functions (all are pure re-spellings):
       x = x op y                      ->  x op= y
       v = E ; return v                ->  return E            (v a plain local used nowhere else)
       x = [] ; for t in it: x.append(e)  ->  x = [e for t in it]   (x not used in e / it)
       if c: ...return|raise|continue|break  else: B   ->   if c: ...   followed by B"""
    import copy as _copy
    for fn in [n for n in ast.walk(tree) if isinstance(n, (ast.FunctionDef, ast.AsyncFunctionDef))]:
        captured = set()       # names read by nested functions / lambdas (their value may be observed later)
        for sub in ast.walk(fn):
            if sub is not fn and isinstance(sub, (ast.FunctionDef, ast.AsyncFunctionDef, ast.Lambda)):
                captured |= _names_in(sub)
        for _round in range(3):
            for node in ast.walk(fn):
                for fld in ("body", "orelse", "finalbody"):
                    blk = getattr(node, fld, None)
                    if not isinstance(blk, list) or not blk or not isinstance(blk[0], ast.stmt):
                        continue
                    out: List[ast.stmt] = []
                    i = 0
                    while i < len(blk):
                        st = blk[i]
                        nxt = blk[i + 1] if i + 1 < len(blk) else None
                        # i = 0 ; while i < N: ... ; i += 1   [; if i == N: S]     ->   for i in range(N): ...  [else: S]
                        r = _counting_while(fn, blk, i)
                        if r is not None:
                            new_stmts, consumed = r
                            out.extend(new_stmts)
                            i += consumed
                            continue
                        # for k in range(len(X)): v = X[k] ; ...      ->   for k, v in enumerate(X): ...
                        if isinstance(st, ast.For):
                            un = _unroll_literal_loop(fn, st)
                            if un is not None:
                                out.extend(un)
                                i += 1
                                continue
                            _index_loop_to_enumerate(fn, st)
                            _enumerate_to_index_loop(st)
                        # x = x op y
                        if isinstance(st, ast.Assign) and len(st.targets) == 1 and isinstance(st.value, ast.BinOp) and \
                                isinstance(st.targets[0], (ast.Name, ast.Subscript, ast.Attribute)) and \
                                ast.dump(_as_load(st.targets[0])) == ast.dump(st.value.left) and getattr(st, "ann", None) is None:
                            # one node shape for `x = x op y` and `x op= y`; the mark keeps what differs between them: the plain form binds a
                            # new object, it never updates in place the object x referred to (pgstat/flow.py reads the mark)
                            aug = ast.copy_location(ast.AugAssign(target=st.targets[0], op=st.value.op, value=st.value.right), st)
                            aug.rebinds = True
                            out.append(aug)
                            i += 1
                            continue
                        # v = E ; return v
                        if isinstance(st, ast.Assign) and len(st.targets) == 1 and isinstance(st.targets[0], ast.Name) and isinstance(nxt, ast.Return) \
                                and isinstance(nxt.value, ast.Name) and nxt.value.id == st.targets[0].id and st.targets[0].id not in captured \
                                and getattr(st, "ann", None) is None:
                            out.append(ast.copy_location(ast.Return(value=st.value), nxt))
                            i += 2
                            continue
                        # x = [] / list() / set() ; nest of for / if / guard-continue ending in x.append(e) / x.add(e)   ->  comprehension
                        comp = _collecting_nest(st, nxt)
                        if comp is not None and _loop_targets_dead_outside(fn, nxt):
                            out.append(comp)
                            i += 2
                            continue
                        # x = [] ; for t in it: x.append(e)
                        if isinstance(st, ast.Assign) and len(st.targets) == 1 and isinstance(st.targets[0], ast.Name) and isinstance(st.value, ast.List) \
                                and not st.value.elts and isinstance(nxt, ast.For) and not nxt.orelse and len(nxt.body) == 1 and \
                                isinstance(nxt.body[0], ast.Expr) and isinstance(nxt.body[0].value, ast.Call) and \
                                isinstance(nxt.body[0].value.func, ast.Attribute) and nxt.body[0].value.func.attr == "append" and \
                                isinstance(nxt.body[0].value.func.value, ast.Name) and nxt.body[0].value.func.value.id == st.targets[0].id and \
                                len(nxt.body[0].value.args) == 1 and not nxt.body[0].value.keywords:
                            x = st.targets[0].id
                            e = nxt.body[0].value.args[0]
                            if x not in _names_in(e) and x not in _names_in(nxt.iter) and x not in _names_in(nxt.target) and _loop_targets_dead_outside(fn, nxt):
                                comp = ast.ListComp(elt=e, generators=[ast.comprehension(target=nxt.target, iter=nxt.iter, ifs=[], is_async=0)])
                                out.append(ast.copy_location(ast.Assign(targets=[st.targets[0]], value=ast.copy_location(comp, nxt)), st))
                                i += 2
                                continue
                        # a, b = x, y   ->  a = x ; b = y     (plain names on both sides, no target read on the right: no swap)
                        if isinstance(st, ast.Assign) and len(st.targets) == 1 and isinstance(st.targets[0], ast.Tuple) and \
                                isinstance(st.value, ast.Tuple) and len(st.targets[0].elts) == len(st.value.elts) and \
                                all(isinstance(t, ast.Name) for t in st.targets[0].elts) and \
                                all(_plain_read(v) for v in st.value.elts) and \
                                not ({t.id for t in st.targets[0].elts} & {x.id for v in st.value.elts for x in ast.walk(v) if isinstance(x, ast.Name)}) and \
                                len({t.id for t in st.targets[0].elts}) == len(st.targets[0].elts):
                            for t, v in zip(st.targets[0].elts, st.value.elts):
                                out.append(ast.copy_location(ast.Assign(targets=[t], value=v), st))
                            i += 1
                            continue
                        # a = b = v   ->  a = v ; b = v      (v a plain name / constant that no target rebinds)
                        if isinstance(st, ast.Assign) and len(st.targets) > 1 and isinstance(st.value, (ast.Name, ast.Constant)) and \
                                not (isinstance(st.value, ast.Name) and any(isinstance(x, ast.Name) and x.id == st.value.id and isinstance(x.ctx, ast.Store)
                                                                            for t in st.targets for x in ast.walk(t))):
                            for t in st.targets:
                                out.append(ast.copy_location(ast.Assign(targets=[t], value=_copy.deepcopy(st.value)), st))
                            i += 1
                            continue
                        # o.f, o.g = E1, E2   ->  o.f = E1 ; o.g = E2    (targets: names / fields of names; values pure and not reading any target)
                        if isinstance(st, ast.Assign) and len(st.targets) == 1 and isinstance(st.targets[0], ast.Tuple) and \
                                isinstance(st.value, ast.Tuple) and len(st.targets[0].elts) == len(st.value.elts) and \
                                all(_plain_read(t) and not isinstance(t, ast.Constant) for t in st.targets[0].elts) and \
                                all(_pure_expr(v) for v in st.value.elts):
                            ttxt = [ast.unparse(t) for t in st.targets[0].elts]
                            tnames = {t.id for t in st.targets[0].elts if isinstance(t, ast.Name)}
                            reads = {ast.unparse(x) for v in st.value.elts for x in ast.walk(v) if isinstance(x, (ast.Name, ast.Attribute))}
                            if len(set(ttxt)) == len(ttxt) and not (set(ttxt) & reads) and not (tnames & {n for v in st.value.elts for n in _names_in(v)}):
                                for t, v in zip(st.targets[0].elts, st.value.elts):
                                    out.append(ast.copy_location(ast.Assign(targets=[t], value=v), st))
                                i += 1
                                continue
                        # a, b = E1, E2   ->  a = E1 ; b = E2    (plain local targets; no later value reads an earlier target: the values are
                        # still evaluated in the same order, and binding a local between two evaluations is not observable)
                        if isinstance(st, ast.Assign) and len(st.targets) == 1 and isinstance(st.targets[0], ast.Tuple) and \
                                isinstance(st.value, ast.Tuple) and len(st.targets[0].elts) == len(st.value.elts) and \
                                all(isinstance(t, ast.Name) for t in st.targets[0].elts) and \
                                len({t.id for t in st.targets[0].elts}) == len(st.targets[0].elts) and \
                                not any(isinstance(x, (ast.Lambda, ast.NamedExpr, ast.Starred)) for v in st.value.elts for x in ast.walk(v)) and \
                                all(not ({t.id for t in st.targets[0].elts[:j]} & _names_in(v)) for j, v in enumerate(st.value.elts)):
                            for t, v in zip(st.targets[0].elts, st.value.elts):
                                out.append(ast.copy_location(ast.Assign(targets=[t], value=v), st))
                            i += 1
                            continue
                        # x = x  (left behind by inlining)
                        if isinstance(st, ast.Assign) and len(st.targets) == 1 and isinstance(st.targets[0], ast.Name) and \
                                isinstance(st.value, ast.Name) and st.value.id == st.targets[0].id:
                            i += 1
                            continue
                        # T = A if C else B   /   return A if C else B      ->  statement form
                        if isinstance(st, ast.Assign) and len(st.targets) == 1 and isinstance(st.value, ast.IfExp) and getattr(st, "ann", None) is None:
                            a1 = ast.copy_location(ast.Assign(targets=[_copy.deepcopy(st.targets[0])], value=st.value.body), st)
                            a2 = ast.copy_location(ast.Assign(targets=[_copy.deepcopy(st.targets[0])], value=st.value.orelse), st)
                            out.append(ast.copy_location(ast.If(test=st.value.test, body=[a1], orelse=[a2]), st))
                            i += 1
                            continue
                        # return [not] any(C for t in it) / all(C for t in it)   ->   for t in it: if [not] C: return <const> ; return <other const>
                        # (a function that consists of that one return keeps the expression form: it is already as simple as it gets)
                        q = _quantifier_return(st) if not (node is fn and len([x for x in blk if not _is_inert(x)]) == 1) else None
                        if q is not None:
                            out.extend(q)
                            i += 1
                            continue
                        if isinstance(st, ast.Return) and isinstance(st.value, ast.IfExp):
                            r1 = ast.copy_location(ast.Return(value=st.value.body), st)
                            r2 = ast.copy_location(ast.Return(value=st.value.orelse), st)
                            out.append(ast.copy_location(ast.If(test=st.value.test, body=[r1], orelse=[]), st))
                            out.append(r2)
                            i += 1
                            continue
                        # if not C: A else: B  ->  if C: B else: A ;  `is not` / `not in` tests likewise (two real branches, not an elif chain)
                        if isinstance(st, ast.If) and st.orelse and st.body and not (len(st.orelse) == 1 and isinstance(st.orelse[0], ast.If)) and \
                                not all(isinstance(x, ast.Pass) for x in st.body) and \
                                not (isinstance(st.body[-1], (ast.Return, ast.Raise, ast.Continue, ast.Break))):
                            t_ = st.test
                            flip = None
                            if isinstance(t_, ast.UnaryOp) and isinstance(t_.op, ast.Not):
                                flip = t_.operand
                            elif isinstance(t_, ast.Compare) and len(t_.ops) == 1 and isinstance(t_.ops[0], (ast.IsNot, ast.NotIn)):
                                flip = _negate(t_)
                            if flip is not None:
                                st.test, st.body, st.orelse = flip, st.orelse, st.body
                        # if not C: return A ; return B   (end of block)   ->   if C: return B ; return A
                        if isinstance(st, ast.If) and not st.orelse and len(st.body) == 1 and isinstance(st.body[0], ast.Return) and \
                                isinstance(nxt, ast.Return) and i + 2 == len(blk):
                            t_ = st.test
                            flip = None
                            if isinstance(t_, ast.UnaryOp) and isinstance(t_.op, ast.Not):
                                flip = t_.operand
                            elif isinstance(t_, ast.Compare) and len(t_.ops) == 1 and isinstance(t_.ops[0], (ast.IsNot, ast.NotIn)):
                                flip = _negate(t_)
                            if flip is not None:
                                st.test = flip
                                st.body[0], blk[i + 1] = blk[i + 1], st.body[0]
                                nxt = blk[i + 1]
                        # if C: pass else: B   ->   if not C: B
                        if isinstance(st, ast.If) and st.orelse and all(isinstance(x, ast.Pass) for x in st.body):
                            st.test, st.body, st.orelse = _negate(st.test), st.orelse, []
                            out.append(st)
                            i += 1
                            continue
                        # else after a terminating body
                        if isinstance(st, ast.If) and st.orelse and st.body and isinstance(st.body[-1], (ast.Return, ast.Raise, ast.Continue, ast.Break)):
                            rest = st.orelse
                            st.orelse = []
                            out.append(st)
                            out.extend(rest)
                            i += 1
                            continue
                        out.append(st)
                        i += 1
                    setattr(node, fld, out)
    ast.fix_missing_locations(tree)


def _eliminate_aliases(tree: ast.AST):
    """`a = b` between two plain locals that are each bound exactly once, with b's binding outside any loop (or in the same block as the
    alias): a and b always hold the same value wherever a is defined, so a is replaced by b and the assignment dropped."""
    for fn in [n for n in ast.walk(tree) if isinstance(n, (ast.FunctionDef, ast.AsyncFunctionDef))]:
        a_ = fn.args
        params = {x.arg for x in a_.args + a_.kwonlyargs + a_.posonlyargs} | ({a_.vararg.arg} if a_.vararg else set()) | ({a_.kwarg.arg} if a_.kwarg else set())
        for _round in range(4):
            stores: Dict[str, int] = {}
            nested_names = set()
            for n in ast.walk(fn):
                if n is not fn and isinstance(n, (ast.FunctionDef, ast.AsyncFunctionDef, ast.Lambda, ast.ClassDef)):
                    nested_names |= _names_in(n)
                if isinstance(n, ast.Name) and isinstance(n.ctx, (ast.Store, ast.Del)):
                    stores[n.id] = stores.get(n.id, 0) + 1
                elif isinstance(n, (ast.Global, ast.Nonlocal)):
                    for nm in n.names:
                        stores[nm] = 99
                elif isinstance(n, ast.ExceptHandler) and n.name:
                    stores[n.name] = stores.get(n.name, 0) + 1
                elif isinstance(n, (ast.Import, ast.ImportFrom)):
                    for al in n.names:
                        nm = (al.asname or al.name).split(".")[0]
                        stores[nm] = stores.get(nm, 0) + 1
            # block and loop depth of every plain `name = value` statement
            where: Dict[str, Tuple[int, bool]] = {}      # name -> (id of block list, inside a loop)

            def scan(blk, in_loop):
                for st in blk:
                    if isinstance(st, ast.Assign) and len(st.targets) == 1 and isinstance(st.targets[0], ast.Name):
                        where.setdefault(st.targets[0].id, (id(blk), in_loop))
                    if isinstance(st, (ast.FunctionDef, ast.AsyncFunctionDef, ast.ClassDef)):
                        continue
                    for fld in ("body", "orelse", "finalbody"):
                        sub = getattr(st, fld, None)
                        if isinstance(sub, list) and sub and isinstance(sub[0], ast.stmt):
                            scan(sub, in_loop or isinstance(st, (ast.For, ast.While, ast.AsyncFor)))
                    for h in getattr(st, "handlers", []) or []:
                        scan(h.body, in_loop)
            scan(fn.body, False)
            found = None
            for node in ast.walk(fn):
                for fld in ("body", "orelse", "finalbody"):
                    blk = getattr(node, fld, None)
                    if not isinstance(blk, list) or not blk or not isinstance(blk[0], ast.stmt):
                        continue
                    for st in blk:
                        if isinstance(st, ast.Assign) and len(st.targets) == 1 and isinstance(st.targets[0], ast.Name) and isinstance(st.value, ast.Name) \
                                and getattr(st, "ann", None) is None:
                            a, b = st.targets[0].id, st.value.id
                            if a == b or a in params or b in params or stores.get(a) != 1 or stores.get(b) != 1 or a in nested_names or b in nested_names:
                                continue
                            if b not in where:
                                continue
                            b_blk, b_loop = where[b]
                            if b_loop and b_blk != id(blk):
                                continue
                            found = (blk, st, a, b)
                            break
                    if found:
                        break
                if found:
                    break
            if not found:
                break
            blk, st, a, b = found
            blk.remove(st)
            if not blk:
                blk.append(ast.copy_location(ast.Pass(), st))
            for n in ast.walk(fn):
                if isinstance(n, ast.Name) and n.id == a:
                    n.id = b


def package_signatures(trees) -> Dict[str, List[str]]:
    """method / function name -> positional parameter names (receiver dropped), for the names whose every definition in the package has the
    same parameter list (so a call by that name binds its keywords the same way whichever definition it reaches)"""
    sigs: Dict[str, Optional[List[str]]] = {}
    for t in trees:
        for cls in [None] + [c for c in ast.walk(t) if isinstance(c, ast.ClassDef)]:
            body = t.body if cls is None else cls.body
            for s in body:
                if not isinstance(s, ast.FunctionDef):
                    continue
                a = s.args
                decos = {ast.unparse(d).split(".")[-1].split("(")[0] for d in s.decorator_list}
                if a.vararg or a.kwarg or a.posonlyargs or "property" in decos or "setter" in decos or "cached_property" in decos:
                    sigs[s.name] = None
                    continue
                ps = [x.arg for x in a.args]
                if cls is not None and "staticmethod" not in decos and ps:
                    ps = ps[1:]
                if s.name in sigs and sigs[s.name] != ps:
                    sigs[s.name] = None
                else:
                    sigs.setdefault(s.name, ps)
    return {k: v for k, v in sigs.items() if v}


def _keywords_to_positional(tree: ast.AST, sigs: Dict[str, List[str]]):
    """`obj.m(a, c=z, b=y)` -> `obj.m(a, y, z)` for a method / function name the package defines with one parameter list: keyword arguments
    are moved into their positional slots as far as that leaves no gap (evaluation order of the argument expressions is kept only when the
    keywords already come in parameter order - otherwise the call is left alone).  By name: constructors (`__init__` through the class name)
    and `super().__init__` are not touched here (bound_args handles them)."""
    for c in [c for c in ast.walk(tree) if isinstance(c, ast.Call)]:
        if not c.keywords or any(k.arg is None for k in c.keywords) or any(isinstance(a, ast.Starred) for a in c.args):
            continue
        name = c.func.attr if isinstance(c.func, ast.Attribute) else (c.func.id if isinstance(c.func, ast.Name) else None)
        ps = sigs.get(name) if name and not name.startswith("__") else None
        if not ps or len(c.args) > len(ps):
            continue
        kws = [k.arg for k in c.keywords]
        if any(k not in ps for k in kws) or any(k in ps[:len(c.args)] for k in kws):
            continue
        # keywords must already be in parameter order (argument expressions keep their evaluation order)
        if [ps.index(k) for k in kws] != sorted(ps.index(k) for k in kws):
            continue
        moved = 0
        while c.keywords and len(c.args) < len(ps) and c.keywords[0].arg == ps[len(c.args)]:
            c.args.append(c.keywords.pop(0).value)
            moved += 1


_MAPPING_FIELDS = ("_annotations",)       # record fields known to hold a mapping (annotator -> units)


def _keys_loops_to_items(tree: ast.AST):
    """`for k in E:` / `for k in E.keys():` over a mapping-valued record field E, k a plain name the body does not rebind, E neither stored into, deleted
    from, called on, nor handed to a call inside the body: each `E[k]` read in the body is the value the mapping pairs with k, which is what
    `for k, k__value in E.items():` binds.  Rewritten to the items form with `E[k]` replaced."""
    for fn in [n for n in ast.walk(tree) if isinstance(n, (ast.FunctionDef, ast.AsyncFunctionDef))]:
        for loop in [n for n in ast.walk(fn) if isinstance(n, ast.For)]:
            it = loop.iter
            E = it.func.value if isinstance(it, ast.Call) and isinstance(it.func, ast.Attribute) and it.func.attr == "keys" and not it.args and not it.keywords else it
            if not (isinstance(E, ast.Attribute) and E.attr in _MAPPING_FIELDS and isinstance(loop.target, ast.Name)):
                continue
            k, etxt = loop.target.id, ast.unparse(E)
            body = [x for b in loop.body for x in ast.walk(b)]
            if any(isinstance(x, ast.Name) and x.id == k and not isinstance(x.ctx, ast.Load) for x in body):
                continue
            reads, ok = [], True
            consumed = set()
            for x in body:
                if isinstance(x, ast.Subscript) and ast.unparse(x.value) == etxt:
                    if isinstance(x.ctx, ast.Load) and isinstance(x.slice, ast.Name) and x.slice.id == k:
                        reads.append(x)
                        consumed.add(id(x.value))
                    else:
                        ok = False
            for x in body:
                if isinstance(x, ast.Attribute) and ast.unparse(x) == etxt and id(x) not in consumed:
                    ok = False          # any other use of the mapping inside the body (a call on it, an argument, another subscript)
            if not ok or not reads:
                continue
            vname = f"{k}__value"
            if any(isinstance(x, ast.Name) and x.id == vname for x in ast.walk(fn)):
                continue
            for r in reads:
                r.__class__ = ast.Name
                r.__dict__.pop("value", None)
                r.__dict__.pop("slice", None)
                r.id = vname
                r.ctx = ast.Load()
            loop.iter = ast.copy_location(ast.Call(func=ast.Attribute(value=E, attr="items", ctx=ast.Load()), args=[], keywords=[]), it)
            loop.target = ast.copy_location(ast.Tuple(elts=[ast.Name(id=k, ctx=ast.Store()), ast.Name(id=vname, ctx=ast.Store())], ctx=ast.Store()), loop.target)
            ast.fix_missing_locations(loop)


def _flag_loops_to_for_else(tree: ast.AST):
    """`flag = <b>` immediately before a for / while loop without else, every `break` of that loop immediately preceded by `flag = <not b>` (and
    that assignment nowhere else), `if flag: S` (b True) / `if not flag: S` (b False) without else immediately after the loop, flag read nowhere
    else in the function: flag says "the loop ended without break", which is what the loop's else clause tests.  Rewritten to `loop ... else: S`."""
    for fn in [n for n in ast.walk(tree) if isinstance(n, (ast.FunctionDef, ast.AsyncFunctionDef))]:
        changed = True
        while changed:
            changed = False
            for node in ast.walk(fn):
                for fld in ("body", "orelse", "finalbody"):
                    blk = getattr(node, fld, None)
                    if not isinstance(blk, list) or len(blk) < 3 or not isinstance(blk[0], ast.stmt):
                        continue
                    for k in range(len(blk) - 2):
                        init, loop, after = blk[k], blk[k + 1], blk[k + 2]
                        if not (isinstance(init, ast.Assign) and len(init.targets) == 1 and isinstance(init.targets[0], ast.Name) and
                                isinstance(init.value, ast.Constant) and isinstance(init.value.value, bool) and
                                isinstance(loop, (ast.For, ast.While)) and not loop.orelse and isinstance(after, ast.If) and not after.orelse):
                            continue
                        flag, b = init.targets[0].id, init.value.value
                        t = after.test
                        if not ((b and isinstance(t, ast.Name) and t.id == flag) or
                                (not b and isinstance(t, ast.UnaryOp) and isinstance(t.op, ast.Not) and isinstance(t.operand, ast.Name) and t.operand.id == flag)):
                            continue
                        # every other occurrence of the flag in the function is a `flag = <not b>` inside this loop
                        occ = [x for x in ast.walk(fn) if isinstance(x, ast.Name) and x.id == flag]
                        inside = {id(x) for x in ast.walk(loop)}
                        allowed = {id(init.targets[0]), id(t if b else t.operand)}
                        sets = []

                        def scan(stmts, owner_ok):
                            # owner_ok: a break found here belongs to `loop`
                            ok = True
                            for i, st in enumerate(stmts):
                                if isinstance(st, ast.Break) and owner_ok:
                                    prev = stmts[i - 1] if i > 0 else None
                                    if not (isinstance(prev, ast.Assign) and len(prev.targets) == 1 and isinstance(prev.targets[0], ast.Name) and prev.targets[0].id == flag and
                                            isinstance(prev.value, ast.Constant) and prev.value.value is (not b)):
                                        ok = False
                                    else:
                                        sets.append(prev)
                                if isinstance(st, (ast.For, ast.While)):
                                    ok = scan(st.body, False) and scan(st.orelse, owner_ok) and ok
                                elif isinstance(st, (ast.FunctionDef, ast.AsyncFunctionDef, ast.ClassDef)):
                                    continue
                                else:
                                    for f2 in ("body", "orelse", "finalbody"):
                                        sub = getattr(st, f2, None)
                                        if isinstance(sub, list) and sub and isinstance(sub[0], ast.stmt):
                                            ok = scan(sub, owner_ok) and ok
                                    for h in getattr(st, "handlers", []) or []:
                                        ok = scan(h.body, owner_ok) and ok
                            return ok
                        if not scan(loop.body, True):
                            continue
                        allowed |= {id(s.targets[0]) for s in sets}
                        if any(id(x) not in allowed for x in occ):
                            continue
                        for s in sets:
                            for n2 in ast.walk(loop):
                                for f2 in ("body", "orelse", "finalbody"):
                                    sub = getattr(n2, f2, None)
                                    if isinstance(sub, list) and s in sub:
                                        sub.remove(s)
                                for h in getattr(n2, "handlers", []) or []:
                                    if s in h.body:
                                        h.body.remove(s)
                        loop.orelse = after.body
                        del blk[k + 2]
                        del blk[k]
                        changed = True
                        break
                    if changed:
                        break
                if changed:
                    break


def _function_refs_to_lambdas(tree: ast.AST):
    """a private module-level function that is one `return <expression>` over its positional parameters (no defaults, no decorator, bound once in
    the module) and is handed to a call *as an argument* (`filter(_pred, xs)`, `sorted(xs, key=_key)`) is the lambda with that body: the
    reference is replaced by the lambda (the definition stays).  Names the body reads are module-level names either way."""
    import copy as _copy
    if not isinstance(tree, ast.Module):
        return
    binds: Dict[str, int] = {}
    for s in tree.body:
        for n in ([s] if isinstance(s, (ast.FunctionDef, ast.AsyncFunctionDef, ast.ClassDef)) else ast.walk(s)):
            if isinstance(n, (ast.FunctionDef, ast.ClassDef)) and n is s:
                binds[n.name] = binds.get(n.name, 0) + 1
            elif isinstance(n, ast.Name) and isinstance(n.ctx, ast.Store):
                binds[n.id] = binds.get(n.id, 0) + 1
    simple: Dict[str, ast.Lambda] = {}
    for s in tree.body:
        if not (isinstance(s, ast.FunctionDef) and s.name.startswith("_") and not s.name.startswith("__") and not s.decorator_list and binds.get(s.name) == 1):
            continue
        a = s.args
        if a.vararg or a.kwarg or a.kwonlyargs or a.defaults or a.kw_defaults or a.posonlyargs:
            continue
        body = [x for x in s.body if not (isinstance(x, ast.Expr) and isinstance(x.value, ast.Constant))]
        if len(body) != 1 or not isinstance(body[0], ast.Return) or body[0].value is None:
            continue
        if any(isinstance(x, (ast.Yield, ast.YieldFrom, ast.Await, ast.NamedExpr, ast.Lambda)) for x in ast.walk(body[0].value)):
            continue
        simple[s.name] = ast.Lambda(args=ast.arguments(posonlyargs=[], args=[ast.arg(arg=p.arg) for p in a.args], vararg=None, kwonlyargs=[], kw_defaults=[],
                                                       kwarg=None, defaults=[]), body=body[0].value)
    if not simple:
        return
    for fn in [n for n in ast.walk(tree) if isinstance(n, (ast.FunctionDef, ast.AsyncFunctionDef))]:
        local = {x.id for x in ast.walk(fn) if isinstance(x, ast.Name) and isinstance(x.ctx, (ast.Store, ast.Del))} | {p.arg for p in fn.args.args + fn.args.kwonlyargs}
        for c in [c for c in ast.walk(fn) if isinstance(c, ast.Call)]:
            # only where the callable is applied element-wise by a builtin higher-order function (a job handed to an executor, a callback stored
            # somewhere keep their identity: rules reason about *which function* runs there)
            fname = dotted(c.func) or (c.func.attr if isinstance(c.func, ast.Attribute) else "")
            first_arg = fname in ("filter", "map", "functools.reduce", "reduce", "itertools.filterfalse", "itertools.takewhile", "itertools.dropwhile", "itertools.starmap")
            key_kw = fname in ("sorted", "min", "max", "itertools.groupby", "groupby", "SortedSet", "SortedList", "SortedDict") or \
                (isinstance(c.func, ast.Attribute) and c.func.attr == "sort")
            if first_arg and c.args and isinstance(c.args[0], ast.Name) and c.args[0].id in simple and c.args[0].id not in local and fn.name != c.args[0].id:
                c.args[0] = ast.copy_location(_copy.deepcopy(simple[c.args[0].id]), c.args[0])
            if key_kw:
                for k in c.keywords:
                    if k.arg == "key" and isinstance(k.value, ast.Name) and k.value.id in simple and k.value.id not in local and fn.name != k.value.id:
                        k.value = ast.copy_location(_copy.deepcopy(simple[k.value.id]), k.value)
    ast.fix_missing_locations(tree)


_HIGHER_ORDER_FIRST = ("filter", "map", "functools.reduce", "reduce", "itertools.filterfalse", "itertools.takewhile", "itertools.dropwhile", "itertools.starmap")


def _operator_getters_to_lambdas(tree: ast.AST):
    """`operator.itemgetter(<one constant>)` / `operator.attrgetter("<plain name>")` handed element-wise to a builtin higher-order function or as a
    sort key is `lambda x: x[c]` / `lambda x: x.name`.  The names must be the ones imported from `operator` in this module and bound nowhere else."""
    if not isinstance(tree, ast.Module):
        return
    getters: Dict[str, str] = {}       # local spelling -> itemgetter | attrgetter
    for s in tree.body:
        if isinstance(s, ast.ImportFrom) and s.module == "operator" and s.level == 0:
            for al in s.names:
                if al.name in ("itemgetter", "attrgetter"):
                    getters[al.asname or al.name] = al.name
        elif isinstance(s, ast.Import):
            for al in s.names:
                if al.name == "operator":
                    getters[f"{al.asname or al.name}.itemgetter"] = "itemgetter"
                    getters[f"{al.asname or al.name}.attrgetter"] = "attrgetter"
    if not getters:
        return
    stored = {x.id for x in ast.walk(tree) if isinstance(x, ast.Name) and isinstance(x.ctx, (ast.Store, ast.Del))} | \
        {a.arg for f in ast.walk(tree) if isinstance(f, (ast.FunctionDef, ast.AsyncFunctionDef, ast.Lambda)) for a in f.args.args + f.args.kwonlyargs}
    getters = {k: v for k, v in getters.items() if k.split(".")[0] not in stored}

    def as_lambda(e):
        if not (isinstance(e, ast.Call) and dotted(e.func) in getters and len(e.args) == 1 and not e.keywords and isinstance(e.args[0], ast.Constant)):
            return None
        c = e.args[0].value
        x = ast.Name(id="x__item", ctx=ast.Load())
        if getters[dotted(e.func)] == "itemgetter" and isinstance(c, (int, str)) and not isinstance(c, bool):
            body = ast.Subscript(value=x, slice=ast.Constant(value=c), ctx=ast.Load())
        elif getters[dotted(e.func)] == "attrgetter" and isinstance(c, str) and c.isidentifier():
            body = ast.Attribute(value=x, attr=c, ctx=ast.Load())
        else:
            return None
        return ast.copy_location(ast.Lambda(args=ast.arguments(posonlyargs=[], args=[ast.arg(arg="x__item")], vararg=None, kwonlyargs=[], kw_defaults=[], kwarg=None,
                                                               defaults=[]), body=body), e)
    for c in [c for c in ast.walk(tree) if isinstance(c, ast.Call)]:
        fname = dotted(c.func) or (c.func.attr if isinstance(c.func, ast.Attribute) else "")
        if fname in _HIGHER_ORDER_FIRST and c.args:
            lam = as_lambda(c.args[0])
            if lam is not None:
                c.args[0] = lam
        if fname in ("sorted", "min", "max", "itertools.groupby", "groupby", "SortedSet", "SortedList", "SortedDict") or (isinstance(c.func, ast.Attribute) and c.func.attr == "sort"):
            for k in c.keywords:
                if k.arg == "key":
                    lam = as_lambda(k.value)
                    if lam is not None:
                        k.value = lam
    ast.fix_missing_locations(tree)


def _mapped_generators(tree: ast.AST):
    """a comprehension generator `for v in map(lambda p: E, X)` with v a plain name, E a plain read of p (p, p[c], p.a, chains of those), one
    iterable: v is E(p) for each p of X in order, so the generator is written `for p in X` and v replaced by E in the conditions, the later
    generators and the element.  A `map(lambda p: E, X)` that is the sole argument of a call is the generator expression `(E for p in X)`."""
    import copy as _copy

    def plain(e, p):
        while isinstance(e, (ast.Subscript, ast.Attribute)):
            if isinstance(e, ast.Subscript) and not isinstance(e.slice, ast.Constant):
                return False
            e = e.value
        return isinstance(e, ast.Name) and e.id == p

    def simple_map(it):
        if not (isinstance(it, ast.Call) and isinstance(it.func, ast.Name) and it.func.id == "map" and len(it.args) == 2 and not it.keywords and
                isinstance(it.args[0], ast.Lambda)):
            return None
        lam = it.args[0]
        a = lam.args
        if len(a.args) != 1 or a.vararg or a.kwarg or a.kwonlyargs or a.defaults or a.posonlyargs or not plain(lam.body, a.args[0].arg):
            return None
        return a.args[0].arg, lam.body, it.args[1]
    for comp in [n for n in ast.walk(tree) if isinstance(n, (ast.ListComp, ast.SetComp, ast.GeneratorExp, ast.DictComp))]:
        for gi, g in enumerate(comp.generators):
            m = simple_map(g.iter)
            if m is None or not isinstance(g.target, ast.Name):
                continue
            p, body, X = m
            v = g.target.id
            others = {x.id for x in ast.walk(comp) if isinstance(x, ast.Name)} - {v}
            inside_lambda = {x.id for x in ast.walk(g.iter.args[0]) if isinstance(x, ast.Name)}
            if p in (others - inside_lambda) or p == v or any(isinstance(x, (ast.Lambda, ast.ListComp, ast.SetComp, ast.GeneratorExp, ast.DictComp)) and x is not comp and
                                                              v in {y.id for y in ast.walk(x) if isinstance(y, ast.Name)} and x is not g.iter.args[0] for x in ast.walk(comp)):
                continue

            class R(ast.NodeTransformer):
                def visit_Name(self, n):
                    if n.id == v and isinstance(n.ctx, ast.Load):
                        return ast.copy_location(_copy.deepcopy(body), n)
                    return n
            g.iter = X
            g.target = ast.copy_location(ast.Name(id=p, ctx=ast.Store()), g.target)
            g.ifs = [R().visit(c) for c in g.ifs]
            for g2 in comp.generators[gi + 1:]:
                g2.iter = R().visit(g2.iter)
                g2.ifs = [R().visit(c) for c in g2.ifs]
            if isinstance(comp, ast.DictComp):
                comp.key, comp.value = R().visit(comp.key), R().visit(comp.value)
            else:
                comp.elt = R().visit(comp.elt)
    for c in [c for c in ast.walk(tree) if isinstance(c, ast.Call)]:
        if len(c.args) == 1 and not c.keywords:
            m = simple_map(c.args[0])
            if m is not None:
                p, body, X = m
                c.args[0] = ast.copy_location(ast.GeneratorExp(elt=body, generators=[ast.comprehension(target=ast.Name(id=p, ctx=ast.Store()), iter=X, ifs=[], is_async=0)]), c.args[0])
    ast.fix_missing_locations(tree)


def _enumerate_start_to_zero(tree: ast.AST):
    """`for i, t in enumerate(X, c)` / `enumerate(X, start=c)` with c an int literal, i a plain name that the body does not rebind and nothing
    outside the loop reads: i is (position + c), so the loop is written over `enumerate(X)` with every read of i replaced by `i + c`."""
    for fn in [n for n in ast.walk(tree) if isinstance(n, (ast.FunctionDef, ast.AsyncFunctionDef))]:
        for loop in [n for n in ast.walk(fn) if isinstance(n, ast.For)]:
            it = loop.iter
            if not (isinstance(it, ast.Call) and isinstance(it.func, ast.Name) and it.func.id == "enumerate" and it.args and
                    isinstance(loop.target, ast.Tuple) and len(loop.target.elts) == 2 and isinstance(loop.target.elts[0], ast.Name)):
                continue
            start = it.args[1] if len(it.args) == 2 and not it.keywords else \
                it.keywords[0].value if len(it.args) == 1 and len(it.keywords) == 1 and it.keywords[0].arg == "start" else None
            if not (isinstance(start, ast.Constant) and type(start.value) is int and start.value != 0):
                continue
            i = loop.target.elts[0].id
            inside = {id(x) for b in loop.body for x in ast.walk(b)}
            # occurrences inside another loop / comprehension that binds the same name itself are that loop's own variable
            other = set()
            for L2 in ast.walk(fn):
                if L2 is loop:
                    continue
                if isinstance(L2, ast.For) and any(isinstance(x, ast.Name) and x.id == i for x in ast.walk(L2.target)) and not any(y is loop for y in ast.walk(L2)):
                    other |= {id(x) for x in ast.walk(L2)}
                elif isinstance(L2, (ast.ListComp, ast.SetComp, ast.DictComp, ast.GeneratorExp)) and \
                        any(isinstance(x, ast.Name) and x.id == i for g in L2.generators for x in ast.walk(g.target)):
                    other |= {id(x) for x in ast.walk(L2)}
            occ = [x for x in ast.walk(fn) if isinstance(x, ast.Name) and x.id == i and x is not loop.target.elts[0] and (id(x) not in other or id(x) in inside)]
            if any(id(x) not in inside or not isinstance(x.ctx, ast.Load) for x in occ) or i in {x.id for x in ast.walk(loop.target.elts[1]) if isinstance(x, ast.Name)}:
                continue
            if any(isinstance(x, (ast.Lambda, ast.FunctionDef)) for b in loop.body for x in ast.walk(b)):
                continue
            c = start.value

            class R(ast.NodeTransformer):
                def visit_Name(self, n):
                    if n.id == i and isinstance(n.ctx, ast.Load):
                        return ast.copy_location(ast.BinOp(left=ast.Name(id=i, ctx=ast.Load()), op=ast.Add(), right=ast.Constant(value=c)), n)
                    return n
            loop.body = [R().visit(b) for b in loop.body]
            loop.orelse = [b for b in loop.orelse]
            it.args = it.args[:1]
            it.keywords = []
    ast.fix_missing_locations(tree)


def _chained_generators(tree: ast.AST):
    """a comprehension generator `for T in itertools.chain.from_iterable(<E for v in X ...>)` walks, for each v of X in order, the elements of E in
    order: it is written as the generators `for v in X ... for T in E`.  A local bound once to such a chain and read only as the first iterable of a
    comprehension in the next statement (where a comprehension evaluates its first iterable at once) is replaced by the chain first."""
    if not isinstance(tree, ast.Module):
        return
    spell = set()
    for s in tree.body:
        if isinstance(s, ast.Import):
            spell |= {f"{al.asname or al.name}.chain.from_iterable" for al in s.names if al.name == "itertools"}
        elif isinstance(s, ast.ImportFrom) and s.module == "itertools" and s.level == 0:
            spell |= {f"{al.asname or al.name}.from_iterable" for al in s.names if al.name == "chain"}
    stored = {x.id for x in ast.walk(tree) if isinstance(x, ast.Name) and isinstance(x.ctx, (ast.Store, ast.Del))}
    spell = {sp for sp in spell if sp.split(".")[0] not in stored}
    if not spell:
        return

    def is_chain(e):
        return isinstance(e, ast.Call) and dotted(e.func) in spell and len(e.args) == 1 and not e.keywords and \
            isinstance(e.args[0], (ast.GeneratorExp, ast.ListComp)) and not any(isinstance(x, (ast.Yield, ast.Await, ast.NamedExpr)) for x in ast.walk(e))
    for fn in [n for n in ast.walk(tree) if isinstance(n, (ast.FunctionDef, ast.AsyncFunctionDef))]:
        for node in ast.walk(fn):
            for fld in ("body", "orelse", "finalbody"):
                blk = getattr(node, fld, None)
                if not isinstance(blk, list) or len(blk) < 2 or not isinstance(blk[0], ast.stmt):
                    continue
                k = 0
                while k + 1 < len(blk):
                    st, nxt = blk[k], blk[k + 1]
                    k += 1
                    if not (isinstance(st, ast.Assign) and len(st.targets) == 1 and isinstance(st.targets[0], ast.Name) and is_chain(st.value) and getattr(st, "ann", None) is None):
                        continue
                    t = st.targets[0].id
                    occ = [x for x in ast.walk(fn) if isinstance(x, ast.Name) and x.id == t and x is not st.targets[0]]
                    firsts = [c.generators[0] for c in ast.walk(nxt) if isinstance(c, (ast.ListComp, ast.SetComp, ast.GeneratorExp, ast.DictComp)) and
                              isinstance(c.generators[0].iter, ast.Name) and c.generators[0].iter.id == t]
                    if len(occ) != 1 or len(firsts) != 1 or not isinstance(nxt, (ast.Assign, ast.Return, ast.Expr)):
                        continue
                    # nothing may be evaluated between the two: the comprehension is the statement's value, or the only argument of the plain call that is
                    v_ = nxt.value
                    if isinstance(v_, ast.Call) and isinstance(v_.func, ast.Name) and len(v_.args) == 1 and not v_.keywords:
                        v_ = v_.args[0]
                    if not (isinstance(v_, (ast.ListComp, ast.SetComp, ast.GeneratorExp, ast.DictComp)) and v_.generators[0] is firsts[0]):
                        continue
                    firsts[0].iter = st.value
                    k -= 1
                    del blk[k]
    for comp in [n for n in ast.walk(tree) if isinstance(n, (ast.ListComp, ast.SetComp, ast.GeneratorExp, ast.DictComp))]:
        gi = 0
        while gi < len(comp.generators):
            g = comp.generators[gi]
            if is_chain(g.iter) and not g.is_async:
                inner = g.iter.args[0]
                bound_inner = {x.id for ig in inner.generators for x in ast.walk(ig.target) if isinstance(x, ast.Name)}
                others = {x.id for x in ast.walk(comp) if isinstance(x, ast.Name)} - {x.id for x in ast.walk(inner) if isinstance(x, ast.Name)}
                if not (bound_inner & others) and not (bound_inner & {x.id for x in ast.walk(g.target) if isinstance(x, ast.Name)}):
                    new_gens = list(inner.generators) + [ast.comprehension(target=g.target, iter=inner.elt, ifs=g.ifs, is_async=0)]
                    comp.generators[gi:gi + 1] = new_gens
                    gi += len(new_gens)
                    continue
            gi += 1
    ast.fix_missing_locations(tree)


def _lower_walrus(tree: ast.AST):
    """an assignment expression that is the first thing an `if` test evaluates, unconditionally - `if (x := E):`, `if (x := E) <cmp> ...:`,
    `if not (x := E):`, the first operand of an `and` / `or` chain - is the statement `x = E` followed by the test reading x.  When it leads the
    second operand of `A and W` in an `if` without else, it is `if A: x = E; if W: ...`.  (Other positions are left alone.)"""
    def leading(e):
        """(holder, field, index) of the NamedExpr evaluated first and unconditionally in e, or None"""
        if isinstance(e, ast.NamedExpr):
            return "self"
        if isinstance(e, ast.Compare) and isinstance(e.left, ast.NamedExpr):
            return (e, "left", None)
        if isinstance(e, ast.Compare):
            r = leading(e.left)
            return r if r not in (None, "self") else None
        if isinstance(e, ast.UnaryOp) and isinstance(e.op, ast.Not):
            r = leading(e.operand)
            return (e, "operand", None) if r == "self" else r
        if isinstance(e, ast.BoolOp):
            r = leading(e.values[0])
            return (e.values, None, 0) if r == "self" else r
        if isinstance(e, ast.Call) and isinstance(e.func, ast.Name) and e.args and not any(isinstance(a, ast.Starred) for a in e.args):
            r = leading(e.args[0])
            return (e.args, None, 0) if r == "self" else r
        return None

    def take(holder_of_test, test):
        """-> (assignment statement, new test) or None"""
        r = leading(test)
        if r is None:
            return None
        if r == "self":
            w = test
            new_test = ast.copy_location(ast.Name(id=w.target.id, ctx=ast.Load()), w)
        else:
            h, fld, idx = r
            w = h[idx] if fld is None else getattr(h, fld)
            rep = ast.copy_location(ast.Name(id=w.target.id, ctx=ast.Load()), w)
            if fld is None:
                h[idx] = rep
            else:
                setattr(h, fld, rep)
            new_test = test
        if any(isinstance(x, ast.NamedExpr) for x in ast.walk(w.value)):
            return None
        return ast.copy_location(ast.Assign(targets=[ast.Name(id=w.target.id, ctx=ast.Store())], value=w.value), holder_of_test), new_test
    for fn in [n for n in ast.walk(tree) if isinstance(n, (ast.FunctionDef, ast.AsyncFunctionDef))]:
        changed = True
        rounds = 0
        while changed and rounds < 20:
            changed = False
            rounds += 1
            for node in ast.walk(fn):
                for fld in ("body", "orelse", "finalbody"):
                    blk = getattr(node, fld, None)
                    if not isinstance(blk, list) or not blk or not isinstance(blk[0], ast.stmt):
                        continue
                    # an `elif` chain is an If nested alone in an orelse: a statement placed before it would run on that branch only, which is right
                    for k, st in enumerate(blk):
                        if not isinstance(st, ast.If) or not any(isinstance(x, ast.NamedExpr) for x in ast.walk(st.test)):
                            continue
                        got = take(st, st.test)
                        if got is not None:
                            asg, st.test = got
                            blk.insert(k, asg)
                            changed = True
                            break
                        t = st.test
                        if isinstance(t, ast.BoolOp) and isinstance(t.op, ast.And) and not st.orelse and len(t.values) >= 2 and \
                                not any(isinstance(x, ast.NamedExpr) for x in ast.walk(t.values[0])) and leading(t.values[1]) is not None:
                            rest = t.values[1] if len(t.values) == 2 else ast.copy_location(ast.BoolOp(op=ast.And(), values=t.values[1:]), t)
                            inner = ast.copy_location(ast.If(test=rest, body=st.body, orelse=[]), st)
                            st.test = t.values[0]
                            st.body = [inner]
                            changed = True
                            break
                    if changed:
                        break
                if changed:
                    break
    ast.fix_missing_locations(tree)


def _expand_row_stores(tree: ast.AST):
    """`A[i] = (e0, ..., eK-1)` / `A[i, j] = (...)` / `A[...] = <number>` where A is a local bound once, to `np.empty / np.zeros / np.ones / np.full`
    with a literal shape tuple whose last dimension is the int literal K, and the index addresses one row (all dimensions but the last, no slice):
    numpy stores element j of the tuple (or the number) into `A[..., j]`, so the store is written as the K element stores."""
    import copy as _copy
    for fn in [n for n in ast.walk(tree) if isinstance(n, (ast.FunctionDef, ast.AsyncFunctionDef))]:
        shapes: Dict[str, Tuple[int, int]] = {}
        dtypes: Dict[str, Optional[str]] = {}
        nstores: Dict[str, int] = {}
        for n in ast.walk(fn):
            if isinstance(n, ast.Name) and isinstance(n.ctx, (ast.Store, ast.Del)):
                nstores[n.id] = nstores.get(n.id, 0) + 1
        for n in ast.walk(fn):
            if isinstance(n, ast.Assign) and len(n.targets) == 1 and isinstance(n.targets[0], ast.Name) and isinstance(n.value, ast.Call) and \
                    dotted(n.value.func) in ("np.empty", "np.zeros", "np.ones", "np.full", "numpy.empty", "numpy.zeros", "numpy.ones", "numpy.full") and n.value.args and \
                    isinstance(n.value.args[0], ast.Tuple) and n.value.args[0].elts and isinstance(n.value.args[0].elts[-1], ast.Constant) and \
                    type(n.value.args[0].elts[-1].value) is int and nstores.get(n.targets[0].id) == 1:
                shapes[n.targets[0].id] = (len(n.value.args[0].elts), n.value.args[0].elts[-1].value)
                dtypes[n.targets[0].id] = next((ast.unparse(k.value) for k in n.value.keywords if k.arg == "dtype"), None)
        if not shapes:
            continue
        for node in ast.walk(fn):
            for fld in ("body", "orelse", "finalbody"):
                blk = getattr(node, fld, None)
                if not isinstance(blk, list) or not blk or not isinstance(blk[0], ast.stmt):
                    continue
                out = []
                for st in blk:
                    t = st.targets[0] if isinstance(st, ast.Assign) and len(st.targets) == 1 else None
                    if isinstance(t, ast.Subscript) and isinstance(t.value, ast.Name) and t.value.id in shapes:
                        ndim, K = shapes[t.value.id]
                        idx = list(t.slice.elts) if isinstance(t.slice, ast.Tuple) else [t.slice]
                        v = st.value
                        # `np.array([e0, ..., eK-1], dtype=D)` with D the dtype of A itself: each element is converted to D once either way
                        if isinstance(v, ast.Call) and dotted(v.func) in ("np.array", "np.asarray", "numpy.array", "numpy.asarray") and len(v.args) == 1 and \
                                isinstance(v.args[0], (ast.List, ast.Tuple)) and all(k.arg == "dtype" for k in v.keywords) and \
                                (not v.keywords or ast.unparse(v.keywords[0].value) == dtypes.get(t.value.id)):
                            v = ast.copy_location(ast.Tuple(elts=list(v.args[0].elts), ctx=ast.Load()), v)
                        number = isinstance(v, ast.Constant) and type(v.value) in (int, float) or \
                            (isinstance(v, ast.UnaryOp) and isinstance(v.op, ast.USub) and isinstance(v.operand, ast.Constant) and type(v.operand.value) in (int, float))
                        plain_idx = all(isinstance(i_, (ast.Name, ast.Constant)) and not isinstance(getattr(i_, "value", 0), (str, type(None), type(Ellipsis))) for i_ in idx)
                        if len(idx) == ndim - 1 and plain_idx and not any(isinstance(i_, (ast.Slice, ast.Starred)) for i_ in idx) and \
                                ((isinstance(v, ast.Tuple) and len(v.elts) == K and not any(isinstance(e, ast.Starred) for e in v.elts)) or number):
                            for j in range(K):
                                if len(idx) == 1:
                                    tgt = ast.Subscript(value=ast.Subscript(value=ast.Name(id=t.value.id, ctx=ast.Load()), slice=_copy.deepcopy(idx[0]), ctx=ast.Load()),
                                                        slice=ast.Constant(value=j), ctx=ast.Store())
                                else:
                                    tgt = ast.Subscript(value=ast.Name(id=t.value.id, ctx=ast.Load()),
                                                        slice=ast.Tuple(elts=[_copy.deepcopy(i_) for i_ in idx] + [ast.Constant(value=j)], ctx=ast.Load()), ctx=ast.Store())
                                out.append(ast.copy_location(ast.Assign(targets=[tgt], value=_copy.deepcopy(v) if number else v.elts[j]), st))
                            continue
                    out.append(st)
                setattr(node, fld, out)
    ast.fix_missing_locations(tree)


def _prelower_conditional_calls(tree: ast.AST):
    """before helpers are inlined: `T = A if C else B` / `return A if C else B` where a branch is a call of a private helper is put in the
    statement form the normal form gives it anyway, so that the call stands alone on the right of a statement - where the inliner takes it."""
    import copy as _copy

    def private_call(e):
        return isinstance(e, ast.Call) and ((isinstance(e.func, ast.Name) and e.func.id.startswith("_")) or
                                            (isinstance(e.func, ast.Attribute) and e.func.attr.startswith("_") and not e.func.attr.startswith("__")))
    for fn in [n for n in ast.walk(tree) if isinstance(n, (ast.FunctionDef, ast.AsyncFunctionDef))]:
        for _round in range(4):
            changed = False
            for node in ast.walk(fn):
                for fld in ("body", "orelse", "finalbody"):
                    blk = getattr(node, fld, None)
                    if not isinstance(blk, list) or not blk or not isinstance(blk[0], ast.stmt):
                        continue
                    out = []
                    for st in blk:
                        v = getattr(st, "value", None)
                        if isinstance(v, ast.IfExp) and (private_call(v.body) or private_call(v.orelse)):
                            if isinstance(st, ast.Assign) and len(st.targets) == 1:
                                a1 = ast.copy_location(ast.Assign(targets=[_copy.deepcopy(st.targets[0])], value=v.body), st)
                                a2 = ast.copy_location(ast.Assign(targets=[_copy.deepcopy(st.targets[0])], value=v.orelse), st)
                                out.append(ast.copy_location(ast.If(test=v.test, body=[a1], orelse=[a2]), st))
                                changed = True
                                continue
                            if isinstance(st, ast.Return):
                                r1 = ast.copy_location(ast.Return(value=v.body), st)
                                r2 = ast.copy_location(ast.Return(value=v.orelse), st)
                                out.append(ast.copy_location(ast.If(test=v.test, body=[r1], orelse=[r2]), st))
                                changed = True
                                continue
                        out.append(st)
                    setattr(node, fld, out)
            if not changed:
                break
    ast.fix_missing_locations(tree)


def _lower_match(tree: ast.AST):
    """`match E:` whose cases are all literal patterns (`case "a":`, `case 1 | 2:`, `case None:`), optionally a final `case _:`, without guards or
    captures: the subject is evaluated once and compared with `==` (`is` for None / True / False), first match wins - the if / elif chain over
    a local holding the subject (read directly when the subject is a plain name or a field read of one)."""
    if not hasattr(ast, "Match"):
        return
    counter = [0]

    def literal_tests(pat, subj):
        pats = pat.patterns if isinstance(pat, ast.MatchOr) else [pat]
        tests = []
        for q in pats:
            if isinstance(q, ast.MatchValue) and isinstance(q.value, ast.Constant):
                tests.append(ast.Compare(left=subj(), ops=[ast.Eq()], comparators=[q.value]))
            elif isinstance(q, ast.MatchSingleton):
                tests.append(ast.Compare(left=subj(), ops=[ast.Is()], comparators=[ast.Constant(value=q.value)]))
            else:
                return None
        return tests[0] if len(tests) == 1 else ast.BoolOp(op=ast.Or(), values=tests)
    for fn in [n for n in ast.walk(tree) if isinstance(n, (ast.FunctionDef, ast.AsyncFunctionDef))]:
        for node in ast.walk(fn):
            for fld in ("body", "orelse", "finalbody"):
                blk = getattr(node, fld, None)
                if not isinstance(blk, list) or not blk or not isinstance(blk[0], ast.stmt):
                    continue
                out = []
                for st in blk:
                    if not isinstance(st, ast.Match) or any(c.guard is not None for c in st.cases):
                        out.append(st)
                        continue
                    e = st.subject
                    x = e
                    while isinstance(x, ast.Attribute):
                        x = x.value
                    direct = isinstance(x, ast.Name)
                    import copy as _copy
                    if direct:
                        subj = lambda e=e: _copy.deepcopy(e)
                        pre = []
                    else:
                        counter[0] += 1
                        nm = f"match__subject{counter[0]}"
                        subj = lambda nm=nm: ast.Name(id=nm, ctx=ast.Load())
                        pre = [ast.copy_location(ast.Assign(targets=[ast.Name(id=nm, ctx=ast.Store())], value=e), st)]
                    chain, ok = [], True
                    for i, c in enumerate(st.cases):
                        if isinstance(c.pattern, ast.MatchAs) and c.pattern.pattern is None and c.pattern.name is None:
                            if i != len(st.cases) - 1:
                                ok = False
                            chain.append((None, c.body))
                            continue
                        t = literal_tests(c.pattern, subj)
                        if t is None:
                            ok = False
                            break
                        chain.append((t, c.body))
                    # a direct subject is re-read by every test: nothing in between may change it (the tests themselves have no effects)
                    if not ok or not chain or chain[0][0] is None:
                        out.append(st)
                        continue
                    top = None
                    cur = None
                    for t, body in chain:
                        if t is None:
                            cur.orelse = body
                            break
                        nxt = ast.copy_location(ast.If(test=t, body=body, orelse=[]), st)
                        if top is None:
                            top = nxt
                        else:
                            cur.orelse = [nxt]
                        cur = nxt
                    out.extend(pre + [top])
                setattr(node, fld, out)
    ast.fix_missing_locations(tree)


def _partial_jobs_to_submit_args(tree: ast.AST, sigs: Dict[str, List[str]]):
    """`J = partial(f, a, k=v)` (functools.partial; J a local bound once, read only as the callable of `X.submit(J, b)` calls; f, a, v plain reads of
    names that are not rebound afterwards): the executor calls `J(b)`, i.e. `f(a, b, k=v)` - the submit is written `X.submit(f, a, b, k=v)` and the
    binding dropped.  Keywords that name the next positional parameters of f (a function the package defines once) take their positional slots."""
    if not isinstance(tree, ast.Module):
        return
    spell = set()
    for s in tree.body:
        if isinstance(s, ast.ImportFrom) and s.module == "functools" and s.level == 0:
            spell |= {al.asname or al.name for al in s.names if al.name == "partial"}
        elif isinstance(s, ast.Import):
            spell |= {f"{al.asname or al.name}.partial" for al in s.names if al.name == "functools"}
    if not spell:
        return
    import copy as _copy
    for fn in [n for n in ast.walk(tree) if isinstance(n, (ast.FunctionDef, ast.AsyncFunctionDef))]:
        stores: Dict[str, int] = {}
        for n in ast.walk(fn):
            if isinstance(n, ast.Name) and isinstance(n.ctx, (ast.Store, ast.Del)):
                stores[n.id] = stores.get(n.id, 0) + 1
        a_ = fn.args
        params = {x.arg for x in a_.args + a_.kwonlyargs + a_.posonlyargs}
        for node in ast.walk(fn):
            for fld in ("body", "orelse", "finalbody"):
                blk = getattr(node, fld, None)
                if not isinstance(blk, list) or not blk or not isinstance(blk[0], ast.stmt):
                    continue
                for st in list(blk):
                    if not (isinstance(st, ast.Assign) and len(st.targets) == 1 and isinstance(st.targets[0], ast.Name) and isinstance(st.value, ast.Call) and
                            dotted(st.value.func) in spell and st.value.args and getattr(st, "ann", None) is None):
                        continue
                    J, pc = st.targets[0].id, st.value
                    if stores.get(J) != 1 or any(isinstance(a, ast.Starred) for a in pc.args) or any(k.arg is None for k in pc.keywords):
                        continue
                    parts = list(pc.args) + [k.value for k in pc.keywords]

                    def stable(e, st=st):
                        # a plain read whose root name is not bound again once the partial has been made: every store to it lies before this
                        # statement, and no loop holds both this statement and such a store
                        x = e
                        while isinstance(x, ast.Attribute):
                            x = x.value
                        if isinstance(e, ast.Constant):
                            return True
                        if not isinstance(x, ast.Name):
                            return False
                        here = (getattr(st, "lineno", 0), getattr(st, "col_offset", 0))
                        sts = [n for n in ast.walk(fn) if isinstance(n, ast.Name) and n.id == x.id and isinstance(n.ctx, (ast.Store, ast.Del))]
                        if any((getattr(n, "lineno", 10 ** 9), getattr(n, "col_offset", 0)) >= here for n in sts):
                            return False
                        for L in ast.walk(fn):
                            if isinstance(L, (ast.For, ast.While)) and any(y is st for y in ast.walk(L)) and any(y is n for n in sts for y in ast.walk(L)):
                                return False
                        return True
                    if not all(stable(e) for e in parts):
                        continue
                    uses = [x for x in ast.walk(fn) if isinstance(x, ast.Name) and x.id == J and isinstance(x.ctx, ast.Load)]
                    subs = [c for c in ast.walk(fn) if isinstance(c, ast.Call) and isinstance(c.func, ast.Attribute) and c.func.attr == "submit" and c.args and
                            isinstance(c.args[0], ast.Name) and c.args[0].id == J and not any(isinstance(a, ast.Starred) for a in c.args)]
                    if not subs or len(subs) != len(uses) or any(c.keywords for c in subs):
                        continue
                    for c in subs:
                        c.args = [_copy.deepcopy(a) for a in pc.args] + list(c.args[1:])
                        c.keywords = [_copy.deepcopy(k) for k in pc.keywords]
                        fname = c.args[0].id if isinstance(c.args[0], ast.Name) else None
                        ps = sigs.get(fname) if fname else None
                        while ps and c.keywords and len(c.args) - 1 < len(ps) and c.keywords[0].arg == ps[len(c.args) - 1]:
                            c.args.append(c.keywords.pop(0).value)
                    blk.remove(st)
                    if not blk:
                        blk.append(ast.copy_location(ast.Pass(), st))
    ast.fix_missing_locations(tree)


def _appended_temporaries(tree: ast.AST):
    """`t = E` immediately followed by `X.append(t)` (t a plain local bound only there, X a plain local list name), every other read of t in later
    statements of the same block, during which nothing else is done to X (no call on it, no store into it, no rebinding) and t is not captured:
    t is the last element of X wherever it is read, so the pair is written `X.append(E)` and the reads `X[-1]`."""
    for fn in [n for n in ast.walk(tree) if isinstance(n, (ast.FunctionDef, ast.AsyncFunctionDef))]:
        stores: Dict[str, int] = {}
        nested = set()
        for n in ast.walk(fn):
            if n is not fn and isinstance(n, (ast.FunctionDef, ast.AsyncFunctionDef, ast.Lambda, ast.ClassDef)):
                nested |= _names_in(n)
            if isinstance(n, ast.Name) and isinstance(n.ctx, (ast.Store, ast.Del)):
                stores[n.id] = stores.get(n.id, 0) + 1
        for node in ast.walk(fn):
            for fld in ("body", "orelse", "finalbody"):
                blk = getattr(node, fld, None)
                if not isinstance(blk, list) or len(blk) < 2 or not isinstance(blk[0], ast.stmt):
                    continue
                k = 0
                while k + 1 < len(blk):
                    st, nxt = blk[k], blk[k + 1]
                    k += 1
                    if not (isinstance(st, ast.Assign) and len(st.targets) == 1 and isinstance(st.targets[0], ast.Name) and getattr(st, "ann", None) is None and
                            isinstance(nxt, ast.Expr) and isinstance(nxt.value, ast.Call) and isinstance(nxt.value.func, ast.Attribute) and nxt.value.func.attr == "append" and
                            isinstance(nxt.value.func.value, ast.Name) and len(nxt.value.args) == 1 and not nxt.value.keywords and
                            isinstance(nxt.value.args[0], ast.Name) and nxt.value.args[0].id == st.targets[0].id):
                        continue
                    t, X = st.targets[0].id, nxt.value.func.value.id
                    if stores.get(t) != 1 or t in nested or X in nested or t == X or X in _names_in(st.value):
                        continue
                    rest = blk[k + 1:]
                    inside = {id(x) for s_ in rest for x in ast.walk(s_)}
                    reads = [x for x in ast.walk(fn) if isinstance(x, ast.Name) and x.id == t and isinstance(x.ctx, ast.Load) and x is not nxt.value.args[0]]
                    if any(id(x) not in inside for x in reads):
                        continue
                    # nothing else touches X in the rest of the block (reads of X[-1] aside)
                    touched = False
                    for s_ in rest:
                        for x in ast.walk(s_):
                            if isinstance(x, ast.Name) and x.id == X:
                                touched = True
                    if touched or any(isinstance(x, (ast.Try,)) for s_ in rest for x in ast.walk(s_)):
                        continue
                    nxt.value.args[0] = st.value
                    for x in reads:
                        x.__class__ = ast.Subscript
                        x.__dict__.pop("id", None)
                        x.value = ast.Name(id=X, ctx=ast.Load())
                        x.slice = ast.UnaryOp(op=ast.USub(), operand=ast.Constant(value=1))
                        x.ctx = ast.Load()
                    k -= 1
                    del blk[k]
    ast.fix_missing_locations(tree)


def _extend_generators_to_loops(tree: ast.AST):
    """the statement `X.extend(<generator expression>)` (X a plain local name that the generator does not read) appends the generator's elements
    one by one as they are produced: it is the loop nest of the generator ending in `X.append(elt)`."""
    for fn in [n for n in ast.walk(tree) if isinstance(n, (ast.FunctionDef, ast.AsyncFunctionDef))]:
        for node in ast.walk(fn):
            for fld in ("body", "orelse", "finalbody"):
                blk = getattr(node, fld, None)
                if not isinstance(blk, list) or not blk or not isinstance(blk[0], ast.stmt):
                    continue
                out = []
                for st in blk:
                    c = st.value if isinstance(st, ast.Expr) else None
                    if isinstance(c, ast.Call) and isinstance(c.func, ast.Attribute) and c.func.attr == "extend" and isinstance(c.func.value, ast.Name) and \
                            len(c.args) == 1 and not c.keywords and isinstance(c.args[0], ast.GeneratorExp) and \
                            c.func.value.id not in _names_in(c.args[0]) and not any(g.is_async for g in c.args[0].generators):
                        g = c.args[0]
                        X = c.func.value.id
                        inner: ast.stmt = ast.Expr(value=ast.Call(func=ast.Attribute(value=ast.Name(id=X, ctx=ast.Load()), attr="append", ctx=ast.Load()), args=[g.elt], keywords=[]))
                        for comp in reversed(g.generators):
                            for cond in reversed(comp.ifs):
                                inner = ast.If(test=cond, body=[inner], orelse=[])
                            inner = ast.For(target=comp.target, iter=comp.iter, body=[inner], orelse=[])
                        ast.copy_location(inner, st)
                        ast.fix_missing_locations(inner)
                        # the generator's targets become variables of the function: nobody else may be reading those names
                        if _loop_targets_dead_outside(fn, inner):
                            out.append(inner)
                        else:
                            out.append(st)
                    else:
                        out.append(st)
                setattr(node, fld, out)


def _default_into_parameter(tree: ast.AST):
    """`v = A if p is None else p` (or `v = p if p is not None else A`) with p a parameter that is never rebound and is read nowhere else in the
    function, v a plain local bound only there and not captured: from here on v is "p, or the default when p was None" and p itself is dead, so
    the program is the same as the one that gives the parameter its default in place - `if p is None: p = A` - and reads p where v was read."""
    for fn in [n for n in ast.walk(tree) if isinstance(n, (ast.FunctionDef, ast.AsyncFunctionDef))]:
        a_ = fn.args
        params = {x.arg for x in a_.args + a_.kwonlyargs + a_.posonlyargs}
        nested = set()
        for n in ast.walk(fn):
            if n is not fn and isinstance(n, (ast.FunctionDef, ast.AsyncFunctionDef, ast.Lambda, ast.ClassDef)):
                nested |= _names_in(n)
        for blk_owner in ast.walk(fn):
            for fld in ("body", "orelse", "finalbody"):
                blk = getattr(blk_owner, fld, None)
                if not isinstance(blk, list) or not blk or not isinstance(blk[0], ast.stmt):
                    continue
                for k, st in enumerate(blk):
                    if not (isinstance(st, ast.Assign) and len(st.targets) == 1 and isinstance(st.targets[0], ast.Name) and isinstance(st.value, ast.IfExp) and
                            getattr(st, "ann", None) is None):
                        continue
                    v, e = st.targets[0].id, st.value
                    t = e.test
                    if not (isinstance(t, ast.Compare) and len(t.ops) == 1 and isinstance(t.left, ast.Name) and isinstance(t.comparators[0], ast.Constant) and
                            t.comparators[0].value is None and isinstance(t.ops[0], (ast.Is, ast.IsNot))):
                        continue
                    pn = t.left.id
                    default, keep = (e.body, e.orelse) if isinstance(t.ops[0], ast.Is) else (e.orelse, e.body)
                    if not (isinstance(keep, ast.Name) and keep.id == pn and pn in params and pn != v and v not in params and v not in nested and pn not in nested):
                        continue
                    if pn in _names_in(default) or v in _names_in(default):
                        continue
                    inside = {id(x) for x in ast.walk(st)}
                    if any(isinstance(x, ast.Name) and x.id == pn and id(x) not in inside for x in ast.walk(fn)):
                        continue                                    # the parameter is read (or rebound) somewhere else
                    if sum(1 for x in ast.walk(fn) if isinstance(x, ast.Name) and x.id == v and isinstance(x.ctx, (ast.Store, ast.Del))) != 1:
                        continue
                    if any(isinstance(x, (ast.Global, ast.Nonlocal)) and (v in x.names or pn in x.names) for x in ast.walk(fn)):
                        continue
                    new = ast.copy_location(ast.If(test=ast.Compare(left=ast.Name(id=pn, ctx=ast.Load()), ops=[ast.Is()], comparators=[ast.Constant(value=None)]),
                                                   body=[ast.copy_location(ast.Assign(targets=[ast.Name(id=pn, ctx=ast.Store())], value=default), st)], orelse=[]), st)
                    blk[k] = new
                    for x in ast.walk(fn):
                        if isinstance(x, ast.Name) and x.id == v:
                            x.id = pn
    ast.fix_missing_locations(tree)


def _coalesce_forwarded_temporaries(tree: ast.AST):
    """`t = E` immediately followed by `b = t`, with t a plain local bound only there and read only in later statements of the same block,
    during which b is not bound again: t and b hold the same value wherever t is read, so E is bound to b directly and t disappears
    (what is left when a helper that computes a value, uses it and returns it has been inlined into `b = helper(...)`)."""
    for fn in [n for n in ast.walk(tree) if isinstance(n, (ast.FunctionDef, ast.AsyncFunctionDef))]:
        a_ = fn.args
        params = {x.arg for x in a_.args + a_.kwonlyargs + a_.posonlyargs} | ({a_.vararg.arg} if a_.vararg else set()) | ({a_.kwarg.arg} if a_.kwarg else set())
        for _round in range(6):
            stores: Dict[str, int] = {}
            nested_names = set()
            declared = set()
            for n in ast.walk(fn):
                if n is not fn and isinstance(n, (ast.FunctionDef, ast.AsyncFunctionDef, ast.Lambda, ast.ClassDef)):
                    nested_names |= _names_in(n)
                if isinstance(n, ast.Name) and isinstance(n.ctx, (ast.Store, ast.Del)):
                    stores[n.id] = stores.get(n.id, 0) + 1
                elif isinstance(n, (ast.Global, ast.Nonlocal)):
                    declared |= set(n.names)
            done = False
            for node in ast.walk(fn):
                for fld in ("body", "orelse", "finalbody"):
                    blk = getattr(node, fld, None)
                    if not isinstance(blk, list) or len(blk) < 2 or not isinstance(blk[0], ast.stmt):
                        continue
                    for k in range(len(blk) - 1):
                        s1, s2 = blk[k], blk[k + 1]
                        if not (isinstance(s1, ast.Assign) and len(s1.targets) == 1 and isinstance(s1.targets[0], ast.Name) and getattr(s1, "ann", None) is None and
                                isinstance(s2, ast.Assign) and len(s2.targets) == 1 and isinstance(s2.targets[0], ast.Name) and isinstance(s2.value, ast.Name) and
                                getattr(s2, "ann", None) is None):
                            continue
                        t, b = s1.targets[0].id, s2.targets[0].id
                        if s2.value.id != t or t == b or stores.get(t) != 1 or t in params or t in nested_names or b in nested_names or t in declared or b in declared:
                            continue
                        rest = blk[k + 2:]
                        rest_ids = {id(x) for st in rest for x in ast.walk(st)}
                        loads = [x for x in ast.walk(fn) if isinstance(x, ast.Name) and x.id == t and isinstance(x.ctx, ast.Load) and x is not s2.value]
                        if any(id(x) not in rest_ids for x in loads):
                            continue
                        # b must not be bound again before the last statement of the block that reads t
                        last = max((j for j, st in enumerate(rest) if any(isinstance(x, ast.Name) and x.id == t for x in ast.walk(st))), default=-1)
                        if any(isinstance(x, ast.Name) and x.id == b and isinstance(x.ctx, (ast.Store, ast.Del)) for st in rest[:last + 1] for x in ast.walk(st)):
                            continue
                        s1.targets[0].id = b
                        for x in loads:
                            x.id = b
                        del blk[k + 1]
                        done = True
                        break
                    if done:
                        break
                if done:
                    break
            if not done:
                break


_PURE_VALUE_CALLS = {"Segment", "Unit", "len", "sum", "min", "max", "abs", "float", "int", "bool", "sorted", "list", "tuple", "enumerate", "zip", "range", "reversed",
               "np.sum", "np.abs", "np.mean", "np.sqrt", "np.log2", "np.ceil", "np.floor", "np.float32", "np.float64", "np.int32", "np.int64", "np.int16",
               "np.maximum", "np.minimum", "np.cumsum", "np.unique", "np.argsort", "np.where", "np.arange", "np.max", "np.min", "np.std", "np.asarray",
               "isinstance", "str", "round", "math.sqrt", "math.ceil", "math.floor"}
_PURE_METHODS = {"values", "keys", "items", "index", "sum", "astype", "mean", "max", "min", "get", "count", "startswith", "endswith", "format", "join",
                 "copy_nothing_"}


def _pure_expr(e: ast.AST) -> bool:
    """no side effect and no dependence on evaluation order relative to its neighbours: names, constants, field reads, subscripts, arithmetic,
    comparisons, comprehensions, and calls to a fixed list of pure builtins / numpy reductions / read-only container methods"""
    for x in ast.walk(e):
        if isinstance(x, ast.Call):
            fn = ast.unparse(x.func)
            if fn in _PURE_VALUE_CALLS:
                continue
            if isinstance(x.func, ast.Attribute) and x.func.attr in _PURE_METHODS:
                continue
            return False
        if isinstance(x, (ast.Yield, ast.YieldFrom, ast.Await, ast.NamedExpr, ast.Lambda, ast.Starred)):
            return False
    return True


def _unconditionally_evaluated(stmt: ast.stmt, hit: ast.AST) -> bool:
    """is `hit` evaluated whenever `stmt` starts executing?  (the header of a compound statement, or a simple statement, outside every
    conditional expression, short-circuit operand, comprehension element, lambda)"""
    if isinstance(stmt, ast.If):
        roots = [stmt.test]
    elif isinstance(stmt, (ast.For, ast.AsyncFor)):
        roots = [stmt.iter]
    elif isinstance(stmt, ast.While):
        roots = []              # re-evaluated, and possibly after the body changed things
    elif isinstance(stmt, (ast.With, ast.AsyncWith)):
        roots = [stmt.items[0].context_expr] if stmt.items else []
    elif isinstance(stmt, (ast.Assign, ast.AugAssign, ast.AnnAssign, ast.Return, ast.Expr, ast.Assert, ast.Raise, ast.Delete)):
        roots = [stmt]
    else:
        roots = []

    def search(n: ast.AST) -> Optional[bool]:
        if n is hit:
            return True
        if isinstance(n, ast.IfExp):
            r = search(n.test)
            if r:
                return True
            if any(hit is x for x in ast.walk(n.body)) or any(hit is x for x in ast.walk(n.orelse)):
                return False
            return None
        if isinstance(n, ast.BoolOp):
            r = search(n.values[0])
            if r:
                return True
            if any(hit is x for v in n.values[1:] for x in ast.walk(v)):
                return False
            return None
        if isinstance(n, (ast.ListComp, ast.SetComp, ast.DictComp, ast.GeneratorExp)):
            r = search(n.generators[0].iter) if not isinstance(n, ast.GeneratorExp) else None
            if r:
                return True
            if any(hit is x for x in ast.walk(n)):
                return False
            return None
        if isinstance(n, ast.Lambda):
            return False if any(hit is x for x in ast.walk(n)) else None
        if isinstance(n, ast.Assert):
            r = search(n.test)
            if r:
                return True
            return False if n.msg is not None and any(hit is x for x in ast.walk(n.msg)) else None
        if isinstance(n, ast.Compare) and len(n.ops) > 1:
            r = search(n.left)
            if r:
                return True
            r = search(n.comparators[0])
            if r:
                return True
            return False if any(hit is x for c in n.comparators[1:] for x in ast.walk(c)) else None
        for ch in ast.iter_child_nodes(n):
            r = search(ch)
            if r is not None:
                return r
        return None
    return any(search(r) is True for r in roots)


def _inside_try(stmts, node: ast.AST) -> bool:
    """is `node` inside a try statement (any part) that itself lies within `stmts`?"""
    for s in stmts:
        for t in ast.walk(s):
            if isinstance(t, ast.Try) and any(node is x for x in ast.walk(t)):
                return True
    return False


_NOT_ATTRIBUTE_ERRORS = {"ValueError", "IndexError", "KeyError", "ZeroDivisionError", "StopIteration", "ImportError", "OverflowError", "AssertionError", "OSError",
                         "FileNotFoundError", "NotImplementedError", "UnicodeError"}


def _try_may_catch_attribute_read(stmts, node: ast.AST) -> bool:
    """`node` lies in a try statement (within `stmts`) that could catch what a plain attribute read raises (AttributeError): it is in the try body
    and some handler is bare or names anything but exception classes unrelated to AttributeError - or it lies in another part of a try statement
    (kept conservative)."""
    for s in stmts:
        for t in ast.walk(s):
            if not (isinstance(t, ast.Try) and any(node is x for x in ast.walk(t))):
                continue
            if not any(node is x for b in t.body for x in ast.walk(b)):
                return True
            for h in t.handlers:
                types = [h.type] if h.type is not None and not isinstance(h.type, ast.Tuple) else list(h.type.elts) if h.type is not None else [None]
                for ty in types:
                    nm = ty.id if isinstance(ty, ast.Name) else ty.attr if isinstance(ty, ast.Attribute) else None
                    if nm not in _NOT_ATTRIBUTE_ERRORS:
                        return True
    return False


def _split_live_ranges(tree: ast.AST):
    """a plain local bound by several `name = value` statements whose live ranges are disjoint (every read of the name lies after exactly one of
    those statements, in the same block or nested in it, and none of the statements lies in the range of another) is several variables
    sharing a name: each range gets its own name.  Pure renaming; afterwards each of them is bound once, which the other rewritings and the
    rules' def-use lookups rely on."""
    for fn in [n for n in ast.walk(tree) if isinstance(n, (ast.FunctionDef, ast.AsyncFunctionDef))]:
        a_ = fn.args
        params = {x.arg for x in a_.args + a_.kwonlyargs + a_.posonlyargs} | ({a_.vararg.arg} if a_.vararg else set()) | ({a_.kwarg.arg} if a_.kwarg else set())
        nested = set()
        for n in ast.walk(fn):
            if n is not fn and isinstance(n, (ast.FunctionDef, ast.AsyncFunctionDef, ast.Lambda, ast.ClassDef)):
                nested |= _names_in(n)
        store_nodes: Dict[str, List[ast.Name]] = {}
        for n in ast.walk(fn):
            if isinstance(n, ast.Name) and isinstance(n.ctx, (ast.Store, ast.Del)):
                store_nodes.setdefault(n.id, []).append(n)
        declared = {nm for n in ast.walk(fn) if isinstance(n, (ast.Global, ast.Nonlocal)) for nm in n.names}
        for name, snodes in sorted(store_nodes.items()):
            if len(snodes) < 2 or name in params or name in nested or name in declared:
                continue
            # every binding must be a plain top-of-statement assignment `name = value`
            sites = []          # (block list, index, statement)
            for node in ast.walk(fn):
                for fld in ("body", "orelse", "finalbody"):
                    blk = getattr(node, fld, None)
                    if isinstance(blk, list) and blk and isinstance(blk[0], ast.stmt):
                        for k, st in enumerate(blk):
                            if isinstance(st, ast.Assign) and len(st.targets) == 1 and isinstance(st.targets[0], ast.Name) and st.targets[0].id == name \
                                    and getattr(st, "ann", None) is None:
                                sites.append((blk, k, st))
                for h in getattr(node, "handlers", []) or []:
                    for k, st in enumerate(h.body):
                        if isinstance(st, ast.Assign) and len(st.targets) == 1 and isinstance(st.targets[0], ast.Name) and st.targets[0].id == name:
                            sites.append((h.body, k, st))
            if len(sites) != len(snodes):
                continue
            regions = []
            for blk, k, st in sites:
                ids = {id(x) for s in blk[k + 1:] for x in ast.walk(s)}
                regions.append(ids)
            # disjoint: no binding statement lies inside another binding's region, and a binding's own value must not read the name
            bad = False
            for i, (blk, k, st) in enumerate(sites):
                if any(isinstance(x, ast.Name) and x.id == name for x in ast.walk(st.value)):
                    bad = True
                for j, reg in enumerate(regions):
                    if i != j and id(st) in reg:
                        bad = True
            if bad:
                continue
            loads = [n for n in ast.walk(fn) if isinstance(n, ast.Name) and n.id == name and isinstance(n.ctx, ast.Load)]
            if not loads:
                continue          # never read: nothing to separate (and the rules report a value that is computed and dropped by its one name)
            owner = {}
            for ld in loads:
                own = [i for i, reg in enumerate(regions) if id(ld) in reg]
                if len(own) != 1:
                    bad = True
                    break
                owner[id(ld)] = own[0]
            if bad:
                continue
            for i, (blk, k, st) in enumerate(sites):
                if i == 0:
                    continue
                new = f"{name}__r{i + 1}"
                st.targets[0].id = new
                for ld in loads:
                    if owner[id(ld)] == i:
                        ld.id = new


_FRESH_CONTAINER_METHODS = {"list": {"append", "extend", "insert", "pop", "index", "count"}, "set": {"add", "update", "discard"},
                            "dict": {"get", "setdefault", "update", "pop", "items", "keys", "values"}}


def _method_of_fresh_container(fn: ast.AST, read: ast.Attribute, stores: Dict[str, int]) -> bool:
    """`X.m` with X a local bound once, to a list / set / dict display or an argument-less list() / set() / dict(), and m a method of that builtin
    type: the read cannot raise, wherever it is evaluated"""
    if not isinstance(read.value, ast.Name) or stores.get(read.value.id) != 1:
        return False
    for n in ast.walk(fn):
        if isinstance(n, ast.Assign) and len(n.targets) == 1 and isinstance(n.targets[0], ast.Name) and n.targets[0].id == read.value.id:
            v = n.value
            kind = "list" if isinstance(v, (ast.List, ast.ListComp)) else "set" if isinstance(v, (ast.Set, ast.SetComp)) else "dict" if isinstance(v, (ast.Dict, ast.DictComp)) else \
                v.func.id if isinstance(v, ast.Call) and isinstance(v.func, ast.Name) and v.func.id in _FRESH_CONTAINER_METHODS and not v.keywords else None
            return kind is not None and read.attr in _FRESH_CONTAINER_METHODS[kind]
    return False


def _propagate_field_reads(tree: ast.AST, computed: Set[str] = frozenset()):
    """`a = b.f.g` (a plain local bound once; b a name that is not rebound while a is live; no store to an attribute f / g anywhere in the
    function): every later read of a in the same block (or nested in it) is the field read itself, so a is replaced and the assignment dropped."""
    import copy as _copy
    for fn in [n for n in ast.walk(tree) if isinstance(n, (ast.FunctionDef, ast.AsyncFunctionDef))]:
        a_ = fn.args
        params = {x.arg for x in a_.args + a_.kwonlyargs + a_.posonlyargs} | ({a_.vararg.arg} if a_.vararg else set()) | ({a_.kwarg.arg} if a_.kwarg else set())
        attr_stores = set()
        for n in ast.walk(fn):
            if isinstance(n, ast.Attribute) and isinstance(n.ctx, (ast.Store, ast.Del)):
                attr_stores.add(n.attr)
        for _round in range(40):
            stores: Dict[str, int] = {}
            nested = set()
            for n in ast.walk(fn):
                if n is not fn and isinstance(n, (ast.FunctionDef, ast.AsyncFunctionDef, ast.Lambda, ast.ClassDef)):
                    nested |= _names_in(n)
                if isinstance(n, ast.Name) and isinstance(n.ctx, (ast.Store, ast.Del)):
                    stores[n.id] = stores.get(n.id, 0) + 1
                elif isinstance(n, (ast.Global, ast.Nonlocal)):
                    for nm in n.names:
                        stores[nm] = 99
            done = False
            for node in ast.walk(fn):
                for fld in ("body", "orelse", "finalbody"):
                    blk = getattr(node, fld, None)
                    if not isinstance(blk, list) or not blk or not isinstance(blk[0], ast.stmt):
                        continue
                    for k, st in enumerate(blk):
                        if not (isinstance(st, ast.Assign) and len(st.targets) == 1 and isinstance(st.targets[0], ast.Name) and
                                isinstance(st.value, (ast.Attribute, ast.Name)) and _plain_read(st.value) and getattr(st, "ann", None) is None):
                            continue
                        # (a plain name on the right is the degenerate chain: `a = b` with b possibly bound several times before, never after)
                        a = st.targets[0].id
                        chain = []
                        e = st.value
                        while isinstance(e, ast.Attribute):
                            chain.append(e.attr)
                            e = e.value
                        if not isinstance(e, ast.Name):
                            continue
                        b = e.id
                        if a in params or a in nested or stores.get(a) != 1 or a == b or set(chain) & attr_stores or set(chain) & computed:
                            continue
                        rest = blk[k + 1:]
                        if b in ("self", "cls"):
                            # a field of the receiver: stable while a is live only if no method of the receiver runs in between
                            # (a method may reassign the field) - property reads are fine, they are read-only accessors here
                            if any(isinstance(x, ast.Call) and isinstance(x.func, ast.Attribute) and isinstance(x.func.value, ast.Name) and x.func.value.id == b
                                   for s_ in rest for x in ast.walk(s_)):
                                continue
                        # b must not be rebound while a is live, and every read of a must be in the rest of this block
                        if b in _stored_names(rest):
                            continue
                        inside = {id(x) for s in rest for x in ast.walk(s)}
                        reads = [x for x in ast.walk(fn) if isinstance(x, ast.Name) and x.id == a and isinstance(x.ctx, ast.Load)]
                        if not reads or any(id(x) not in inside for x in reads):
                            continue
                        # an attribute read can raise: it is never moved into a try block (a handler there would start catching it)
                        if isinstance(st.value, ast.Attribute) and any(_try_may_catch_attribute_read(rest, x) for x in reads) and not _method_of_fresh_container(fn, st.value, stores):
                            continue
                        val = st.value

                        class R(ast.NodeTransformer):
                            def visit_Name(self, n):
                                if n.id == a and isinstance(n.ctx, ast.Load):
                                    return ast.copy_location(_copy.deepcopy(val), n)
                                return n
                        for s in rest:
                            R().visit(s)
                        del blk[k]
                        if not blk:
                            blk.append(ast.copy_location(ast.Pass(), st))
                        done = True
                        break
                    if done:
                        break
                if done:
                    break
            if not done:
                break
    ast.fix_missing_locations(tree)


def _propagate_element_reads(tree: ast.AST):
    """`a = X[i]` (a plain local bound once; X, i plain names / constants / field reads; while a is live neither X nor the names of i are rebound,
    nothing is stored into X[...] except through a, no mutating method is called on X): a is an alias of the element (a numpy row view, a list
    element, a read of a scalar cell), so every use of a - also as the base of a store - is written X[i] and the assignment dropped."""
    import copy as _copy
    MUT = {"append", "add", "extend", "update", "remove", "pop", "insert", "sort", "clear", "discard", "fill", "setdefault", "resize", "reverse"}
    for fn in [n for n in ast.walk(tree) if isinstance(n, (ast.FunctionDef, ast.AsyncFunctionDef))]:
        a_ = fn.args
        params = {x.arg for x in a_.args + a_.kwonlyargs + a_.posonlyargs} | ({a_.vararg.arg} if a_.vararg else set()) | ({a_.kwarg.arg} if a_.kwarg else set())
        for _round in range(12):
            stores: Dict[str, int] = {}
            nested = set()
            for n in ast.walk(fn):
                if n is not fn and isinstance(n, (ast.FunctionDef, ast.AsyncFunctionDef, ast.Lambda, ast.ClassDef)):
                    nested |= _names_in(n)
                if isinstance(n, ast.Name) and isinstance(n.ctx, (ast.Store, ast.Del)):
                    stores[n.id] = stores.get(n.id, 0) + 1
                elif isinstance(n, (ast.Global, ast.Nonlocal)):
                    for nm in n.names:
                        stores[nm] = 99
            done = False
            for node in ast.walk(fn):
                for fld in ("body", "orelse", "finalbody"):
                    blk = getattr(node, fld, None)
                    if not isinstance(blk, list) or not blk or not isinstance(blk[0], ast.stmt):
                        continue
                    for k, st in enumerate(blk):
                        if not (isinstance(st, ast.Assign) and len(st.targets) == 1 and isinstance(st.targets[0], ast.Name) and
                                isinstance(st.value, ast.Subscript) and getattr(st, "ann", None) is None):
                            continue
                        a = st.targets[0].id
                        X, idx = st.value.value, st.value.slice
                        if not _plain_read(X) or isinstance(idx, ast.Slice):
                            continue
                        idx_parts = idx.elts if isinstance(idx, ast.Tuple) else [idx]
                        if not all(_plain_read(p) or (isinstance(p, ast.UnaryOp) and isinstance(p.operand, ast.Constant)) for p in idx_parts):
                            continue
                        if a in params or a in nested or stores.get(a) != 1:
                            continue
                        used = _names_in(st.value)
                        if a in used or "self" in used and False:
                            continue
                        rest = blk[k + 1:]
                        if used & _stored_names(rest):
                            continue
                        inside = {id(x) for s in rest for x in ast.walk(s)}
                        occ = [x for x in ast.walk(fn) if isinstance(x, ast.Name) and x.id == a and x is not st.targets[0]]
                        if not occ or any(id(x) not in inside for x in occ):
                            continue
                        # a subscript can raise (IndexError / KeyError): the read may only move if it is still evaluated at the same point -
                        # its first use is in the very next statement, in a position evaluated unconditionally - and never into a try block
                        first = [x for x in occ if any(x is y for y in ast.walk(rest[0]))] if rest else []
                        if not first or not any(_unconditionally_evaluated(rest[0], x) for x in first) or any(_inside_try(rest, x) for x in occ):
                            continue
                        xt = ast.unparse(X)
                        clash = False
                        for s in rest:
                            for x in ast.walk(s):
                                # a store into X[...] (not through a) or a mutator called on X while a is live
                                if isinstance(x, ast.Subscript) and isinstance(x.ctx, (ast.Store, ast.Del)) and ast.unparse(x.value) == xt:
                                    clash = True
                                if isinstance(x, ast.Subscript) and isinstance(x.ctx, (ast.Store, ast.Del)) and isinstance(x.value, ast.Subscript) and \
                                        ast.unparse(x.value.value) == xt:
                                    clash = True
                                if isinstance(x, ast.Call) and isinstance(x.func, ast.Attribute) and x.func.attr in MUT and ast.unparse(x.func.value) == xt:
                                    clash = True
                                if isinstance(x, (ast.AugAssign,)) and isinstance(x.target, ast.Name) and x.target.id == a:
                                    clash = True          # a op= v rebinds a (scalars): not an alias use
                        if clash:
                            continue
                        val = st.value

                        class R(ast.NodeTransformer):
                            def visit_Name(self, n):
                                if n.id == a:
                                    new = _copy.deepcopy(val)
                                    new.ctx = ast.Load()
                                    return ast.copy_location(new, n)
                                return n
                        for s in rest:
                            R().visit(s)
                        del blk[k]
                        if not blk:
                            blk.append(ast.copy_location(ast.Pass(), st))
                        done = True
                        break
                    if done:
                        break
                if done:
                    break
            if not done:
                break
    ast.fix_missing_locations(tree)


def _cannot_raise(e: ast.AST) -> bool:
    """names, constants and field reads of names (conventionally total); anything with a subscript, an operator or a call may raise"""
    return all(isinstance(x, (ast.Name, ast.Constant, ast.Attribute, ast.Load, ast.Tuple)) for x in ast.walk(e))


def _inline_adjacent_temporaries(tree: ast.AST):
    """`t = E ; S(t)` with t a plain local bound once and read once, in the very next statement (not a while-header), E pure: S(E).
    "Introduce explaining variable" and its inverse are the same program for every rule."""
    import copy as _copy
    for fn in [n for n in ast.walk(tree) if isinstance(n, (ast.FunctionDef, ast.AsyncFunctionDef))]:
        a_ = fn.args
        params = {x.arg for x in a_.args + a_.kwonlyargs + a_.posonlyargs} | ({a_.vararg.arg} if a_.vararg else set()) | ({a_.kwarg.arg} if a_.kwarg else set())
        for _round in range(40):
            loads: Dict[str, int] = {}
            stores: Dict[str, int] = {}
            nested = set()
            for n in ast.walk(fn):
                if n is not fn and isinstance(n, (ast.FunctionDef, ast.AsyncFunctionDef, ast.Lambda, ast.ClassDef)):
                    nested |= _names_in(n)
                if isinstance(n, ast.Name):
                    d = loads if isinstance(n.ctx, ast.Load) else stores
                    d[n.id] = d.get(n.id, 0) + 1
                elif isinstance(n, (ast.Global, ast.Nonlocal)):
                    for nm in n.names:
                        stores[nm] = 99
            changed = False
            for node in ast.walk(fn):
                for fld in ("body", "orelse", "finalbody"):
                    blk = getattr(node, fld, None)
                    if not isinstance(blk, list) or len(blk) < 2 or not isinstance(blk[0], ast.stmt):
                        continue
                    k = 0
                    while k + 1 < len(blk):
                        st, nxt = blk[k], blk[k + 1]
                        if isinstance(st, ast.Assign) and len(st.targets) == 1 and isinstance(st.targets[0], ast.Name) and getattr(st, "ann", None) is None:
                            t = st.targets[0].id
                            # `t = E ; X = t` (the whole value of the next assignment): E is evaluated at the same point either way, pure or not
                            whole = isinstance(nxt, ast.Assign) and isinstance(nxt.value, ast.Name) and nxt.value.id == t
                            if t not in params and t not in nested and stores.get(t) == 1 and loads.get(t) == 1 and (_pure_expr(st.value) or whole):
                                # where the single read is: header / simple statement of nxt only
                                if isinstance(nxt, (ast.Assign, ast.AugAssign, ast.Return, ast.Expr)):
                                    parts = [nxt]
                                elif isinstance(nxt, ast.If):
                                    parts = [nxt.test]
                                elif isinstance(nxt, ast.For):
                                    parts = [nxt.iter]
                                else:
                                    parts = []
                                hits = [x for p_ in parts for x in ast.walk(p_) if isinstance(x, ast.Name) and x.id == t and isinstance(x.ctx, ast.Load)]
                                # a read inside a comprehension is evaluated lazily / repeatedly, except in the first iterable (evaluated once, at once)
                                in_comp = any(isinstance(c, (ast.ListComp, ast.SetComp, ast.DictComp, ast.GeneratorExp)) and
                                              any(h is y for h in hits for y in ast.walk(c)) and
                                              not any(h is z for h in hits for z in ast.walk(c.generators[0].iter))
                                              for p_ in parts for c in ast.walk(p_))
                                # names E depends on must not be rebound by the target of nxt before the read (only AugAssign/Assign targets are written after the value)
                                if len(hits) == 1 and not in_comp and (whole or _unconditionally_evaluated(nxt, hits[0]) or _cannot_raise(st.value)):
                                    h = hits[0]

                                    class R(ast.NodeTransformer):
                                        def visit_Name(self, n):
                                            return ast.copy_location(_copy.deepcopy(st.value), n) if n is h else n
                                    if isinstance(nxt, ast.If):
                                        nxt.test = R().visit(nxt.test)
                                    elif isinstance(nxt, ast.For):
                                        nxt.iter = R().visit(nxt.iter)
                                    else:
                                        R().visit(nxt)
                                    del blk[k]
                                    changed = True
                                    loads[t] = 0
                                    continue
                        k += 1
            if not changed:
                break
    ast.fix_missing_locations(tree)


def _stored_names(stmts) -> set:
    out = set()
    for s in stmts:
        for x in ast.walk(s):
            if isinstance(x, ast.Name) and isinstance(x.ctx, (ast.Store, ast.Del)):
                out.add(x.id)
    return out


def _loop_level(stmts, kinds) -> bool:
    """does a statement of the given kinds occur in `stmts` at this loop's level (not inside a nested loop / function)"""
    for s in stmts:
        if isinstance(s, kinds):
            return True
        if isinstance(s, (ast.For, ast.While, ast.FunctionDef, ast.AsyncFunctionDef, ast.ClassDef)):
            continue
        for fld in ("body", "orelse", "finalbody"):
            sub = getattr(s, fld, None)
            if isinstance(sub, list) and sub and isinstance(sub[0], ast.stmt) and _loop_level(sub, kinds):
                return True
        for h in getattr(s, "handlers", []) or []:
            if _loop_level(h.body, kinds):
                return True
    return False


def _counting_while(fn, blk, k):
    """`i = 0; while i < N: body; i += 1` (no continue, i and N not otherwise written in the body) is `for i in range(N): body`;
    a following `if i == N: S` (i dead afterwards) is the loop's else clause.  Returns (new statements, statements consumed) or None."""
    if k + 1 >= len(blk):
        return None
    init, W = blk[k], blk[k + 1]
    if not (isinstance(init, ast.Assign) and len(init.targets) == 1 and isinstance(init.targets[0], ast.Name) and
            isinstance(init.value, ast.Constant) and init.value.value == 0 and type(init.value.value) is int and isinstance(W, ast.While) and not W.orelse):
        return None
    iv = init.targets[0].id
    t = W.test
    if not (isinstance(t, ast.Compare) and len(t.ops) == 1):
        return None
    if isinstance(t.ops[0], ast.Lt) and isinstance(t.left, ast.Name) and t.left.id == iv:
        bound = t.comparators[0]
    elif isinstance(t.ops[0], ast.Gt) and isinstance(t.comparators[0], ast.Name) and t.comparators[0].id == iv:
        bound = t.left
    else:
        return None
    def _bound_ok(b) -> bool:
        if isinstance(b, (ast.Name, ast.Constant)):
            return True
        if isinstance(b, ast.Call) and ast.unparse(b.func) == "len" and len(b.args) == 1 and isinstance(b.args[0], ast.Name):
            return True
        if isinstance(b, ast.BinOp) and isinstance(b.op, (ast.Add, ast.Sub)):
            return _bound_ok(b.left) and _bound_ok(b.right)
        return False
    if not _bound_ok(bound):
        return None
    if not W.body:
        return None
    last = W.body[-1]
    if not (isinstance(last, ast.AugAssign) and isinstance(last.op, ast.Add) and isinstance(last.target, ast.Name) and last.target.id == iv and
            isinstance(last.value, ast.Constant) and last.value.value == 1):
        return None
    inner = W.body[:-1]
    if not inner or iv in _stored_names(inner) or (_names_in(bound) & _stored_names(W.body)) or _loop_level(inner, (ast.Continue,)):
        return None
    # mutation of the bound's sequence length inside the loop would also differ: only plain names / len(name) with name not stored are accepted above
    rest = blk[k + 2:]
    consumed = 2
    orelse = []
    if rest and isinstance(rest[0], ast.If) and not rest[0].orelse and isinstance(rest[0].test, ast.Compare) and len(rest[0].test.ops) == 1 and \
            isinstance(rest[0].test.ops[0], ast.Eq) and {ast.unparse(rest[0].test.left), ast.unparse(rest[0].test.comparators[0])} == {iv, ast.unparse(bound)}:
        orelse = rest[0].body
        consumed = 3
        rest = rest[1:]
    # i must be dead after the loop (its final value differs between the two spellings)
    later_reads = any(isinstance(x, ast.Name) and x.id == iv and isinstance(x.ctx, ast.Load) for s in rest for x in ast.walk(s))
    # ... including on the next iteration of an enclosing loop / elsewhere in the function: require every other mention of i to be inside this loop
    inside = {id(x) for s in [init, W] + (blk[k + 2:k + 3] if consumed == 3 else []) for x in ast.walk(s)}
    elsewhere = any(isinstance(x, ast.Name) and x.id == iv and id(x) not in inside for x in ast.walk(fn))
    if later_reads or elsewhere:
        return None
    rng = ast.Call(func=ast.Name(id="range", ctx=ast.Load()), args=[bound], keywords=[])
    loop = ast.copy_location(ast.For(target=ast.Name(id=iv, ctx=ast.Store()), iter=rng, body=inner, orelse=orelse, type_comment=None), W)
    ast.fix_missing_locations(loop)
    return [loop], consumed


def _index_loop_to_enumerate(fn, L: ast.For):
    """`for k in range(len(X)): v = X[k]; ...`  ->  `for k, v in enumerate(X): ...`   (X, k, v not rebound in the body; also with a local n = len(X))"""
    if not (isinstance(L.target, ast.Name) and isinstance(L.iter, ast.Call) and ast.unparse(L.iter.func) == "range" and len(L.iter.args) == 1 and
            not L.iter.keywords and L.body):
        return
    kv = L.target.id
    b = L.iter.args[0]
    first = L.body[0]
    if not (isinstance(first, ast.Assign) and len(first.targets) == 1 and isinstance(first.targets[0], ast.Name) and isinstance(first.value, ast.Subscript) and
            isinstance(first.value.value, ast.Name) and isinstance(first.value.slice, ast.Name) and first.value.slice.id == kv and getattr(first, "ann", None) is None):
        return
    X, v = first.value.value.id, first.targets[0].id
    if _index_bounds_nested_loop(L, kv):
        return          # triangular nests keep the index form (canonical choice, see _enumerate_to_index_loop)
    if isinstance(b, ast.Name):
        defs = [s for s in ast.walk(fn) if isinstance(s, ast.Assign) and len(s.targets) == 1 and isinstance(s.targets[0], ast.Name) and s.targets[0].id == b.id]
        n_stores = sum(1 for x in ast.walk(fn) if isinstance(x, ast.Name) and x.id == b.id and isinstance(x.ctx, ast.Store))
        if len(defs) != 1 or n_stores != 1:
            return
        b = defs[0].value
    if not (isinstance(b, ast.Call) and ast.unparse(b.func) == "len" and len(b.args) == 1 and isinstance(b.args[0], ast.Name) and b.args[0].id == X):
        return
    stored = _stored_names(L.body[1:])
    if {kv, v, X} & stored or v == kv or v == X:
        return
    # X must not change length in the body: no method call on X, no store through X
    for x in ast.walk(L):
        if isinstance(x, ast.Call) and isinstance(x.func, ast.Attribute) and isinstance(x.func.value, ast.Name) and x.func.value.id == X:
            return
    L.target = ast.copy_location(ast.Tuple(elts=[ast.Name(id=kv, ctx=ast.Store()), ast.Name(id=v, ctx=ast.Store())], ctx=ast.Store()), L.target)
    L.iter = ast.copy_location(ast.Call(func=ast.Name(id="enumerate", ctx=ast.Load()), args=[ast.Name(id=X, ctx=ast.Load())], keywords=[]), L.iter)
    L.body = L.body[1:] or [ast.copy_location(ast.Pass(), first)]
    ast.fix_missing_locations(L)


def _index_bounds_nested_loop(L: ast.For, kv: str) -> bool:
    return any(isinstance(x, ast.For) and x is not L and isinstance(x.iter, ast.Call) and ast.unparse(x.iter.func) == "range" and
               kv in _names_in(x.iter) for x in ast.walk(L))


def _enumerate_to_index_loop(L: ast.For):
    """converse canonical choice: `for k, v in enumerate(X)` whose index bounds a nested counted loop (triangular nest) becomes
    `for k in range(len(X)): v = X[k]`"""
    if not (isinstance(L.iter, ast.Call) and ast.unparse(L.iter.func) == "enumerate" and len(L.iter.args) == 1 and not L.iter.keywords and
            isinstance(L.iter.args[0], ast.Name) and isinstance(L.target, ast.Tuple) and len(L.target.elts) == 2 and
            all(isinstance(x, ast.Name) for x in L.target.elts)):
        return
    kv, v, X = L.target.elts[0].id, L.target.elts[1].id, L.iter.args[0].id
    if not _index_bounds_nested_loop(L, kv) or {kv, v, X} & _stored_names(L.body):
        return
    first = ast.copy_location(ast.Assign(targets=[ast.Name(id=v, ctx=ast.Store())],
                                         value=ast.Subscript(value=ast.Name(id=X, ctx=ast.Load()), slice=ast.Name(id=kv, ctx=ast.Load()), ctx=ast.Load())), L)
    L.target = ast.copy_location(ast.Name(id=kv, ctx=ast.Store()), L.target)
    L.iter = ast.copy_location(ast.Call(func=ast.Name(id="range", ctx=ast.Load()),
                                        args=[ast.Call(func=ast.Name(id="len", ctx=ast.Load()), args=[ast.Name(id=X, ctx=ast.Load())], keywords=[])], keywords=[]), L.iter)
    L.body = [first] + L.body
    ast.fix_missing_locations(L)


def _loop_targets_dead_outside(fn: ast.AST, loop: ast.For) -> bool:
    """no name bound by the targets of `loop` (and of the loops nested in it) is read outside the loop, other than inside another loop /
    comprehension that binds it itself: turning the loop into a comprehension (whose targets are local to it) then loses no binding"""
    names = set()
    for L in ast.walk(loop):
        if isinstance(L, ast.For):
            names |= {x.id for x in ast.walk(L.target) if isinstance(x, ast.Name)}
    inside = {id(x) for x in ast.walk(loop)}
    rebound = set()
    for L in ast.walk(fn):
        if id(L) in inside:
            continue
        if isinstance(L, ast.For):
            own = {x.id for x in ast.walk(L.target) if isinstance(x, ast.Name)}
            for b in L.body:
                for x in ast.walk(b):
                    if isinstance(x, ast.Name) and x.id in own:
                        rebound.add(id(x))
        elif isinstance(L, (ast.ListComp, ast.SetComp, ast.DictComp, ast.GeneratorExp)):
            own = {x.id for g in L.generators for x in ast.walk(g.target) if isinstance(x, ast.Name)}
            for x in ast.walk(L):
                if isinstance(x, ast.Name) and x.id in own:
                    rebound.add(id(x))
    for x in ast.walk(fn):
        if isinstance(x, ast.Name) and x.id in names and isinstance(x.ctx, ast.Load) and id(x) not in inside and id(x) not in rebound:
            return False
    return True


def _collecting_nest(st, nxt):
    """x = [] | list() | set()  followed by  for..: [for..:] [if c: continue]* [if c:] x.append(e) | x.add(e)   ->   x = [e for .. for .. if ..] / {..}"""
    if not (isinstance(st, ast.Assign) and len(st.targets) == 1 and isinstance(st.targets[0], ast.Name) and isinstance(nxt, ast.For)):
        return None
    v = st.value
    kind = None
    if (isinstance(v, ast.List) and not v.elts) or (isinstance(v, ast.Call) and ast.unparse(v) == "list()"):
        kind = "append"
    elif isinstance(v, ast.Call) and ast.unparse(v) == "set()":
        kind = "add"
    if kind is None:
        return None
    x = st.targets[0].id
    gens: List[ast.comprehension] = []
    elt = None
    cur: ast.stmt = nxt
    while True:
        if not (isinstance(cur, ast.For) and not cur.orelse):
            return None
        g = ast.comprehension(target=cur.target, iter=cur.iter, ifs=[], is_async=0)
        gens.append(g)
        body = list(cur.body)
        # leading guard clauses
        while body and isinstance(body[0], ast.If) and not body[0].orelse and len(body[0].body) == 1 and isinstance(body[0].body[0], ast.Continue) and len(body) > 1:
            g.ifs.append(_negate(body[0].test))
            body = body[1:]
        if len(body) != 1:
            return None
        only = body[0]
        while isinstance(only, ast.If) and not only.orelse and len(only.body) == 1:
            g.ifs.append(only.test)
            only = only.body[0]
        if isinstance(only, ast.For):
            cur = only
            continue
        if isinstance(only, ast.Expr) and isinstance(only.value, ast.Call) and isinstance(only.value.func, ast.Attribute) and only.value.func.attr == kind and \
                isinstance(only.value.func.value, ast.Name) and only.value.func.value.id == x and len(only.value.args) == 1 and not only.value.keywords:
            elt = only.value.args[0]
            break
        return None
    mentioned = set()
    for g in gens:
        mentioned |= _names_in(g.iter) | _names_in(g.target) | {n for c in g.ifs for n in _names_in(c)}
    if x in mentioned or x in _names_in(elt):
        return None
    if len(gens) == 1 and not gens[0].ifs and kind == "append":
        return None          # the plain form is handled by the simpler rule below (kept for its own tests)
    comp = (ast.ListComp if kind == "append" else ast.SetComp)(elt=elt, generators=gens)
    a = ast.copy_location(ast.Assign(targets=[st.targets[0]], value=ast.copy_location(comp, nxt)), st)
    if getattr(st, "ann", None) is not None:
        a.ann = st.ann
    ast.fix_missing_locations(a)
    return a


def _unroll_literal_loop(fn, L: ast.For):
    """`for a, b in ((x1, y1), (x2, y2), ...): BODY` over a literal of plain reads (no break / continue, targets dead outside the loop)
    is BODY[x1, y1]; BODY[x2, y2]; ... : a table-driven dispatch reads like the chain of statements it stands for"""
    import copy as _copy
    if L.orelse or not isinstance(L.iter, (ast.Tuple, ast.List)) or not (1 <= len(L.iter.elts) <= 12):
        return None
    if isinstance(L.target, ast.Name):
        names = [L.target.id]
    elif isinstance(L.target, ast.Tuple) and all(isinstance(x, ast.Name) for x in L.target.elts):
        names = [x.id for x in L.target.elts]
    else:
        return None
    rows = []
    for el in L.iter.elts:
        if len(names) == 1 and isinstance(L.target, ast.Name):
            if not _plain_read(el):
                return None
            rows.append([el])
        else:
            if not (isinstance(el, (ast.Tuple, ast.List)) and len(el.elts) == len(names) and all(_plain_read(x) for x in el.elts)):
                return None
            rows.append(list(el.elts))
    if _loop_level(L.body, (ast.Break, ast.Continue)) or set(names) & _stored_names(L.body):
        return None
    inside = {id(x) for x in ast.walk(L)}
    if any(isinstance(x, ast.Name) and x.id in names and id(x) not in inside for x in ast.walk(fn)):
        return None
    # names read by the rows must not be rebound by the body (the literal is evaluated once, before the first iteration)
    row_names = {n for r in rows for x in r for n in _names_in(x)}
    if row_names & _stored_names(L.body):
        return None
    out = []
    for r in rows:
        env = dict(zip(names, r))

        class S(ast.NodeTransformer):
            def visit_Name(self, n):
                if isinstance(n.ctx, ast.Load) and n.id in env:
                    return ast.copy_location(_copy.deepcopy(env[n.id]), n)
                return n
        for st in L.body:
            out.append(S().visit(_copy.deepcopy(st)))
    for st in out:
        ast.fix_missing_locations(st)
    return out


def _quantifier_return(st):
    """`return any(C for t in it)`, `return all(...)` and their negations as the early-exit loop they abbreviate (one generator, no filter)"""
    if not isinstance(st, ast.Return) or st.value is None:
        return None
    v, neg = st.value, False
    if isinstance(v, ast.UnaryOp) and isinstance(v.op, ast.Not):
        v, neg = v.operand, True
    if not (isinstance(v, ast.Call) and isinstance(v.func, ast.Name) and v.func.id in ("any", "all") and len(v.args) == 1 and not v.keywords and
            isinstance(v.args[0], (ast.GeneratorExp, ast.ListComp)) and len(v.args[0].generators) == 1 and not v.args[0].generators[0].ifs
            and not v.args[0].generators[0].is_async):
        return None
    g = v.args[0].generators[0]
    is_any = v.func.id == "any"
    test = v.args[0].elt if is_any else _negate(v.args[0].elt)
    hit = is_any          # value of the quantifier when the loop exits early
    early, late = (hit, not hit)
    if neg:
        early, late = (not early, not late)
    loop = ast.copy_location(ast.For(target=g.target, iter=g.iter, orelse=[], type_comment=None,
                                     body=[ast.If(test=test, body=[ast.Return(value=ast.Constant(value=early))], orelse=[])]), st)
    fin = ast.copy_location(ast.Return(value=ast.Constant(value=late)), st)
    ast.fix_missing_locations(loop)
    ast.fix_missing_locations(fin)
    return [loop, fin]


def _plain_read(e: ast.AST) -> bool:
    """name, constant, or attribute chain on a name (a field read)"""
    while isinstance(e, ast.Attribute):
        e = e.value
    return isinstance(e, (ast.Name, ast.Constant))


def _negate(t: ast.AST) -> ast.AST:
    if isinstance(t, ast.UnaryOp) and isinstance(t.op, ast.Not):
        return t.operand
    if isinstance(t, ast.Compare) and len(t.ops) == 1:
        inv = {ast.Is: ast.IsNot, ast.IsNot: ast.Is, ast.Eq: ast.NotEq, ast.NotEq: ast.Eq, ast.In: ast.NotIn, ast.NotIn: ast.In,
               ast.Lt: ast.GtE, ast.GtE: ast.Lt, ast.Gt: ast.LtE, ast.LtE: ast.Gt}
        if type(t.ops[0]) in (ast.Is, ast.IsNot, ast.In, ast.NotIn):
            return ast.copy_location(ast.Compare(left=t.left, ops=[inv[type(t.ops[0])]()], comparators=t.comparators), t)
    return ast.copy_location(ast.UnaryOp(op=ast.Not(), operand=t), t)


def _as_load(t: ast.AST) -> ast.AST:
    import copy as _c
    t = _c.deepcopy(t)
    for x in ast.walk(t):
        if hasattr(x, "ctx"):
            x.ctx = ast.Load()
    return t


def normalise_tree(tree: ast.AST, computed: Set[str] = frozenset(), records: Optional[Dict[str, List[str]]] = None,
                   signatures: Optional[Dict[str, List[str]]] = None) -> int:
    """In-place canonicalisation applied to every module before any analysis, so that the rules do not depend on incidental syntax:
      * `x: T = v`  becomes  `x = v`  (the annotation is kept on the node as `.ann` for type inference);
      * inert statements are dropped inside functions: docstrings, `pass`, logging calls whose arguments are effect-free.
    Returns the number of statements dropped."""
    removed = 0
    _canonical_receivers(tree)
    # annotated assignments first, so that every statement-level canonical form sees plain assignments
    for fn in [n for n in ast.walk(tree) if isinstance(n, (ast.FunctionDef, ast.AsyncFunctionDef))]:
        for node in ast.walk(fn):
            for fld in ("body", "orelse", "finalbody"):
                blk = getattr(node, fld, None)
                if not isinstance(blk, list) or not blk or not isinstance(blk[0], ast.stmt):
                    continue
                new = []
                for st in blk:
                    if isinstance(st, ast.AnnAssign) and st.value is not None and isinstance(st.target, (ast.Name, ast.Attribute)):
                        a = ast.copy_location(ast.Assign(targets=[st.target], value=st.value), st)
                        a.end_lineno, a.end_col_offset = getattr(st, "end_lineno", None), getattr(st, "end_col_offset", None)
                        a.ann = st.annotation
                        new.append(a)
                    else:
                        new.append(st)
                setattr(node, fld, new)
    _default_into_parameter(tree)
    _lower_match(tree)
    _lower_walrus(tree)
    _extend_generators_to_loops(tree)
    _fold_constants(tree)
    _scalar_replace_records(tree, records or {})
    _hoist_package_imports(tree)
    _format_calls_to_fstrings(tree)
    _simplify_not(tree)
    _function_refs_to_lambdas(tree)
    _operator_getters_to_lambdas(tree)
    _mapped_generators(tree)
    _enumerate_start_to_zero(tree)
    _chained_generators(tree)
    _partial_jobs_to_submit_args(tree, signatures or {})
    if signatures:
        _keywords_to_positional(tree, signatures)
    _flag_loops_to_for_else(tree)
    _keys_loops_to_items(tree)
    _canonical_comparisons(tree)
    _canonical_statements(tree)
    _split_live_ranges(tree)
    _eliminate_aliases(tree)
    if os.environ.get("PGSTAT_NO_TEMP_INLINE") != "1":
        _propagate_field_reads(tree, computed)      # `computed`: names of properties (their reads run code: never duplicated)
        if os.environ.get("PGSTAT_NO_ELEMENT_READS") != "1":
            _propagate_element_reads(tree)
        for _pass in range(3):
            _inline_adjacent_temporaries(tree)
            _canonical_statements(tree)
            _eliminate_aliases(tree)
            _coalesce_forwarded_temporaries(tree)
    _appended_temporaries(tree)
    _expand_row_stores(tree)
    for fn in [n for n in ast.walk(tree) if isinstance(n, (ast.FunctionDef, ast.AsyncFunctionDef))]:
        for node in ast.walk(fn):
            for fld in ("body", "orelse", "finalbody"):
                blk = getattr(node, fld, None)
                if not isinstance(blk, list) or not blk or not isinstance(blk[0], ast.stmt):
                    continue
                new = []
                for st in blk:
                    if _is_inert(st) and not isinstance(node, ast.ClassDef):
                        removed += 1
                    else:
                        new.append(st)
                if not new and fld == "body":
                    new = [ast.copy_location(ast.Pass(), blk[0])]
                setattr(node, fld, new)
    return removed


class Model:
    """All modules of the package, classes with MRO, functions, alias maps."""

    def __init__(self, repo: Path):
        self.repo = Path(repo)
        self.pkgdir = self.repo / PKG
        if not self.pkgdir.is_dir():
            raise AnalysisError("model", f"package directory {self.pkgdir} not found")
        self.modules: Dict[str, Module] = {}
        self.classes: Dict[str, ClassInfo] = {}
        self.functions: Dict[str, FuncInfo] = {}
        self.digest = hashlib.sha256()
        for p in sorted(self.pkgdir.glob("*.py")):
            src = p.read_text(encoding="utf-8")
            self.digest.update(p.name.encode() + b"\0" + src.encode())
            import warnings
            with warnings.catch_warnings():
                warnings.simplefilter("ignore")
                tree = ast.parse(src, filename=str(p))
            mname = PKG if p.stem == "__init__" else f"{PKG}.{p.stem}"
            _canonical_receivers(tree)
            _propagate_module_constants(tree)
            _prelower_conditional_calls(tree)
            self.modules[mname] = Module(mname, f"{PKG}/{p.name}", src, tree)
        from . import inline as _inline
        # names of properties anywhere in the package: reading one runs code, so such a read is never duplicated by a rewriting
        computed = {s.name for m in self.modules.values() for c in ast.walk(m.tree) if isinstance(c, ast.ClassDef) for s in c.body
                    if isinstance(s, ast.FunctionDef) and any(ast.unparse(d).split(".")[-1] in ("property", "cached_property") for d in s.decorator_list)}
        _inline.COMPUTED = computed
        self.inlined = []
        for mname, m in self.modules.items():
            n_inl, log = _inline.inline_module_helpers(m.tree, mname)
            self.inlined += [f"{m.relpath.split('/')[-1]}: {l}" for l in log]
        self.helpers_dropped = _inline.drop_unreferenced_helpers([m.tree for m in self.modules.values()])
        recs = record_classes([m.tree for m in self.modules.values()])
        sigs_ = package_signatures([m.tree for m in self.modules.values()])
        for m in self.modules.values():
            self.inert_removed = getattr(self, "inert_removed", 0) + normalise_tree(m.tree, computed, recs, sigs_)
        for m in self.modules.values():
            self._collect_aliases(m)
        for m in self.modules.values():
            self._collect_defs(m)
        self._mro_cache: Dict[str, List[ClassInfo]] = {}
        self.subclasses: Dict[str, List[ClassInfo]] = {}
        for c in self.classes.values():
            for b in self.mro(c)[1:]:
                self.subclasses.setdefault(b.name, []).append(c)

    # ---- collection -------------------------------------------------------------------------
    def _collect_aliases(self, m: Module):
        pkgparts = m.name.split(".")
        for node in ast.walk(m.tree):
            if isinstance(node, ast.Import):
                for a in node.names:
                    if a.asname:
                        m.aliases[a.asname] = a.name
                    else:
                        m.aliases[a.name.split(".")[0]] = a.name.split(".")[0]
            elif isinstance(node, ast.ImportFrom):
                if node.level:
                    base = pkgparts[:-1] if m.name != PKG else pkgparts
                    if node.level > 1:
                        base = base[:-(node.level - 1)]
                    mod = ".".join(base + ([node.module] if node.module else []))
                else:
                    mod = node.module or ""
                for a in node.names:
                    if a.name == "*":
                        m.aliases.setdefault("*", "")
                        m.aliases["*"] += ("," if m.aliases["*"] else "") + mod
                    else:
                        m.aliases[a.asname or a.name] = f"{mod}.{a.name}"

    def _decos(self, m: Module, node) -> List[str]:
        out = []
        for d in node.decorator_list:
            target = d.func if isinstance(d, ast.Call) else d
            # nb.njit(sig)(...) style: keep innermost callable name
            while isinstance(target, ast.Call):
                target = target.func
            dn = dotted(target) or ""
            out.append(self.expand(m, dn))
        return out

    def _collect_defs(self, m: Module):
        def add_func(node, cls: Optional[ClassInfo], parent: Optional[FuncInfo]) -> FuncInfo:
            if parent is not None:
                qn = f"{parent.qualname}.<locals>.{node.name}"
            elif cls is not None:
                qn = f"{cls.name}.{node.name}"
            else:
                qn = node.name
            decos = self._decos(m, node)
            kind = "function" if cls is None or parent is not None else "method"
            if cls is not None and parent is None:
                if "property" in decos or any(d.split(".")[-1] in ("cached_property", "lazy_property", "lazyproperty") for d in decos):
                    kind = "property"          # read like an attribute: `obj.x` runs the body (once, for the caching kinds: R-DECORATORS reports those)
                elif any(d.endswith(".setter") for d in decos):
                    kind = "setter"
                elif "staticmethod" in decos:
                    kind = "staticmethod"
                elif "classmethod" in decos:
                    kind = "classmethod"
            fi = FuncInfo(qn, node.name, node, m, cls, parent, kind, decos,
                          abstract=any(d.endswith("abstractmethod") for d in decos))
            if kind == "setter":
                qn = qn + ".setter"
                fi.qualname = qn
            self.functions[qn] = fi
            for sub in self._direct_nested(node):
                fi.nested.append(add_func(sub, cls, fi))
            return fi

        for node in m.tree.body:
            if isinstance(node, (ast.FunctionDef, ast.AsyncFunctionDef)):
                m.functions[node.name] = add_func(node, None, None)
            elif isinstance(node, ast.ClassDef):
                ci = ClassInfo(node.name, node, m, [dotted(b) or "" for b in node.bases],
                               decorators=self._decos(m, node))
                for kw in node.keywords:
                    pass
                m.classes[node.name] = ci
                self.classes[node.name] = ci
                for sub in node.body:
                    if isinstance(sub, (ast.FunctionDef, ast.AsyncFunctionDef)):
                        fi = add_func(sub, ci, None)
                        if fi.kind == "property":
                            ci.getters[sub.name] = fi
                        elif fi.kind == "setter":
                            ci.setters[sub.name] = fi
                        else:
                            ci.methods[sub.name] = fi
                    elif isinstance(sub, ast.Assign):
                        for t in sub.targets:
                            if isinstance(t, ast.Name):
                                ci.class_attrs[t.id] = sub.value
                    elif isinstance(sub, ast.AnnAssign) and isinstance(sub.target, ast.Name):
                        ci.annotations[sub.target.id] = sub.annotation
                        if sub.value is not None:
                            ci.class_attrs[sub.target.id] = sub.value
            elif isinstance(node, ast.Assign):
                for t in node.targets:
                    if isinstance(t, ast.Name):
                        m.globals_[t.id] = node.value
            elif isinstance(node, ast.AnnAssign) and isinstance(node.target, ast.Name) and node.value is not None:
                m.globals_[node.target.id] = node.value

    @staticmethod
    def _direct_nested(fnode) -> List[ast.FunctionDef]:
        out = []

        def walk(n):
            for ch in ast.iter_child_nodes(n):
                if isinstance(ch, (ast.FunctionDef, ast.AsyncFunctionDef)):
                    out.append(ch)
                elif isinstance(ch, (ast.ClassDef, ast.Lambda)):
                    continue
                else:
                    walk(ch)
        walk(fnode)
        return out

    # ---- names ------------------------------------------------------------------------------
    def expand(self, m: Module, name: str) -> str:
        """Expand a dotted source name through the module's import aliases to a canonical dotted name.
        Package re-exports (`from pygamma_agreement import X`) are chased to the defining module."""
        if not name:
            return name
        head, _, rest = name.partition(".")
        full = name
        if head in m.aliases:
            full = m.aliases[head] + ("." + rest if rest else "")
        elif head in m.classes or head in m.functions or head in m.globals_:
            full = f"{m.name}.{name}"
        return self._chase(full)

    def _chase(self, full: str, depth: int = 0) -> str:
        if depth > 5 or not full.startswith(PKG):
            return full
        parts = full.split(".")
        # find longest module prefix
        for k in range(len(parts), 0, -1):
            mn = ".".join(parts[:k])
            if mn in self.modules:
                mod = self.modules[mn]
                rest = parts[k:]
                if not rest:
                    return full
                if rest[0] in mod.classes or rest[0] in mod.functions or rest[0] in mod.globals_:
                    return full
                if rest[0] in mod.aliases:
                    return self._chase(mod.aliases[rest[0]] + ("." + ".".join(rest[1:]) if rest[1:] else ""),
                                       depth + 1)
                if "*" in mod.aliases:
                    for star in mod.aliases["*"].split(","):
                        sm = self.modules.get(star)
                        if sm and (rest[0] in sm.classes or rest[0] in sm.functions):
                            return f"{star}." + ".".join(rest)
                return full
        return full

    def lookup(self, canonical: str):
        """canonical dotted name -> ClassInfo | FuncInfo | None (package entities only)."""
        if not canonical.startswith(PKG):
            return None
        parts = canonical.split(".")
        for k in range(len(parts) - 1, 0, -1):
            mn = ".".join(parts[:k])
            if mn in self.modules:
                mod = self.modules[mn]
                rest = parts[k:]
                if len(rest) == 1:
                    return mod.classes.get(rest[0]) or mod.functions.get(rest[0])
                if len(rest) == 2 and rest[0] in mod.classes:
                    return self.find_method(mod.classes[rest[0]], rest[1])
        return None

    # ---- classes ----------------------------------------------------------------------------
    def mro(self, c: ClassInfo) -> List[ClassInfo]:
        if c.name in self._mro_cache:
            return self._mro_cache[c.name]
        bases = []
        for b in c.base_names:
            bn = b.split(".")[-1]
            if bn in self.classes:
                bases.append(self.classes[bn])
        seqs = [self.mro(b)[:] for b in bases] + [bases[:]]
        res = [c]
        while any(seqs):
            seqs = [s for s in seqs if s]
            for s in seqs:
                cand = s[0]
                if not any(cand in t[1:] for t in seqs):
                    break
            else:  # pragma: no cover
                raise AnalysisError("model", f"inconsistent MRO for {c.name}")
            res.append(cand)
            for s in seqs:
                if s and s[0] == cand:
                    del s[0]
        self._mro_cache[c.name] = res
        return res

    def is_subclass(self, name: str, base: str) -> bool:
        c = self.classes.get(name)
        return c is not None and any(k.name == base for k in self.mro(c))

    def find_method(self, c: ClassInfo, name: str) -> Optional[FuncInfo]:
        for k in self.mro(c):
            if name in k.methods:
                return k.methods[name]
            if name in k.getters:
                return k.getters[name]
        return None

    def find_getter(self, c: ClassInfo, name: str) -> Optional[FuncInfo]:
        for k in self.mro(c):
            if name in k.getters:
                return k.getters[name]
            if name in k.methods:
                return None
        return None

    def find_setter(self, c: ClassInfo, name: str) -> Optional[FuncInfo]:
        for k in self.mro(c):
            if name in k.setters:
                return k.setters[name]
        return None

    def dispatch(self, cname: str, name: str, getter: bool = False) -> List[FuncInfo]:
        """CHA: method found through the MRO of `cname` plus every override in its subclasses."""
        c = self.classes.get(cname)
        if c is None:
            return []
        out: List[FuncInfo] = []
        f = (self.find_getter if getter else self.find_method)(c, name)
        if f is not None and (getter or f.kind != "property"):
            out.append(f)
        for s in self.subclasses.get(cname, []):
            tbl = s.getters if getter else s.methods
            if name in tbl and tbl[name] not in out:
                out.append(tbl[name])
        return out

    def methods_named(self, name: str) -> List[FuncInfo]:
        return [c.methods[name] for c in self.classes.values() if name in c.methods]

    def field_type(self, cname: str, attr: str) -> Optional[Ty]:
        c = self.classes.get(cname)
        names = [k.name for k in self.mro(c)] if c else [cname]
        for n in names:
            if (n, attr) in FIELD_TYPES:
                return FIELD_TYPES[(n, attr)]
        if c:
            for k in self.mro(c):
                if attr in k.annotations:
                    t = ann_to_ty(k.annotations[attr], set(self.classes))
                    if t:
                        return t
        return None

    def return_type(self, f: FuncInfo) -> Optional[Ty]:
        if f.qualname in RETURN_TYPES:
            return RETURN_TYPES[f.qualname]
        t = ann_to_ty(getattr(f.node, "returns", None), set(self.classes))
        return t

    def class_fields(self, cname: str) -> Dict[str, List[Tuple[FuncInfo, ast.AST]]]:
        """fields assigned through `self.x = ...` in any method of the class (own methods only)."""
        c = self.classes[cname]
        out: Dict[str, List[Tuple[FuncInfo, ast.AST]]] = {}
        for f in list(c.methods.values()) + list(c.getters.values()) + list(c.setters.values()):
            sn = f.self_name
            if not sn:
                continue
            for n in ast.walk(f.node):
                tg = []
                if isinstance(n, ast.Assign):
                    tg = n.targets
                elif isinstance(n, (ast.AnnAssign, ast.AugAssign)):
                    tg = [n.target]
                for t in tg:
                    for e in (t.elts if isinstance(t, ast.Tuple) else [t]):
                        if isinstance(e, ast.Attribute) and isinstance(e.value, ast.Name) and e.value.id == sn:
                            out.setdefault(e.attr, []).append((f, n))
        return out

    # ---- functions --------------------------------------------------------------------------
    def fn(self, qualname: str, rule: str = "model") -> FuncInfo:
        f = self.functions.get(qualname)
        if f is None:
            # a private helper may have moved between "static method of its class" and "module-level function" (or to a base / sibling class):
            # it is the same anchor when exactly one function of that name exists in the package
            bare = qualname.split(".")[-1]
            if bare.startswith("_") and not bare.startswith("__"):
                same = [g for q, g in self.functions.items() if g.name == bare and not isinstance(g.node, ast.Lambda) and "<locals>" not in q]
                if len(same) == 1:
                    return same[0]
            raise AnalysisError(rule, f"anchor function {qualname} not found in the package")
        return f

    def all_functions(self, include_notebook: bool = False) -> List[FuncInfo]:
        return [f for f in self.functions.values()
                if include_notebook or not f.module.name.endswith(".notebook")]


# --------------------------------------------------------------------------------------------
# AST helpers shared by the rules
# --------------------------------------------------------------------------------------------

def walk_no_nested(node: ast.AST, include_lambda: bool = True) -> Iterator[ast.AST]:
    """ast.walk that does not descend into nested function/class definitions."""
    stack = [node]
    first = True
    while stack:
        n = stack.pop()
        if not first and isinstance(n, (ast.FunctionDef, ast.AsyncFunctionDef, ast.ClassDef)):
            continue
        if not include_lambda and isinstance(n, ast.Lambda) and not first:
            continue
        first = False
        yield n
        stack.extend(reversed(list(ast.iter_child_nodes(n))))


def body_stmts(fnode) -> List[ast.stmt]:
    """function body without the leading docstring"""
    b = list(fnode.body)
    if b and isinstance(b[0], ast.Expr) and isinstance(b[0].value, ast.Constant) and isinstance(b[0].value.value, str):
        b = b[1:]
    return b


def parents_map(root: ast.AST) -> Dict[ast.AST, ast.AST]:
    pm = {}
    for n in ast.walk(root):
        for ch in ast.iter_child_nodes(n):
            pm[ch] = n
    return pm


def const_value(node: ast.AST):
    if isinstance(node, ast.Constant):
        return node.value
    if isinstance(node, ast.UnaryOp) and isinstance(node.op, ast.USub) and isinstance(node.operand, ast.Constant):
        return -node.operand.value
    return None


def call_name(m: Model, f: FuncInfo, call: ast.Call) -> str:
    d = dotted(call.func)
    return m.expand(f.module, d) if d else ""


def kwarg(call: ast.Call, name: str) -> Optional[ast.AST]:
    for k in call.keywords:
        if k.arg == name:
            return k.value
    return None


def arg_of(call: ast.Call, pos: int, name: Optional[str] = None) -> Optional[ast.AST]:
    """positional-or-keyword argument (no *args support)"""
    plain = [a for a in call.args if not isinstance(a, ast.Starred)]
    if len(plain) == len(call.args) and pos < len(plain):
        return plain[pos]
    if name:
        return kwarg(call, name)
    return None


def canon(node, whole_function: bool = False) -> str:
    return norm(canon_tree(node, whole_function))


def canon_tree(node, whole_function: bool = False) -> ast.AST:
    """alpha-normalised tree: variables bound inside the construct (comprehension targets, lambda parameters; with
    whole_function=True every stored local of a function body) are renamed _b0, _b1, ... in order of first binding, so that
    two constructs differing only in the names of their bound variables have the same text."""
    import copy as _copy
    if isinstance(node, str):
        try:
            node = ast.parse(node, mode="eval").body
        except SyntaxError:
            node = ast.parse(node).body[0]
    node = _copy.deepcopy(node)
    order: List[str] = []

    def bind(t):
        for x in ast.walk(t):
            if isinstance(x, ast.Name) and x.id not in order:
                order.append(x.id)

    class V(ast.NodeVisitor):
        def visit_ListComp(self, n):
            for g in n.generators:
                bind(g.target)
            self.generic_visit(n)
        visit_SetComp = visit_GeneratorExp = visit_DictComp = visit_ListComp

        def visit_Lambda(self, n):
            for a in n.args.args:
                if a.arg not in order:
                    order.append(a.arg)
            self.generic_visit(n)

        def visit_For(self, n):
            if whole_function:
                bind(n.target)
            self.generic_visit(n)

        def visit_AnnAssign(self, n):
            self.generic_visit(n)
            if whole_function and isinstance(n.target, ast.Name) and n.target.id not in order:
                order.append(n.target.id)

        def visit_Assign(self, n):
            self.generic_visit(n)
            if whole_function:
                for t in n.targets:
                    for x in ast.walk(t):
                        if isinstance(x, ast.Name) and isinstance(x.ctx, ast.Store) and x.id not in order:
                            order.append(x.id)
    V().visit(node)
    m = {n: f"_b{i}" for i, n in enumerate(order)}

    class R(ast.NodeTransformer):
        def visit_Name(self, n):
            return ast.copy_location(ast.Name(id=m[n.id], ctx=n.ctx), n) if n.id in m else n

        def visit_arg(self, n):
            if n.arg in m:
                n.arg = m[n.arg]
            return n
    return R().visit(node)
