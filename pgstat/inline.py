"""AST-level inlining of private helper functions at model-load time.

A refactoring that extracts part of an analysed function into a new private helper must not change any verdict, so calls to
private helpers that are *not* anchors of the rule set (i.e. helpers that do not exist under that name in the pinned tree) are
replaced by the helper's body before any rule looks at the code - parameters substituted, locals renamed, `return E` turned into
an assignment to the call's target (tail returns become if/else), single-expression helpers substituted inside expressions.
Helpers that cannot be inlined safely (generators, returns inside loops, recursion, *args) are left as calls.
"""
from __future__ import annotations

import ast
import copy
from typing import Dict, List, Optional, Tuple

# private functions of the pinned tree that the rules use as anchors: never inlined
KNOWN_PRIVATE = {
    "_category_index", "_build_arrays_continuum", "_build_arrays_alignment", "_compute_alignment_disorders", "_get_all_valid_alignments",
    "_remove_pivot_segment", "_random_from_segments", "_has_been_init", "_set_gap_information", "_set_nb_units_information",
    "_set_duration_information", "_set_categories_information", "_compute_best_alignment_job", "_compute_fast_alignment_job",
    "_compute_soft_alignment_job", "_compute_gamma_k_job", "_repr_png_",
}
MAX_DEPTH = 3


class _NotInlinable(Exception):
    pass


def _is_njit(fn: ast.FunctionDef) -> bool:
    return any("njit" in ast.unparse(d) or "dissimilarity_dec" in ast.unparse(d) for d in fn.decorator_list)


def _params(fn: ast.FunctionDef) -> Tuple[List[str], Dict[str, ast.AST]]:
    a = fn.args
    if a.vararg or a.kwarg or a.posonlyargs:
        raise _NotInlinable("star / positional-only parameters")
    names = [x.arg for x in a.args] + [x.arg for x in a.kwonlyargs]
    # a default is evaluated once, when the function is defined: only immutable literals can be re-evaluated at each inlined call
    for d in list(a.defaults) + [d for d in a.kw_defaults if d is not None]:
        lit = isinstance(d, ast.Constant) or (isinstance(d, ast.UnaryOp) and isinstance(d.operand, ast.Constant))
        if not lit:
            raise _NotInlinable("non-literal default value")
    defaults: Dict[str, ast.AST] = {}
    for n, d in zip(reversed([x.arg for x in a.args]), reversed(a.defaults)):
        defaults[n] = d
    for n, d in zip([x.arg for x in a.kwonlyargs], a.kw_defaults):
        if d is not None:
            defaults[n] = d
    return names, defaults


class _Rename(ast.NodeTransformer):
    def __init__(self, subst: Dict[str, ast.AST], rename: Dict[str, str]):
        self.subst, self.rename = subst, rename

    def visit_Name(self, n: ast.Name):
        if n.id in self.subst and isinstance(n.ctx, ast.Load):
            return copy.deepcopy(self.subst[n.id])
        if n.id in self.rename:
            return ast.copy_location(ast.Name(id=self.rename[n.id], ctx=n.ctx), n)
        return n

    def visit_ExceptHandler(self, n):
        if n.name in self.rename:
            n.name = self.rename[n.name]
        return self.generic_visit(n)


COMPUTED: set = set()          # property names of the package (set by the model before inlining)


def _simple(e: ast.AST) -> bool:
    """expression that may be duplicated / reordered freely: a name, a constant, a chain of plain field reads on a name"""
    if isinstance(e, (ast.Name, ast.Constant)):
        return True
    if isinstance(e, ast.Attribute):
        if isinstance(e.value, ast.Name) and e.value.id in ("self", "cls"):
            return True                 # self.x (the properties of self used this way are pure accessors)
        chain = e
        while isinstance(chain, ast.Attribute):
            if chain.attr in COMPUTED:
                return False
            chain = chain.value
        return isinstance(chain, ast.Name)
    return False


def _bind(helper: ast.FunctionDef, call: ast.Call, receiver: Optional[ast.AST], is_method: bool) -> Tuple[Dict[str, ast.AST], List[ast.stmt], Dict[str, str]]:
    names, defaults = _params(helper)
    if any(isinstance(a, ast.Starred) for a in call.args) or any(k.arg is None for k in call.keywords):
        raise _NotInlinable("star arguments")
    binding: Dict[str, ast.AST] = {}
    pnames = list(names)
    if is_method:
        if not pnames:
            raise _NotInlinable("method without receiver")
        binding[pnames[0]] = receiver if receiver is not None else ast.Name(id="self", ctx=ast.Load())
        pnames = pnames[1:]
    if len(call.args) > len(pnames):
        raise _NotInlinable("too many arguments")
    for n, a in zip(pnames, call.args):
        binding[n] = a
    for k in call.keywords:
        if k.arg not in pnames or k.arg in binding:
            raise _NotInlinable("unknown / duplicate keyword")
        binding[k.arg] = k.value
    for n in pnames:
        if n not in binding:
            if n not in defaults:
                raise _NotInlinable("missing argument")
            binding[n] = defaults[n]
    # parameters that the helper rebinds, or non-simple arguments used more than once, become fresh locals
    stored = {x.id for x in ast.walk(helper) if isinstance(x, ast.Name) and isinstance(x.ctx, ast.Store)}
    uses: Dict[str, int] = {}
    for x in ast.walk(helper):
        if isinstance(x, ast.Name) and isinstance(x.ctx, ast.Load):
            uses[x.id] = uses.get(x.id, 0) + 1
    pre: List[ast.stmt] = []
    # one suffix per inlined instance: the locals of two inlined calls of the same helper stay distinct (each bound once)
    _bind.counter[helper.name] = _bind.counter.get(helper.name, 0) + 1
    suffix = "__" + helper.name.strip("_") + ("" if _bind.counter[helper.name] == 1 else f"_{_bind.counter[helper.name]}")
    rename = {n: n + suffix for n in stored if n not in binding}
    subst: Dict[str, ast.AST] = {}
    for n, a in binding.items():
        if n in stored or (not _simple(a) and uses.get(n, 0) != 1):
            new = n + suffix
            pre.append(ast.Assign(targets=[ast.Name(id=new, ctx=ast.Store())], value=copy.deepcopy(a)))
            rename[n] = new
        else:
            subst[n] = a
    return subst, pre, rename


_bind.counter = {}


def _tail_returns(stmts: List[ast.stmt], make) -> List[ast.stmt]:
    """replace returns by `make(value)` statements; a return that is not in tail position turns the rest of its block into an else-branch"""
    out: List[ast.stmt] = []
    for i, st in enumerate(stmts):
        rest = stmts[i + 1:]
        if isinstance(st, ast.Return):
            out.extend(make(st.value, st))
            return out
        if isinstance(st, ast.If) and _has_return(st):
            body = _tail_returns(st.body, make)
            if _terminates(st.body):
                orelse = _tail_returns((st.orelse or []) + rest, make)
                out.append(ast.copy_location(ast.If(test=st.test, body=body or [ast.Pass()], orelse=orelse), st))
                return out
            if st.orelse and _terminates(st.orelse):
                orelse = _tail_returns(st.orelse, make)
                body = _tail_returns(st.body + rest, make)
                out.append(ast.copy_location(ast.If(test=st.test, body=body or [ast.Pass()], orelse=orelse), st))
                return out
            raise _NotInlinable("conditional return that is not terminating")
        if isinstance(st, ast.With) and _has_return(st) and not any(isinstance(x, (ast.For, ast.While, ast.Try)) and _has_return(x) for x in ast.walk(st)):
            # `with ctx: B` then `return E` (E plain names / constants / a tuple of them): the final return is evaluated inside the block instead of
            # after it - same value (only locals are read), and every return inside B then is in tail position of B
            if all(isinstance(r, ast.Return) for r in rest) and len(rest) <= 1 and \
                    (not rest or rest[0].value is None or all(isinstance(x, (ast.Name, ast.Constant, ast.Tuple, ast.Load)) for x in ast.walk(rest[0].value))):
                inner = _tail_returns(list(st.body) + list(rest), make)
                new_with = ast.copy_location(ast.With(items=st.items, body=inner or [ast.Pass()], type_comment=None), st)
                out.append(new_with)
                return out
            raise _NotInlinable("return inside a with block that is not in tail position")
        if _has_return(st):
            raise _NotInlinable("return inside a loop / try / with")
        out.append(st)
    return out


def _has_return(n: ast.AST) -> bool:
    return any(isinstance(x, ast.Return) for x in ast.walk(n) if not isinstance(x, (ast.FunctionDef, ast.Lambda)) or x is n)


def _terminates(blk: List[ast.stmt]) -> bool:
    if not blk:
        return False
    last = blk[-1]
    if isinstance(last, ast.With):
        return _terminates(last.body)
    if isinstance(last, (ast.Return, ast.Raise)):
        return True
    if isinstance(last, ast.If) and last.orelse:
        return _terminates(last.body) and _terminates(last.orelse)
    return False


def _returns_to_breaks(body: List[ast.stmt]) -> List[ast.stmt]:
    """a helper whose last statement is a loop and whose only returns are bare `return`s directly inside that loop (not in a nested loop):
    leaving the helper there is leaving the loop, so each return is a break"""
    if not body or not isinstance(body[-1], (ast.For, ast.While)) or body[-1].orelse:
        return body
    L = body[-1]
    rets = [x for s in body for x in ast.walk(s) if isinstance(x, ast.Return)]
    if not rets or any(r.value is not None and not (isinstance(r.value, ast.Constant) and r.value.value is None) for r in rets):
        return body

    def direct(stmts) -> List[ast.Return]:
        out = []
        for st in stmts:
            if isinstance(st, ast.Return):
                out.append(st)
            elif isinstance(st, (ast.For, ast.While, ast.FunctionDef, ast.AsyncFunctionDef, ast.Try, ast.With)):
                continue
            else:
                for fld in ("body", "orelse"):
                    sub = getattr(st, fld, None)
                    if isinstance(sub, list) and sub and isinstance(sub[0], ast.stmt):
                        out.extend(direct(sub))
        return out
    if {id(r) for r in direct(L.body)} != {id(r) for r in rets}:
        return body
    new = copy.deepcopy(body)

    class T(ast.NodeTransformer):
        def visit_Return(self, n):
            return ast.copy_location(ast.Break(), n)
    new[-1] = T().visit(new[-1])
    return new


def _helper_body(helper: ast.FunctionDef) -> List[ast.stmt]:
    body = [s for s in helper.body if not (isinstance(s, ast.Expr) and isinstance(s.value, ast.Constant))]
    body = _returns_to_breaks(body)
    if any(isinstance(x, (ast.Yield, ast.YieldFrom, ast.Await, ast.Global, ast.Nonlocal)) for s in body for x in ast.walk(s)):
        raise _NotInlinable("generator / global")
    if any(isinstance(x, (ast.FunctionDef, ast.ClassDef)) for s in body for x in ast.walk(s)):
        raise _NotInlinable("nested definitions")
    return body


class Inliner:
    def __init__(self, lookup):
        """lookup(caller_class_name | None, module_name, call_func_ast) -> (helper FunctionDef, receiver ast | None, is_method) or None"""
        self.lookup = lookup
        self.count = 0
        self.log: List[str] = []

    # ---- statement level ---------------------------------------------------------------------------------
    def inline_statement(self, st: ast.stmt, ctx) -> Optional[List[ast.stmt]]:
        call = None
        kind = None
        if isinstance(st, ast.Assign) and isinstance(st.value, ast.Call):
            call, kind = st.value, "assign"
        elif isinstance(st, ast.Expr) and isinstance(st.value, ast.Call):
            call, kind = st.value, "expr"
        elif isinstance(st, ast.Return) and isinstance(st.value, ast.Call):
            call, kind = st.value, "return"
        if call is None:
            return None
        found = self.lookup(ctx, call.func)
        if found is None:
            return None
        helper, receiver, is_method = found
        try:
            body = _helper_body(helper)
            subst, pre, rename = _bind(helper, call, receiver, is_method)
            # x = helper(x) with a helper that rebinds its parameter: the parameter *is* x (no copy needed, x is overwritten by the result anyway)
            if kind == "assign" and len(st.targets) == 1 and isinstance(st.targets[0], ast.Name):
                tgt = st.targets[0].id
                for p_ in list(pre):
                    if isinstance(p_.value, ast.Name) and p_.value.id == tgt and isinstance(p_.targets[0], ast.Name):
                        new_name = p_.targets[0].id
                        others_read_tgt = any(isinstance(x, ast.Name) and x.id == tgt for q_ in pre if q_ is not p_ for x in ast.walk(q_.value)) or \
                            any(isinstance(x, ast.Name) and x.id == tgt for v_ in subst.values() for x in ast.walk(v_))
                        if not others_read_tgt:
                            for k_, v_ in list(rename.items()):
                                if v_ == new_name:
                                    rename[k_] = tgt
                            pre.remove(p_)
            tr = _Rename(subst, rename)
            body = [tr.visit(copy.deepcopy(s)) for s in body]

            def make(value, at):
                if kind == "assign":
                    v = value if value is not None else ast.Constant(value=None)
                    a = ast.Assign(targets=copy.deepcopy(st.targets), value=v)
                    if getattr(st, "ann", None) is not None:
                        a.ann = st.ann
                    return [ast.copy_location(a, at)]
                if kind == "return":
                    return [ast.copy_location(ast.Return(value=value), at)]
                return [ast.copy_location(ast.Expr(value=value), at)] if value is not None and not isinstance(value, (ast.Name, ast.Constant)) else []
            new = _tail_returns(body, make)
            if kind == "assign" and not _assigns_on_all_paths(new, st.targets):
                new.append(ast.copy_location(ast.Assign(targets=copy.deepcopy(st.targets), value=ast.Constant(value=None)), st))
            if kind == "return" and not _terminates(new):
                new.append(ast.copy_location(ast.Return(value=None), st))
        except _NotInlinable as e:
            self.log.append(f"{helper.name}: not inlined ({e})")
            return None
        for p in pre:
            ast.copy_location(p, st)
        self.count += 1
        self.log.append(f"{helper.name} inlined at line {getattr(st, 'lineno', '?')}")
        out = pre + (new or [ast.copy_location(ast.Pass(), st)])
        for s in out:
            ast.fix_missing_locations(s)
        return out

    # ---- generator fusion: `for x in self._gen(args): BODY`  with a single `yield v` in _gen --------------------------------------
    def inline_generator_loop(self, st: ast.stmt, ctx) -> Optional[List[ast.stmt]]:
        """the consumer's body runs exactly where the generator yields, when the consumer never leaves or skips an iteration early
        (no break / continue / return / else) and the generator has one plain `yield v` statement outside try / with"""
        if not (isinstance(st, ast.For) and not st.orelse and isinstance(st.iter, ast.Call)):
            return None
        found = self.lookup(ctx, st.iter.func, generators=True)
        if found is None:
            return None
        helper, receiver, is_method = found
        body = [s for s in helper.body if not (isinstance(s, ast.Expr) and isinstance(s.value, ast.Constant))]
        ys = [x for s in body for x in ast.walk(s) if isinstance(x, (ast.Yield, ast.YieldFrom))]
        if len(ys) != 1 or isinstance(ys[0], ast.YieldFrom) or ys[0].value is None:
            return None
        if any(isinstance(x, (ast.Return, ast.Global, ast.Nonlocal, ast.FunctionDef, ast.Lambda, ast.Try, ast.With)) for s in body for x in ast.walk(s)):
            return None

        def leaves(stmts) -> bool:
            for s_ in stmts:
                if isinstance(s_, (ast.Break, ast.Continue, ast.Return)):
                    return True
                if isinstance(s_, (ast.For, ast.While)):
                    if any(isinstance(x, ast.Return) for x in ast.walk(s_)):
                        return True
                    continue
                if isinstance(s_, (ast.FunctionDef, ast.AsyncFunctionDef)):
                    continue
                for fld in ("body", "orelse", "finalbody"):
                    sub = getattr(s_, fld, None)
                    if isinstance(sub, list) and sub and isinstance(sub[0], ast.stmt) and leaves(sub):
                        return True
                for h in getattr(s_, "handlers", []) or []:
                    if leaves(h.body):
                        return True
            return False
        if leaves(st.body) or any(isinstance(x, (ast.Yield, ast.YieldFrom)) for s_ in st.body for x in ast.walk(s_)):
            return None
        try:
            subst, pre, rename = _bind(helper, st.iter, receiver, is_method)
        except _NotInlinable:
            return None
        tr = _Rename(subst, rename)
        new_body = [tr.visit(copy.deepcopy(s)) for s in body]
        the_yield = [x for s in new_body for x in ast.walk(s) if isinstance(x, ast.Yield)][0]
        placed = [False]

        def place(stmts: List[ast.stmt]) -> List[ast.stmt]:
            out: List[ast.stmt] = []
            for s_ in stmts:
                if isinstance(s_, ast.Expr) and s_.value is the_yield:
                    out.append(ast.copy_location(ast.Assign(targets=[copy.deepcopy(st.target)], value=the_yield.value), s_))
                    out.extend(st.body)
                    placed[0] = True
                    continue
                for fld in ("body", "orelse", "finalbody"):
                    sub = getattr(s_, fld, None)
                    if isinstance(sub, list) and sub and isinstance(sub[0], ast.stmt):
                        setattr(s_, fld, place(sub))
                out.append(s_)
            return out
        fused = place(new_body)
        if not placed[0]:
            return None          # the yield is not a statement of its own (its value is used)
        self.count += 1
        self.log.append(f"generator {helper.name} fused with its consuming loop at line {getattr(st, 'lineno', '?')}")
        out = pre + fused
        for s_ in out:
            ast.copy_location(s_, st) if not hasattr(s_, "lineno") else None
            ast.fix_missing_locations(s_)
        return out

    # ---- expression level (single `return E` helpers) --------------------------------------------------------
    def inline_expressions(self, node: ast.AST, ctx) -> bool:
        changed = False
        me = self

        class T(ast.NodeTransformer):
            def visit_Lambda(self, n):
                return n

            def visit_Call(self, c: ast.Call):
                nonlocal changed
                self.generic_visit(c)
                found = me.lookup(ctx, c.func)
                if found is None:
                    return c
                helper, receiver, is_method = found
                try:
                    body = _helper_body(helper)
                    value = _as_expression(body)
                    if value is None:
                        return c
                    subst, pre, rename = _bind(helper, c, receiver, is_method)
                    if pre:
                        return c
                    e = _Rename(subst, rename).visit(copy.deepcopy(value))
                except _NotInlinable:
                    return c
                changed = True
                me.count += 1
                me.log.append(f"{helper.name} inlined as an expression at line {getattr(c, 'lineno', '?')}")
                return ast.copy_location(e, c)
        T().visit(node)
        return changed


def _as_expression(body: List[ast.stmt]) -> Optional[ast.AST]:
    """`return E`  or a chain  `if c1: return E1` ... `return En`  (also with else branches) as one expression (nested conditional expressions)"""
    if len(body) == 1 and isinstance(body[0], ast.Return) and body[0].value is not None:
        return body[0].value
    if body and isinstance(body[0], ast.If) and len(body[0].body) == 1 and isinstance(body[0].body[0], ast.Return) and body[0].body[0].value is not None:
        rest = body[0].orelse if body[0].orelse else body[1:]
        if body[0].orelse and body[1:]:
            return None
        tail = _as_expression(list(rest))
        if tail is None:
            return None
        return ast.copy_location(ast.IfExp(test=body[0].test, body=body[0].body[0].value, orelse=tail), body[0])
    return None


def _assigns_on_all_paths(stmts: List[ast.stmt], targets) -> bool:
    if not stmts:
        return False
    last = stmts[-1]
    if isinstance(last, ast.With):
        return _assigns_on_all_paths(last.body, targets)
    if isinstance(last, ast.Assign) and ast.dump(last.targets[0]) == ast.dump(targets[0]):
        return True
    if isinstance(last, ast.Raise):
        return True
    if isinstance(last, ast.If):
        return _assigns_on_all_paths(last.body, targets) and bool(last.orelse) and _assigns_on_all_paths(last.orelse, targets)
    return False


def is_helper(fn: ast.FunctionDef) -> bool:
    """a private function that is not an anchor of the rule set: candidate for inlining"""
    # any decorator other than @staticmethod changes what a call does (caching, properties, wrappers): such a function is never inlined
    return fn.name.startswith("_") and not fn.name.startswith("__") and fn.name not in KNOWN_PRIVATE and not _is_njit(fn) and \
        all(ast.unparse(d).split(".")[-1] == "staticmethod" for d in fn.decorator_list)


def drop_unreferenced_helpers(trees: List[ast.Module]) -> List[str]:
    """helpers whose every call was inlined are dead code for the analysis (their body is analysed at each call site): remove them, so that
    no rule has to classify a parameter whose callers no longer exist"""
    referenced = set()
    for t in trees:
        for n in ast.walk(t):
            if isinstance(n, ast.Name):
                referenced.add(n.id)
            elif isinstance(n, ast.Attribute):
                referenced.add(n.attr)
            elif isinstance(n, ast.Constant) and isinstance(n.value, str):
                referenced.add(n.value)            # getattr(self, "_name") style
    dropped = []
    for t in trees:
        for owner in [t] + [c for c in t.body if isinstance(c, ast.ClassDef)]:
            keep = []
            for s in owner.body:
                if isinstance(s, ast.FunctionDef) and is_helper(s) and s.name not in referenced:
                    dropped.append(s.name)
                else:
                    keep.append(s)
            if len(keep) != len(owner.body):
                owner.body = keep or [ast.Pass()]
    return dropped


def inline_module_helpers(tree: ast.Module, module_name: str) -> Tuple[int, List[str]]:
    """inline calls to private helpers defined in the same class (self._h / Class._h / cls._h) or module (_h)"""
    mod_funcs = {s.name: s for s in tree.body if isinstance(s, ast.FunctionDef)}
    classes = {s.name: s for s in tree.body if isinstance(s, ast.ClassDef)}
    bases = {c: [ast.unparse(b).split(".")[-1] for b in classes[c].bases] for c in classes}

    def methods_of(cname: str, seen=None) -> Dict[str, Tuple[ast.FunctionDef, str]]:
        seen = seen or set()
        out: Dict[str, Tuple[ast.FunctionDef, str]] = {}
        if cname not in classes or cname in seen:
            return out
        seen.add(cname)
        for b in reversed(bases[cname]):
            out.update(methods_of(b, seen))
        for m in classes[cname].body:
            if isinstance(m, ast.FunctionDef):
                out[m.name] = (m, cname)
        return out

    def overridden_below(cname: str, name: str) -> bool:
        return any(cname in _all_bases(k) and any(isinstance(m, ast.FunctionDef) and m.name == name for m in classes[k].body) for k in classes if k != cname)

    def _all_bases(k: str, seen=None) -> set:
        seen = seen or set()
        for b in bases.get(k, []):
            if b not in seen:
                seen.add(b)
                _all_bases(b, seen)
        return seen

    eligible = is_helper

    stack: List[str] = []

    def lookup(ctx, func: ast.AST, generators: bool = False):
        cname, current = ctx
        if isinstance(func, ast.Name) and func.id in mod_funcs and eligible(mod_funcs[func.id]) and func.id != current and func.id not in stack:
            return mod_funcs[func.id], None, False
        if isinstance(func, ast.Attribute) and isinstance(func.value, ast.Name) and cname is not None:
            ms = methods_of(cname)
            if func.attr in ms and func.attr != current and func.attr not in stack:
                helper, owner = ms[func.attr]
                if not eligible(helper) or overridden_below(owner, func.attr):
                    return None
                static = any(ast.unparse(d).endswith("staticmethod") for d in helper.decorator_list)
                if func.value.id in ("self",) and not static:
                    return helper, func.value, True
                if static and func.value.id in ("self", "cls", cname, owner):
                    return helper, None, False
        if isinstance(func, ast.Attribute) and isinstance(func.value, ast.Name) and func.value.id not in ("self", "cls") and func.attr.startswith("_") \
                and not func.attr.startswith("__") and func.attr != current and func.attr not in stack:
            # other._helper(...): a private method defined in exactly one class of this module (and nowhere as a plain function)
            owners = [(c, m) for c in classes.values() for m in c.body if isinstance(m, ast.FunctionDef) and m.name == func.attr]
            if len(owners) == 1 and func.attr not in mod_funcs and func.value.id not in classes:
                c, helper = owners[0]
                static = any(ast.unparse(d).endswith("staticmethod") for d in helper.decorator_list)
                if eligible(helper) and not overridden_below(c.name, func.attr) and not static:
                    return helper, func.value, True
        return None

    inl = Inliner(lookup)
    _bind.counter = {}

    tmp_counter = [0]

    def hoist(st: ast.stmt, ctx) -> List[ast.stmt]:
        """`f(a, self._h(x), b)` -> `t = self._h(x); f(a, t, b)` for multi-statement helpers nested in a simple statement, when everything
        evaluated before the nested call is side-effect free (names, attribute reads of names, constants) so the order of effects is kept"""
        if not isinstance(st, (ast.Expr, ast.Assign, ast.Return, ast.AugAssign)):
            return [st]
        root = st.value
        if root is None:
            return [st]
        pre: List[ast.stmt] = []

        def pure(e: ast.AST) -> bool:
            return all(isinstance(x, (ast.Name, ast.Constant, ast.Attribute, ast.Load, ast.Tuple, ast.BinOp, ast.operator, ast.UnaryOp, ast.unaryop,
                                      ast.Subscript, ast.keyword, ast.Starred)) for x in ast.walk(e))

        def visit(e: ast.AST, top: bool) -> ast.AST:
            # only descend through call arguments / binary operands, left to right, stopping at the first impure sibling
            if isinstance(e, ast.Call):
                found = lookup(ctx, e.func)
                if found is not None and not top:
                    helper = found[0]
                    body = [b for b in helper.body if not (isinstance(b, ast.Expr) and isinstance(b.value, ast.Constant))]
                    single = _as_expression(body) is not None
                    if not single:
                        tmp_counter[0] += 1
                        name = f"{helper.name.strip('_')}_value_{tmp_counter[0]}"
                        pre.append(ast.copy_location(ast.Assign(targets=[ast.Name(id=name, ctx=ast.Store())], value=e), st))
                        return ast.copy_location(ast.Name(id=name, ctx=ast.Load()), e)
                    return e
                if not pure(e.func):
                    return e
                new_args = []
                blocked = False
                for a in e.args:
                    if blocked:
                        new_args.append(a)
                        continue
                    a2 = visit(a, False)
                    new_args.append(a2)
                    if a2 is a and not pure(a):
                        blocked = True
                e.args = new_args
                if not blocked:
                    for k in e.keywords:
                        k2 = visit(k.value, False)
                        if k2 is k.value and not pure(k.value):
                            break
                        k.value = k2
                return e
            if isinstance(e, ast.BinOp):
                l2 = visit(e.left, False)
                e.left = l2
                if l2 is not e.left or pure(e.left):
                    e.right = visit(e.right, False)
                return e
            return e
        st.value = visit(root, isinstance(st, (ast.Assign, ast.Return, ast.Expr)) )
        return pre + [st]

    def process(fn: ast.FunctionDef, cname: Optional[str]):
        if _is_njit(fn):
            return
        for _ in range(MAX_DEPTH):
            changed = False
            for node in ast.walk(fn):
                for fld in ("body", "orelse", "finalbody"):
                    blk = getattr(node, fld, None)
                    if not isinstance(blk, list) or not blk or not isinstance(blk[0], ast.stmt):
                        continue
                    new0: List[ast.stmt] = []
                    for st in blk:
                        new0.extend(hoist(st, (cname, fn.name)))
                    setattr(node, fld, new0)
            for node in ast.walk(fn):
                for fld in ("body", "orelse", "finalbody"):
                    blk = getattr(node, fld, None)
                    if not isinstance(blk, list) or not blk or not isinstance(blk[0], ast.stmt):
                        continue
                    new: List[ast.stmt] = []
                    for st in blk:
                        r = inl.inline_statement(st, (cname, fn.name))
                        if r is None:
                            r = inl.inline_generator_loop(st, (cname, fn.name))
                        if r is None:
                            new.append(st)
                        else:
                            new.extend(r)
                            changed = True
                    setattr(node, fld, new)
            if inl.inline_expressions(fn, (cname, fn.name)):
                changed = True
            if not changed:
                break

    for s in tree.body:
        if isinstance(s, ast.FunctionDef):
            process(s, None)
        elif isinstance(s, ast.ClassDef):
            for m in s.body:
                if isinstance(m, ast.FunctionDef):
                    process(m, s.name)
    ast.fix_missing_locations(tree)
    return inl.count, inl.log
