"""Complete case split over comparison outcomes, with abstract evaluation (DESIGN 3.6).

The code under analysis is *not executed*: an acyclic statement region is interpreted over abstract
values (booleans, None, string/number constants, opaque ordered symbols and linear forms over atoms),
where every comparison between symbolic terms is answered by an *oracle* = one element of a finite,
exhaustively enumerated set of orderings.  Anything the evaluator does not understand raises
`Undecided` (the run becomes ANALYSIS-ERROR, never a guess).
"""
from __future__ import annotations

import ast
import itertools
from dataclasses import dataclass, field
from fractions import Fraction
from typing import Callable, Dict, Iterable, Iterator, List, Optional, Sequence, Tuple, Union


class Undecided(Exception):
    pass


# ---------------------------------------------------------------------------------------------
# abstract values
# ---------------------------------------------------------------------------------------------

@dataclass(frozen=True)
class Sym:
    """opaque value of a totally ordered domain; only comparisons against other Syms of the same domain"""
    name: str
    domain: str = "d"

    def __repr__(self):
        return self.name


@dataclass(frozen=True)
class Lin:
    """linear form  sum coef*atom + const  over real-valued atoms"""
    terms: Tuple[Tuple[str, Fraction], ...]
    const: Fraction = Fraction(0)

    @staticmethod
    def atom(a: str) -> "Lin":
        return Lin(((a, Fraction(1)),))

    @staticmethod
    def num(c) -> "Lin":
        return Lin((), Fraction(c))

    def _d(self) -> Dict[str, Fraction]:
        return dict(self.terms)

    def __add__(self, o: "Lin") -> "Lin":
        d = self._d()
        for a, c in o.terms:
            d[a] = d.get(a, Fraction(0)) + c
        return Lin(tuple(sorted((a, c) for a, c in d.items() if c != 0)), self.const + o.const)

    def scale(self, k: Fraction) -> "Lin":
        return Lin(tuple((a, c * k) for a, c in self.terms if c * k != 0), self.const * k)

    def __sub__(self, o: "Lin") -> "Lin":
        return self + o.scale(Fraction(-1))

    def is_const(self) -> bool:
        return not self.terms

    def __repr__(self):
        s = " + ".join(f"{c}*{a}" if c != 1 else a for a, c in self.terms)
        if self.const or not s:
            s += (" + " if s else "") + str(self.const)
        return s


@dataclass(frozen=True)
class Obj:
    """immutable record value (e.g. Segment(a, b)) built by the analysed code"""
    ctor: str
    fields: Tuple

    def __repr__(self):
        return f"{self.ctor}{self.fields}"


NONE = None
AbsVal = Union[bool, None, str, int, float, Sym, Lin, Obj, tuple]


class Oracle:
    """answers comparisons between symbolic terms for ONE case of the split"""

    def cmp_sym(self, a: Sym, b: Sym) -> int:          # -1 / 0 / +1
        raise Undecided(f"no order known between {a} and {b}")

    def sign_lin(self, d: Lin) -> int:                 # sign of a linear form
        if d.is_const():
            return (d.const > 0) - (d.const < 0)
        raise Undecided(f"sign of {d} unknown")

    def is_none(self, v) -> Optional[bool]:
        return None


class Emit:
    """side effects recorded while interpreting (list appends etc.)"""

    def __init__(self):
        self.appended: Dict[str, List[AbsVal]] = {}
        self.events: List[Tuple[str, tuple]] = []


class Interp:
    """abstract interpreter of an acyclic region"""

    def __init__(self, oracle: Oracle, env: Dict[str, AbsVal], attr: Optional[Callable] = None,
                 call: Optional[Callable] = None):
        self.o = oracle
        self.env = dict(env)
        self.attr_hook = attr
        self.call_hook = call
        self.emit = Emit()

    # ---- expressions ------------------------------------------------------------------------
    def ev(self, e: ast.AST) -> AbsVal:
        if isinstance(e, ast.Constant):
            v = e.value
            if isinstance(v, bool) or v is None or isinstance(v, str):
                return v
            if isinstance(v, (int, float)):
                return Lin.num(Fraction(str(v)))
            raise Undecided(f"constant {v!r}")
        if isinstance(e, ast.Name):
            if e.id in self.env:
                return self.env[e.id]
            raise Undecided(f"unknown name {e.id}")
        if isinstance(e, ast.Attribute):
            base = self.ev(e.value)
            if self.attr_hook is not None:
                r = self.attr_hook(base, e.attr)
                if r is not NotImplemented:
                    return r
            if isinstance(base, Obj):
                raise Undecided(f"attribute {e.attr} of {base}")
            raise Undecided(f"attribute {e.attr} of {base!r}")
        if isinstance(e, ast.Tuple):
            return tuple(self.ev(x) for x in e.elts)
        if isinstance(e, ast.UnaryOp):
            if isinstance(e.op, ast.Not):
                return not self.truth(self.ev(e.operand))
            if isinstance(e.op, ast.USub):
                v = self.ev(e.operand)
                if isinstance(v, Lin):
                    return v.scale(Fraction(-1))
            raise Undecided("unary op")
        if isinstance(e, ast.BoolOp):
            last = None
            for x in e.values:
                last = self.ev(x)
                t = self.truth(last)
                if isinstance(e.op, ast.And) and not t:
                    return last
                if isinstance(e.op, ast.Or) and t:
                    return last
            return last
        if isinstance(e, ast.IfExp):
            return self.ev(e.body) if self.truth(self.ev(e.test)) else self.ev(e.orelse)
        if isinstance(e, ast.Compare):
            left = self.ev(e.left)
            for op, r in zip(e.ops, e.comparators):
                right = self.ev(r)
                if not self.compare(left, op, right):
                    return False
                left = right
            return True
        if isinstance(e, ast.BinOp):
            a, b = self.ev(e.left), self.ev(e.right)
            if isinstance(a, Lin) and isinstance(b, Lin):
                if isinstance(e.op, ast.Add):
                    return a + b
                if isinstance(e.op, ast.Sub):
                    return a - b
                if isinstance(e.op, ast.Mult):
                    if a.is_const():
                        return b.scale(a.const)
                    if b.is_const():
                        return a.scale(b.const)
                if isinstance(e.op, ast.Div) and b.is_const() and b.const != 0:
                    return a.scale(1 / b.const)
            raise Undecided(f"arithmetic {ast.unparse(e)}")
        if isinstance(e, ast.Call):
            fn = e.func
            name = fn.id if isinstance(fn, ast.Name) else (fn.attr if isinstance(fn, ast.Attribute) else None)
            if name in ("min", "max") and len(e.args) == 2 and not e.keywords:
                a, b = self.ev(e.args[0]), self.ev(e.args[1])
                c = self.order(a, b)
                if name == "min":
                    return a if c <= 0 else b
                return a if c >= 0 else b      # python's max returns the first of equal arguments
            if self.call_hook is not None:
                r = self.call_hook(self, e, name)
                if r is not NotImplemented:
                    return r
            raise Undecided(f"call {ast.unparse(e)[:60]}")
        raise Undecided(f"expression {type(e).__name__}: {ast.unparse(e)[:60]}")

    def truth(self, v: AbsVal) -> bool:
        if isinstance(v, bool):
            return v
        if v is None:
            return False
        if isinstance(v, str):
            return bool(v)
        if isinstance(v, Sym):
            n = self.o.is_none(v)
            if n is True:
                return False
            if n is False and v.domain == "str":
                # a label: non-None; emptiness of the string is not modelled -> treat "" as impossible only if oracle says so
                e = getattr(self.o, "is_empty", lambda s: None)(v)
                if e is None:
                    raise Undecided(f"truthiness of string {v}")
                return not e
            raise Undecided(f"truthiness of {v}")
        if isinstance(v, tuple):
            return len(v) > 0
        if isinstance(v, Lin) and v.is_const():
            return v.const != 0
        raise Undecided(f"truthiness of {v!r}")

    def order(self, a: AbsVal, b: AbsVal) -> int:
        """-1 / 0 / +1"""
        if isinstance(a, Sym) and isinstance(b, Sym):
            na, nb = self.o.is_none(a), self.o.is_none(b)
            if na or nb:
                raise Undecided(f"ordering comparison involving None: {a} ? {b} (TypeError at run time)")
            if a == b:
                return 0
            return self.o.cmp_sym(a, b)
        if isinstance(a, Lin) and isinstance(b, Lin):
            return self.o.sign_lin(a - b)
        if isinstance(a, bool) and isinstance(b, bool):
            return (a > b) - (a < b)
        if isinstance(a, str) and isinstance(b, str):
            return (a > b) - (a < b)
        if isinstance(a, Sym) and isinstance(b, str) or isinstance(a, str) and isinstance(b, Sym):
            sym, lit, sign = (a, b, 1) if isinstance(a, Sym) else (b, a, -1)
            if self.o.is_none(sym):
                raise Undecided(f"ordering comparison involving None: {a!r} ? {b!r} (TypeError at run time)")
            if lit == "":
                e = getattr(self.o, "is_empty", lambda s_: None)(sym)
                if e is None:
                    raise Undecided(f"is {sym} the empty string?")
                return 0 if e else sign          # "" is the least string
            raise Undecided(f"symbol against literal {lit!r}")
        if isinstance(a, tuple) and isinstance(b, tuple):
            for x, y in zip(a, b):
                if not self.equal(x, y):
                    return self.order(x, y)
            return (len(a) > len(b)) - (len(a) < len(b))
        if isinstance(a, Obj) and isinstance(b, Obj) and a.ctor == b.ctor:
            return self.order(a.fields, b.fields)
        raise Undecided(f"cannot order {a!r} and {b!r}")

    def equal(self, a: AbsVal, b: AbsVal) -> bool:
        if a is None or b is None:
            if a is None and b is None:
                return True
            other = b if a is None else a
            if isinstance(other, Sym):
                n = self.o.is_none(other)
                if n is None:
                    raise Undecided(f"is {other} None?")
                return n
            return False
        if isinstance(a, Sym) and isinstance(b, Sym):
            na, nb = self.o.is_none(a), self.o.is_none(b)
            if na or nb:
                return bool(na and nb)
            return a == b or self.o.cmp_sym(a, b) == 0
        if isinstance(a, Lin) and isinstance(b, Lin):
            return self.o.sign_lin(a - b) == 0
        if isinstance(a, tuple) and isinstance(b, tuple):
            return len(a) == len(b) and all(self.equal(x, y) for x, y in zip(a, b))
        if isinstance(a, Obj) and isinstance(b, Obj):
            return a.ctor == b.ctor and self.equal(a.fields, b.fields)
        if type(a) is type(b) and isinstance(a, (bool, str)):
            return a == b
        if isinstance(a, Sym) and isinstance(b, str) or isinstance(a, str) and isinstance(b, Sym):
            sym, lit = (a, b) if isinstance(a, Sym) else (b, a)
            if self.o.is_none(sym):
                return False
            if lit == "":
                e = getattr(self.o, "is_empty", lambda s_: None)(sym)
                if e is None:
                    raise Undecided(f"is {sym} the empty string?")
                return e
            raise Undecided(f"symbol against literal: {a!r} == {b!r}")
        return False

    def compare(self, a: AbsVal, op: ast.cmpop, b: AbsVal) -> bool:
        if isinstance(op, (ast.Is, ast.IsNot)):
            if a is None or b is None:
                r = self.equal(a, b)
            else:
                raise Undecided("identity test between non-None values")
            return r if isinstance(op, ast.Is) else not r
        if isinstance(op, ast.Eq):
            return self.equal(a, b)
        if isinstance(op, ast.NotEq):
            return not self.equal(a, b)
        c = self.order(a, b)
        if isinstance(op, ast.Lt):
            return c < 0
        if isinstance(op, ast.LtE):
            return c <= 0
        if isinstance(op, ast.Gt):
            return c > 0
        if isinstance(op, ast.GtE):
            return c >= 0
        raise Undecided(f"comparison operator {type(op).__name__}")

    # ---- statements -------------------------------------------------------------------------
    def run(self, stmts: Sequence[ast.stmt]) -> Tuple[str, AbsVal]:
        """returns ('return', value) | ('fall', None) | ('continue', None) | ('break', None) | ('raise', exc)"""
        for s in stmts:
            r = self.stmt(s)
            if r is not None:
                return r
        return ("fall", None)

    def stmt(self, s: ast.stmt):
        if isinstance(s, ast.Return):
            return ("return", self.ev(s.value) if s.value is not None else None)
        if isinstance(s, ast.If):
            branch = s.body if self.truth(self.ev(s.test)) else s.orelse
            r = self.run(branch)
            return None if r[0] == "fall" else r
        if isinstance(s, ast.Assign) and len(s.targets) == 1:
            t = s.targets[0]
            v = self.ev(s.value)
            if isinstance(t, ast.Name):
                self.env[t.id] = v
                return None
            if isinstance(t, ast.Tuple) and isinstance(v, tuple) and len(v) == len(t.elts) and \
                    all(isinstance(x, ast.Name) for x in t.elts):
                for x, y in zip(t.elts, v):
                    self.env[x.id] = y
                return None
            raise Undecided(f"assignment target {ast.unparse(t)}")
        if isinstance(s, ast.AnnAssign) and isinstance(s.target, ast.Name) and s.value is not None:
            self.env[s.target.id] = self.ev(s.value)
            return None
        if isinstance(s, ast.Expr):
            if isinstance(s.value, ast.Constant):
                return None
            c = s.value
            if isinstance(c, ast.Call) and isinstance(c.func, ast.Attribute) and c.func.attr == "append" \
                    and isinstance(c.func.value, ast.Name) and len(c.args) == 1:
                self.emit.appended.setdefault(c.func.value.id, []).append(self.ev(c.args[0]))
                return None
            if isinstance(c, ast.Call) and isinstance(c.func, ast.Attribute) and c.func.attr == "extend" \
                    and isinstance(c.func.value, ast.Name) and len(c.args) == 1:
                v = self.ev(c.args[0])
                if isinstance(v, tuple):
                    self.emit.appended.setdefault(c.func.value.id, []).extend(v)
                    return None
            self.ev(c)
            return None
        if isinstance(s, ast.Continue):
            return ("continue", None)
        if isinstance(s, ast.Break):
            return ("break", None)
        if isinstance(s, ast.Pass):
            return None
        if isinstance(s, ast.Raise):
            return ("raise", ast.unparse(s.exc) if s.exc is not None else "")
        if isinstance(s, ast.Assert):
            if not self.truth(self.ev(s.test)):
                return ("raise", "AssertionError")
            return None
        raise Undecided(f"statement {type(s).__name__}")


# ---------------------------------------------------------------------------------------------
# enumeration of orderings
# ---------------------------------------------------------------------------------------------

def weak_orderings(items: Sequence[str]) -> Iterator[Dict[str, int]]:
    """all weak orderings (ordered set partitions) of items, as item -> rank"""
    items = list(items)
    if not items:
        yield {}
        return

    def parts(rest: List[str]) -> Iterator[List[List[str]]]:
        if not rest:
            yield []
            return
        first, tail = rest[0], rest[1:]
        for k in range(len(tail) + 1):
            for comb in itertools.combinations(tail, k):
                block = [first] + list(comb)
                remaining = [x for x in tail if x not in comb]
                for p in parts(remaining):
                    yield [block] + p
    for p in parts(items):
        for perm in itertools.permutations(p):
            yield {x: r for r, blk in enumerate(perm) for x in blk}


class RankOracle(Oracle):
    """ordering of named linear terms given by ranks; signs of linear forms derived from term differences"""

    def __init__(self, ranks: Dict[str, int], terms: Dict[str, Lin]):
        self.ranks = ranks
        self.terms = terms

    def sign_lin(self, d: Lin) -> int:
        if d.is_const():
            return (d.const > 0) - (d.const < 0)
        names = list(self.terms)
        for x in names:
            for y in names:
                if x == y:
                    continue
                diff = self.terms[x] - self.terms[y]
                if not diff.terms:
                    continue
                # d == k * diff ?
                (a0, c0) = diff.terms[0]
                dd = dict(d.terms)
                if a0 not in dd:
                    continue
                k = dd[a0] / c0
                if diff.scale(k) == d:
                    s = (self.ranks[x] > self.ranks[y]) - (self.ranks[x] < self.ranks[y])
                    return s if k > 0 else -s
        raise Undecided(f"sign of {d} is not determined by the ordering of {names}")

    def name_of(self, v: Lin) -> str:
        """class representative (smallest name) of the term a linear form denotes under this ordering"""
        for n, t in self.terms.items():
            if t == v:
                r = self.ranks[n]
                return min(m for m in self.ranks if self.ranks[m] == r)
        raise Undecided(f"value {v} is none of the compared terms")
