"""Expression extraction into a rational-function normal form (DESIGN 3.4).

Poly : polynomial with Fraction coefficients over atoms
Rat  : quotient of two Polys; equality by cross-multiplication
Atoms: ('v', name) variables/parameters, ('abs', Poly), ('max0', Rat), ('neq', a, b), ('app', f, args), ('opaque', text)
Queries: equality, substitution (symmetry, translation, scaling), homogeneity degree in an atom.
Unsupported syntax raises `Unsupported` (=> UNDECIDED, never a guess).
"""
from __future__ import annotations

import ast
from fractions import Fraction
from typing import Callable, Dict, FrozenSet, Iterable, List, Optional, Tuple, Union


class Unsupported(Exception):
    pass


Atom = tuple
Mono = Tuple[Tuple[Atom, int], ...]       # sorted ((atom, power), ...)

POSITIVE: set = set()      # names of variables assumed > 0 (scale factors, delta_empty)


def _akey(a: Atom):
    return repr(a)


class Poly:
    __slots__ = ("t", "_h")

    def __init__(self, terms: Dict[Mono, Fraction]):
        self.t = {m: c for m, c in terms.items() if c != 0}
        self._h = None

    # constructors
    @staticmethod
    def const(c) -> "Poly":
        return Poly({(): Fraction(c)})

    @staticmethod
    def atom(a: Atom) -> "Poly":
        return Poly({((a, 1),): Fraction(1)})

    @staticmethod
    def var(name: str) -> "Poly":
        return Poly.atom(("v", name))

    def key(self):
        return tuple(sorted(((tuple((_akey(a), p) for a, p in m), c) for m, c in self.t.items()), key=repr))

    def __hash__(self):
        if self._h is None:
            self._h = hash(self.key())
        return self._h

    def __eq__(self, o):
        return isinstance(o, Poly) and self.t == o.t

    def is_zero(self):
        return not self.t

    def is_const(self):
        return all(m == () for m in self.t)

    def const_value(self) -> Fraction:
        return self.t.get((), Fraction(0))

    def __add__(self, o: "Poly") -> "Poly":
        d = dict(self.t)
        for m, c in o.t.items():
            d[m] = d.get(m, Fraction(0)) + c
        return Poly(d)

    def __neg__(self):
        return Poly({m: -c for m, c in self.t.items()})

    def __sub__(self, o):
        return self + (-o)

    def __mul__(self, o: "Poly") -> "Poly":
        d: Dict[Mono, Fraction] = {}
        for m1, c1 in self.t.items():
            for m2, c2 in o.t.items():
                mm: Dict[Atom, int] = {}
                for a, p in m1 + m2:
                    mm[a] = mm.get(a, 0) + p
                m = tuple(sorted(((a, p) for a, p in mm.items() if p), key=lambda x: _akey(x[0])))
                d[m] = d.get(m, Fraction(0)) + c1 * c2
        return Poly(d)

    def scale(self, k) -> "Poly":
        return Poly({m: c * Fraction(k) for m, c in self.t.items()})

    def pow(self, n: int) -> "Poly":
        r = Poly.const(1)
        for _ in range(n):
            r = r * self
        return r

    def atoms(self) -> set:
        return {a for m in self.t for a, _ in m}

    def leading(self) -> Tuple[Mono, Fraction]:
        m = min(self.t, key=lambda mm: repr(tuple((_akey(a), p) for a, p in mm)))
        return m, self.t[m]

    def __repr__(self):
        if not self.t:
            return "0"
        parts = []
        for m, c in sorted(self.t.items(), key=lambda x: repr(x[0])):
            mon = "*".join((show_atom(a) + (f"^{p}" if p != 1 else "")) for a, p in m)
            if not mon:
                parts.append(str(c))
            elif c == 1:
                parts.append(mon)
            elif c == -1:
                parts.append("-" + mon)
            else:
                parts.append(f"{c}*{mon}")
        return " + ".join(parts)


def show_atom(a: Atom) -> str:
    k = a[0]
    if k == "v":
        return a[1]
    if k == "abs":
        return f"|{a[1]}|"
    if k == "max0":
        return f"max(0,{Rat(*a[1])})"
    if k == "max":
        return f"max({Rat(*a[1])}, {Rat(*a[2])})"
    if k == "neq":
        return f"[{Rat(*a[1])}!={Rat(*a[2])}]"
    if k == "app":
        return f"{a[1]}({', '.join(repr(Rat(n, d)) for n, d in a[2])})"
    return str(a[1:])


class Rat:
    __slots__ = ("n", "d")

    def __init__(self, n: Poly, d: Optional[Poly] = None):
        d = d if d is not None else Poly.const(1)
        if d.is_zero():
            raise Unsupported("division by zero polynomial")
        if d.is_const():
            n = n.scale(1 / d.const_value())
            d = Poly.const(1)
        self.n, self.d = n, d

    @staticmethod
    def const(c):
        return Rat(Poly.const(c))

    @staticmethod
    def var(name):
        return Rat(Poly.var(name))

    @staticmethod
    def atom(a):
        return Rat(Poly.atom(a))

    def __add__(self, o):
        return Rat(self.n * o.d + o.n * self.d, self.d * o.d)

    def __sub__(self, o):
        return Rat(self.n * o.d - o.n * self.d, self.d * o.d)

    def __mul__(self, o):
        return Rat(self.n * o.n, self.d * o.d)

    def __truediv__(self, o):
        if o.n.is_zero():
            raise Unsupported("division by zero")
        return Rat(self.n * o.d, self.d * o.n)

    def __neg__(self):
        return Rat(-self.n, self.d)

    def pow(self, k: int):
        if k >= 0:
            return Rat(self.n.pow(k), self.d.pow(k))
        return Rat(self.d.pow(-k), self.n.pow(-k))

    def __eq__(self, o):
        return isinstance(o, Rat) and (self.n * o.d) == (o.n * self.d)

    def __hash__(self):
        return hash((self.n, self.d)) if self.d.is_const() else 0

    def is_zero(self):
        return self.n.is_zero()

    def is_poly(self):
        return self.d.is_const()

    def atoms(self):
        return self.n.atoms() | self.d.atoms()

    def __repr__(self):
        return f"{self.n}" if self.d.is_const() else f"({self.n}) / ({self.d})"


# ---------------------------------------------------------------------------------------------
# structured atoms
# ---------------------------------------------------------------------------------------------

def _split_positive(p: Poly) -> Tuple[Poly, Poly]:
    """p = common * rest, where `common` is a monomial of POSITIVE variables times a positive constant
    and rest has positive leading coefficient ... sign handled by the caller"""
    if p.is_zero():
        return Poly.const(1), p
    # common powers of positive variables
    common: Dict[Atom, int] = {}
    first = True
    for m in p.t:
        mm = {a: pw for a, pw in m if a[0] == "v" and a[1] in POSITIVE}
        if first:
            common = dict(mm)
            first = False
        else:
            common = {a: min(pw, mm.get(a, 0)) for a, pw in common.items() if mm.get(a, 0) > 0}
    cm = tuple(sorted(((a, pw) for a, pw in common.items() if pw), key=lambda x: _akey(x[0])))
    rest_terms = {}
    for m, c in p.t.items():
        mm = dict(m)
        for a, pw in cm:
            mm[a] -= pw
        rest_terms[tuple(sorted(((a, pw) for a, pw in mm.items() if pw), key=lambda x: _akey(x[0])))] = c
    rest = Poly(rest_terms)
    _, lc = rest.leading()
    k = abs(lc)
    rest = rest.scale(1 / k)
    return Poly({cm: k}), rest


def mk_abs(r: Rat) -> Rat:
    """|r| with canonical sign, positive factors pulled out; |n/d| = |n|/|d|"""
    def one(p: Poly) -> Poly:
        if p.is_zero():
            return p
        if p.is_const():
            return Poly.const(abs(p.const_value()))
        common, rest = _split_positive(p)
        _, lc = rest.leading()
        if lc < 0:
            rest = -rest
        # |x| for a single positive variable is x
        if len(rest.t) == 1:
            (m, c), = rest.t.items()
            if all(a[0] == "v" and a[1] in POSITIVE for a, _ in m):
                return common * rest
            if all((a[0] in ("abs", "neq", "max0")) or (a[0] == "v" and a[1] in POSITIVE) for a, _ in m):
                return common * rest
        return common * Poly.atom(("abs", rest))
    return Rat(one(r.n), one(r.d))


def mk_max0(r: Rat) -> Rat:
    return Rat.atom(("max0", _canon_rat(r)))


def _canon_rat(r: Rat):
    return (r.n, r.d)


def mk_max(a: Rat, b: Rat) -> Rat:
    """max(a, b): symmetric atom; a positive monomial common to both arguments is pulled out (max(s*x, s*y) = s*max(x, y), s > 0)"""
    if a == b:
        return a
    if a.is_zero():
        return mk_max0(b)
    if b.is_zero():
        return mk_max0(a)
    if a.is_poly() and b.is_poly():
        ca, ra = _split_positive(a.n)
        cb, rb = _split_positive(b.n)
        # only the POSITIVE-variable part of the common factor may be pulled out (constants stay inside)
        def monom(c):
            (m, k), = c.t.items()
            return m, k
        ma, ka = monom(ca)
        mb, kb = monom(cb)
        if ma == mb and ma != ():
            common = Poly({ma: Fraction(1)})
            x, y = sorted([_canon_rat(Rat(ra.scale(ka))), _canon_rat(Rat(rb.scale(kb)))], key=repr)
            return Rat(common) * Rat.atom(("max", x, y))
    x, y = sorted([_canon_rat(a), _canon_rat(b)], key=repr)
    return Rat.atom(("max", x, y))


def mk_neq(a: Rat, b: Rat) -> Rat:
    """indicator [a != b], symmetric"""
    if a == b:
        return Rat.const(0)
    x, y = sorted([_canon_rat(a), _canon_rat(b)], key=repr)
    return Rat.atom(("neq", x, y))


def mk_app(fname: str, args: Iterable[Rat], symmetric: bool = False) -> Rat:
    ar = [_canon_rat(a) for a in args]
    if symmetric:
        ar = sorted(ar, key=repr)
    return Rat.atom(("app", fname, tuple(ar), symmetric))


# ---------------------------------------------------------------------------------------------
# substitution
# ---------------------------------------------------------------------------------------------

def subst(r: Rat, sigma: Callable[[str], Optional[Rat]]) -> Rat:
    """replace variables by rational expressions, re-canonicalising structured atoms"""
    def sub_poly(p: Poly) -> Rat:
        out = Rat.const(0)
        for m, c in p.t.items():
            term = Rat.const(c)
            for a, pw in m:
                term = term * sub_atom(a).pow(pw)
            out = out + term
        return out

    def sub_atom(a: Atom) -> Rat:
        k = a[0]
        if k == "v":
            s = sigma(a[1])
            return s if s is not None else Rat.atom(a)
        if k == "abs":
            return mk_abs(sub_poly(a[1]))
        if k == "max0":
            n, d = a[1]
            return mk_max0(sub_poly(n) / sub_poly(d))
        if k == "max":
            (n1, d1), (n2, d2) = a[1], a[2]
            return mk_max(sub_poly(n1) / sub_poly(d1), sub_poly(n2) / sub_poly(d2))
        if k == "neq":
            (n1, d1), (n2, d2) = a[1], a[2]
            return mk_neq(sub_poly(n1) / sub_poly(d1), sub_poly(n2) / sub_poly(d2))
        if k == "app":
            return mk_app(a[1], [sub_poly(n) / sub_poly(d) for n, d in a[2]], a[3])
        return Rat.atom(a)
    return sub_poly(r.n) / sub_poly(r.d)


def degree_in(r: Rat, name: str) -> Optional[int]:
    """homogeneity degree of r in variable `name` (treating it as positive): r(k*x) = k^deg * r(x); None if not homogeneous"""
    POSITIVE.add("__k")
    try:
        def sigma(v):
            if v == name:
                return Rat.var("__k") * Rat.var(name)
            return None
        s = subst(r, sigma)
        for deg in range(-3, 5):
            if s == r * Rat.var("__k").pow(deg):
                return deg
        return None
    finally:
        POSITIVE.discard("__k")


# ---------------------------------------------------------------------------------------------
# extraction from python expressions
# ---------------------------------------------------------------------------------------------

class Extractor:
    """ev(expr) -> Rat.  `env` maps local names to Rat (or to python callables for kernels);
    hooks resolve subscripts / attributes / calls by role."""

    def __init__(self, env: Optional[Dict[str, object]] = None, subscript=None, attribute=None, call=None):
        self.env = dict(env or {})
        self.h_sub = subscript
        self.h_attr = attribute
        self.h_call = call
        self.casts: List[Tuple[str, Rat]] = []     # (cast name, operand) seen while extracting

    def ev(self, e: ast.AST) -> Rat:
        if isinstance(e, ast.Constant):
            if isinstance(e.value, bool):
                return Rat.const(int(e.value))
            if isinstance(e.value, (int, float)):
                return Rat.const(Fraction(str(e.value)))
            raise Unsupported(f"constant {e.value!r}")
        if isinstance(e, ast.Name):
            if e.id in self.env:
                v = self.env[e.id]
                if isinstance(v, Rat):
                    return v
                raise Unsupported(f"name {e.id} is not a number")
            raise Unsupported(f"unknown name {e.id}")
        if isinstance(e, ast.BinOp):
            if isinstance(e.op, ast.Pow):
                b = self.ev(e.left)
                if isinstance(e.right, ast.Constant) and isinstance(e.right.value, int):
                    return b.pow(e.right.value)
                raise Unsupported("non-integer power")
            a, b = self.ev(e.left), self.ev(e.right)
            if isinstance(e.op, ast.Add):
                return a + b
            if isinstance(e.op, ast.Sub):
                return a - b
            if isinstance(e.op, ast.Mult):
                return a * b
            if isinstance(e.op, ast.Div):
                return a / b
            raise Unsupported(f"operator {type(e.op).__name__}")
        if isinstance(e, ast.UnaryOp):
            if isinstance(e.op, ast.USub):
                return -self.ev(e.operand)
            if isinstance(e.op, ast.UAdd):
                return self.ev(e.operand)
            raise Unsupported("unary operator")
        if isinstance(e, ast.IfExp):
            # (0 if a == b else 1)  /  (1 if a != b else 0)
            t = e.test
            if isinstance(t, ast.Compare) and len(t.ops) == 1 and isinstance(t.ops[0], (ast.Eq, ast.NotEq)):
                a, b = self.ev(t.left), self.ev(t.comparators[0])
                x, y = self.ev(e.body), self.ev(e.orelse)
                if isinstance(t.ops[0], ast.Eq):
                    x, y = y, x          # now: x if a != b else y
                # value = y + (x - y) * [a != b]
                return y + (x - y) * mk_neq(a, b)
            raise Unsupported("conditional expression")
        if isinstance(e, ast.Compare) and len(e.ops) == 1 and isinstance(e.ops[0], (ast.Eq, ast.NotEq)):
            a, b = self.ev(e.left), self.ev(e.comparators[0])
            ind = mk_neq(a, b)
            return ind if isinstance(e.ops[0], ast.NotEq) else Rat.const(1) - ind
        if isinstance(e, ast.Subscript):
            if self.h_sub is not None:
                r = self.h_sub(self, e)
                if r is not None:
                    return r
            raise Unsupported(f"subscript {ast.unparse(e)}")
        if isinstance(e, ast.Attribute):
            if self.h_attr is not None:
                r = self.h_attr(self, e)
                if r is not None:
                    return r
            raise Unsupported(f"attribute {ast.unparse(e)}")
        if isinstance(e, ast.Call):
            fn = e.func
            name = ast.unparse(fn)
            if name in ("abs", "np.abs", "numpy.abs", "np.absolute", "math.fabs") and len(e.args) == 1:
                return mk_abs(self.ev(e.args[0]))
            if name in ("float", "np.float32", "np.float64", "int", "np.int8", "np.int16", "np.int32", "np.int64", "bool") \
                    and len(e.args) == 1:
                v = self.ev(e.args[0])
                self.casts.append((name, v))
                return v
            if name in ("max", "np.maximum") and len(e.args) == 2:
                a, b = self.ev(e.args[0]), self.ev(e.args[1])
                return mk_max(a, b)
            if self.h_call is not None:
                r = self.h_call(self, e)
                if r is not None:
                    return r
            raise Unsupported(f"call {name}")
        raise Unsupported(f"{type(e).__name__}: {ast.unparse(e)[:60]}")


def single_return_expr(fnode: ast.FunctionDef, ex: Extractor) -> Rat:
    """evaluate a straight-line function body (assignments to locals, then one return)"""
    body = list(fnode.body)
    if body and isinstance(body[0], ast.Expr) and isinstance(body[0].value, ast.Constant):
        body = body[1:]
    for k, s in enumerate(body):
        if isinstance(s, ast.Assign) and len(s.targets) == 1 and isinstance(s.targets[0], ast.Name):
            try:
                ex.env[s.targets[0].id] = ex.ev(s.value)
            except Unsupported:
                # an object-valued local (segment = unit.segment): its uses are resolved by the hooks through the definition
                ex.env.pop(s.targets[0].id, None)
        elif isinstance(s, ast.AnnAssign) and isinstance(s.target, ast.Name) and s.value is not None:
            ex.env[s.target.id] = ex.ev(s.value)
        elif isinstance(s, ast.Return) and s.value is not None:
            return ex.ev(s.value)
        elif isinstance(s, ast.If) and len(s.body) == 1 and len(s.orelse) == 1 and \
                all(isinstance(x, ast.Assign) and len(x.targets) == 1 and isinstance(x.targets[0], ast.Name) for x in s.body + s.orelse) and \
                s.body[0].targets[0].id == s.orelse[0].targets[0].id:
            # statement form of  x = A if c else B
            ex.env[s.body[0].targets[0].id] = ex.ev(ast.IfExp(test=s.test, body=s.body[0].value, orelse=s.orelse[0].value))
        elif isinstance(s, ast.If) and len(s.body) == 1 and not s.orelse and isinstance(s.body[0], ast.Return) and s.body[0].value is not None and \
                k + 2 == len(body) and isinstance(body[k + 1], ast.Return) and body[k + 1].value is not None:
            # statement form of  return A if c else B
            return ex.ev(ast.IfExp(test=s.test, body=s.body[0].value, orelse=body[k + 1].value))
        else:
            raise Unsupported(f"statement {type(s).__name__} in a formula body")
    raise Unsupported("no return")
