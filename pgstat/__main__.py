"""Driver: ./check <PROPERTY|all> [--tier quick|thorough] [--repo DIR] [--replay FILE] [--no-evidence]"""
from __future__ import annotations

import argparse
import importlib
import json
import os
import sys
import traceback
from pathlib import Path

from .core import VERIF, Ctx, finish
from .model import AnalysisError


def run_property(prop: str, repo: Path, tier: str, seed: int, write_evidence: bool, quiet: bool = False) -> int:
    evidence = (VERIF / "evidence" / f"{prop}.json") if write_evidence else None
    try:
        mod = importlib.import_module(f"pgstat.rules.{prop.lower()}")
    except ModuleNotFoundError:
        print(f"ANALYSIS-ERROR property={prop} rule=driver no rule module for this property")
        return 2
    # the analysis of one property takes about a second; a budget turns a run-away fixpoint on unforeseen code into an honest refusal
    # (exit 2) instead of a check that never answers
    import signal
    import threading
    budget = int(os.environ.get("PGSTAT_BUDGET_S", "120"))
    armed = False
    try:          # and a ceiling on the address space: a summary that explodes ends as MemoryError (-> exit 2), not as a machine out of memory
        import resource
        soft, hard = resource.getrlimit(resource.RLIMIT_AS)
        cap = int(os.environ.get("PGSTAT_MEM_GB", "8")) << 30
        if soft == resource.RLIM_INFINITY or soft > cap:
            resource.setrlimit(resource.RLIMIT_AS, (cap, hard))
    except Exception:
        pass
    if threading.current_thread() is threading.main_thread() and hasattr(signal, "SIGALRM"):
        def _over(signum, frame):
            raise AnalysisError("driver", f"analysis budget of {budget}s exceeded: the analyser does not terminate in reasonable time on this source (not a verdict on the repository)")
        signal.signal(signal.SIGALRM, _over)
        signal.alarm(budget)
        armed = True
    try:
        ctx = Ctx(prop, repo, tier)
        ctx.quiet = quiet
        mod.run(ctx)
        from .rules.common import check_decorators, check_overrides, check_params_stable
        check_params_stable(ctx)
        from .rules.common import check_param_defaults
        check_param_defaults(ctx)
        check_decorators(ctx)
        check_overrides(ctx)
        from .rules.common import check_class_state, check_module_effects, check_njit_options, check_special_methods
        check_special_methods(ctx)
        from .rules.common import check_program_shape
        check_program_shape(ctx)
        check_module_effects(ctx)
        check_class_state(ctx)
        check_njit_options(ctx)
        if armed:
            signal.alarm(0)
            armed = False
        from .rules.support import check_reachable_support
        check_reachable_support(ctx)
        from .rules.common import check_field_accessors
        check_field_accessors(ctx)
        extra = {}
        if tier == "thorough":
            if hasattr(mod, "thorough"):
                extra.update(mod.thorough(ctx) or {})
            # both-ways validation of this property's rules on scratch variants (DESIGN 3.9)
            if str(repo.resolve()) == "/repo" or os.environ.get("PGSTAT_SELFVAL") == "1":
                from . import selfval
                res = selfval.run_all([prop])
                cross = selfval.run_cross_benign(prop)
                summ = selfval.summarize(res + cross)
                extra["selfval"] = {k: v for k, v in summ.items() if k != "failures"}
                extra["selfval"]["cross_property_benign_rewrites"] = len(cross)
                extra["selfval"]["variants_run"] = [
                    {"id": r["id"], "kind": r["kind"], "expected_rule": r.get("rule", ""), "status": r["status"]} for r in res]
                for fl in summ["failures"]:
                    ctx.undecided("SELFVAL", None, None, f"checker self-validation failed on variant {fl['id']}: "
                                  f"{fl['status']} {fl['why']}", construct=fl["id"], key=fl["id"])
                # the load-time normal form is claimed exact: differential test of the normaliser on its own corpus of small functions
                import subprocess
                nf = subprocess.run([sys.executable, str(VERIF / "selfval" / "normal_form_tests.py")], capture_output=True, text=True, timeout=300)
                extra["selfval"]["normal_form_differential_test"] = nf.stdout.strip().splitlines()[-1] if nf.stdout.strip() else "no output"
                if nf.returncode != 0:
                    ctx.undecided("SELFVAL", None, None, "the normal form changed the behaviour of a test function: " + nf.stdout.strip()[:400],
                                  construct="normal_form_tests", key="normal-form")
                print(f"  selfval: {extra['selfval']['mutants_caught']}/{extra['selfval']['mutants']} mutants reported, "
                      f"{extra['selfval']['benign_silent']}/{extra['selfval']['benign']} benign rewrites silent, "
                      f"{extra['selfval']['skipped']} skipped")
        return finish(ctx, seed, evidence, extra)
    except AnalysisError as e:
        if armed:
            signal.alarm(0)
        print(f"ANALYSIS-ERROR property={prop} rule={e.rule} {e.msg}")
        return 2
    except Exception:
        if armed:
            signal.alarm(0)
        traceback.print_exc()
        print(f"ANALYSIS-ERROR property={prop} rule=driver internal error of the analyser (not a verdict on the repository)")
        return 2


def main(argv=None) -> int:
    ap = argparse.ArgumentParser(prog="check")
    ap.add_argument("property")
    ap.add_argument("--tier", default=os.environ.get("VERIF_TIER", "quick"), choices=["quick", "thorough"])
    ap.add_argument("--repo", default="/repo")
    ap.add_argument("--replay", default=None)
    ap.add_argument("--no-evidence", action="store_true")
    ap.add_argument("--quiet", action="store_true")
    a = ap.parse_args(argv)
    seed = int(os.environ.get("VERIF_SEED", "0") or 0)
    if a.replay:
        rp = json.loads(Path(a.replay).read_text())
        print(f"replaying {rp['property']} {rp['rule']} recorded at {rp['at']}: {rp['construct']}")
        a.property = rp["property"]
    props = [a.property.upper()]
    if a.property.lower() == "all":
        props = [json.loads(l)["id"] for l in (VERIF / "properties.jsonl").read_text().splitlines() if l.strip()]
    # an explicit --repo other than /repo is a scratch variant: never touch the committed evidence
    write_ev = not a.no_evidence and Path(a.repo).resolve() == Path("/repo")
    code = 0
    for p in props:
        c = run_property(p, Path(a.repo), a.tier, seed, write_ev, a.quiet)
        code = max(code, c) if c != 1 else 1 if code != 2 else 2
    return code


if __name__ == "__main__":
    sys.exit(main())
