"""pgstat - repository-specific static analysis of pygamma-agreement (see /verif/DESIGN.md)."""
