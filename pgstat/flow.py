"""Per-function type inference, call resolution, aliasing and effects, with interprocedural summaries
(DESIGN 3.1 / 3.3).  Flow-insensitive inside a function, field-based (Andersen style) heap for
allocation sites, functions specialised on constant boolean arguments.
"""
from __future__ import annotations

import ast
import copy
from dataclasses import dataclass, field
from typing import Dict, FrozenSet, Iterable, List, Optional, Set, Tuple

from .model import (BUILTIN_CONTAINER_METHODS, BUILTIN_MUTATORS, IMMUTABLE_TYPES, PKG, T_BOOL, T_FLOAT, T_INT,
                    T_NONE, T_STR, AnalysisError, ClassInfo, FuncInfo, Model, Ty, ann_to_ty, dotted, norm,
                    walk_no_nested)


@dataclass(frozen=True)
class AV:
    """abstract value: an access path from a root (parameter, allocation site, global, function)"""
    root: str
    path: Tuple[str, ...] = ()

    def ext(self, *p: str) -> "AV":
        path = self.path + tuple(p)
        if len(path) > 6:          # k-limiting
            path = path[:6]
        return AV(self.root, path)

    @property
    def kind(self) -> str:
        return self.root.split(":", 1)[0]

    @property
    def name(self) -> str:
        return self.root.split(":", 1)[1]

    def __str__(self):
        s = self.root
        for p in self.path:
            s += p if p == "[]" else "." + p
        return s


@dataclass
class CallSite:
    node: ast.AST
    caller: FuncInfo
    targets: List[FuncInfo]             # package callees (possibly several by CHA)
    external: Optional[str]             # canonical dotted name of an external callee / builtin
    recv: Set[AV]
    recv_ty: Optional[Ty]
    args: List[Set[AV]]                 # positional (after receiver)
    kwargs: Dict[str, Set[AV]]
    implicit: str = ""                  # "", "property", "dunder:__iter__", "ctor", ...
    unresolved: bool = False
    method: str = ""
    consts: Tuple[Tuple[str, bool], ...] = ()
    submit: bool = False                # call happens in a worker thread (Executor.submit / map)
    arg_nodes: List[ast.AST] = field(default_factory=list)


@dataclass
class Mutation:
    av: AV
    how: str            # "store .x", "call .add", "subscript store", ...
    node: ast.AST
    func: FuncInfo
    via: Tuple[str, ...] = ()       # call chain (qualnames) when propagated from a callee
    ty: Optional[Ty] = None

    def origin(self) -> str:
        return self.via[-1] if self.via else self.func.qualname


SCALAR_BUILTINS = {"len", "abs", "int", "float", "str", "sum", "isinstance", "any", "all", "print", "range",
                   "round", "bool", "hash", "id", "repr", "type", "hasattr", "callable", "divmod", "pow", "ord",
                   "chr", "format", "issubclass"}
PASSTHROUGH_BUILTINS = {"iter", "reversed", "enumerate", "zip", "map", "filter"}
EXTERNAL_ARG_MUTATORS = {"random.shuffle": (0,), "numpy.random.shuffle": (0,), "heapq.heappush": (0,), "heapq.heappop": (0,), "heapq.heapify": (0,),
                         "heapq.heapreplace": (0,), "heapq.heappushpop": (0,), "bisect.insort": (0,), "bisect.insort_left": (0,), "bisect.insort_right": (0,),
                         "numpy.copyto": (0,), "numpy.put": (0,), "numpy.place": (0,), "numpy.putmask": (0,), "numpy.fill_diagonal": (0,), "numpy.put_along_axis": (0,),
                         "operator.setitem": (0,), "operator.delitem": (0,), "operator.iadd": (0,), "operator.ior": (0,), "operator.iand": (0,), "operator.isub": (0,)}
FRESH_CONTAINER_CTORS = {"list": "list", "set": "set", "sorted": "list", "tuple": "tuple", "frozenset": "frozenset",
                         "dict": "dict",
                         "sortedcontainers.SortedSet": "SortedSet", "sortedcontainers.SortedDict": "SortedDict",
                         "numpy.array": "ndarray", "collections.Counter": "dict"}


class Flow:
    """Analysis result for one function (one specialisation)."""

    def __init__(self, prog: "Program", f: FuncInfo, consts: Tuple[Tuple[str, bool], ...] = ()):
        self.prog = prog
        self.model = prog.model
        self.f = f
        self.consts = dict(consts)
        self.types: Dict[str, Ty] = {}
        self.vals: Dict[str, Set[AV]] = {}
        self.calls: List[CallSite] = []
        self.mutations: List[Mutation] = []      # direct + propagated
        self.returns: Set[AV] = set()
        self.ret_ty: Optional[Ty] = None
        self.stores: Dict[Tuple[str, Tuple[str, ...]], Set[AV]] = {}   # stores through param/global roots
        self.store_nodes: List[Tuple[AV, str, Set[AV], ast.AST]] = []   # (object, field, values, node)
        self._store_keys: Set = set()
        self.global_writes: List[ast.AST] = []
        self.unresolved: List[CallSite] = []
        self._callsite_index: Dict[Tuple[int, str], CallSite] = {}
        self.changed = False
        self._node_types: Dict[int, Optional[Ty]] = {}
        self._node_vals: Dict[int, Set[AV]] = {}
        self._init_params()

    # ---- setup ------------------------------------------------------------------------------
    def _init_params(self):
        f = self.f
        a = f.node.args
        classes = set(self.model.classes)
        allargs = a.posonlyargs + a.args + a.kwonlyargs + ([a.vararg] if a.vararg else []) + ([a.kwarg] if a.kwarg else [])
        for i, p in enumerate(allargs):
            ty = ann_to_ty(p.annotation, classes)
            if i == 0 and f.cls is not None and f.parent is None:
                if f.kind in ("method", "property", "setter"):
                    ty = Ty(f.cls.name)
                elif f.kind == "classmethod":
                    ty = Ty("type", (Ty(f.cls.name),))
            if ty is not None:
                self.types[p.arg] = ty
            self.vals[p.arg] = {AV(f"param:{p.arg}")}
        # closure variables of nested functions: bound to the enclosing function's same-named locals (types only)
        self.param_names = {p.arg for p in allargs}

    # ---- helpers ----------------------------------------------------------------------------
    def site(self, node: ast.AST, tag: str = "") -> str:
        return f"fresh:{self.f.qualname}:{tag or type(node).__name__}@{getattr(node, 'lineno', 0)}.{getattr(node, 'col_offset', 0)}"

    def av_type(self, av: AV) -> Optional[Ty]:
        return self.prog.av_type(self, av)

    def _set(self, name: str, ty: Optional[Ty], vals: Set[AV]):
        if ty is not None and name not in self.types:
            self.types[name] = ty
            self.changed = True
        cur = self.vals.setdefault(name, set())
        if not vals <= cur:
            cur |= vals
            self.changed = True

    def read(self, av: AV, *p: str) -> Set[AV]:
        """read av.p through the heap / local stores"""
        new = av.ext(*p)
        out = {new}
        k = (new.root, new.path)
        h = self.prog.heap.get(k)
        if h:
            mine = f"xparam:{self.f.qualname}:"
            for x in h:
                # parameters of *this* function that were stored in the global heap come back as parameters
                out.add(AV("param:" + x.root[len(mine):], x.path) if x.root.startswith(mine) else x)
        s = self.stores.get(k)
        if s:
            out |= s
        return out

    def read_all(self, avs: Iterable[AV], *p: str) -> Set[AV]:
        out: Set[AV] = set()
        for a in avs:
            out |= self.read(a, *p)
        return out

    def store(self, objs: Iterable[AV], fld: str, vals: Set[AV], node: ast.AST):
        for o in objs:
            sk = (o, fld, frozenset(vals), id(node))
            if sk not in self._store_keys:            # a summary is a set: the same store replayed through recursive call chains is recorded once
                self._store_keys.add(sk)
                self.store_nodes.append((o, fld, set(vals), node))
            k = (o.root, o.path + (fld,))
            tgt = self.prog.heap if o.kind == "fresh" else self.stores
            cur = tgt.setdefault(k, set())
            add = {v for v in vals if v != AV(o.root, o.path + (fld,))}
            if o.kind == "fresh":
                # the heap is global: qualify parameter roots with their function
                add = {AV(f"xparam:{self.f.qualname}:{v.name}", v.path) if v.kind == "param" else v for v in add}
            if not add <= cur:
                cur |= add
                self.changed = True
                if o.kind == "fresh":
                    self.prog.heap_changed = True

    def mutate(self, avs: Iterable[AV], how: str, node: ast.AST, via: Tuple[str, ...] = (), func=None):
        for a in avs:
            if a.kind in ("func", "const"):
                continue
            m = Mutation(a, how, node, func or self.f, via, self.av_type(a))
            key = (a, how, id(node), via)
            if key not in self._mutkeys:
                self._mutkeys.add(key)
                self.mutations.append(m)
                self.changed = True

    _mutkeys: Set = None

    # ---- driver -----------------------------------------------------------------------------
    def run(self):
        self._mutkeys = set() if self._mutkeys is None else self._mutkeys
        node = self.f.node
        for _ in range(6):
            self.changed = False
            self.calls_pass: List[CallSite] = []
            if isinstance(node, ast.Lambda):
                t, v = self.expr(node.body)
                self.returns |= v
            else:
                for st in node.body:
                    self.stmt(st)
            self.calls = self.calls_pass
            if not self.changed:
                break
        self.unresolved = [c for c in self.calls if c.unresolved]
        return self

    # ---- statements -------------------------------------------------------------------------
    def stmt(self, s: ast.stmt):
        if isinstance(s, (ast.FunctionDef, ast.AsyncFunctionDef)):
            self._set(s.name, Ty("Callable"), {AV(f"func:{self.f.qualname}.<locals>.{s.name}")})
            return
        if isinstance(s, ast.ClassDef):
            return
        if isinstance(s, ast.Return):
            if s.value is not None:
                t, v = self.expr(s.value)
                if not v <= self.returns:
                    self.returns |= v
                    self.changed = True
                if t is not None and self.ret_ty is None:
                    self.ret_ty = t
            return
        if isinstance(s, ast.Assign):
            t, v = self.expr(s.value)
            ann = getattr(s, "ann", None)
            if ann is not None:
                ty = ann_to_ty(ann, set(self.model.classes))
                if ty is not None and ty.name in ("object", "Any"):
                    ty = None            # uninformative annotation: keep the inferred type
                if t is not None and ty is not None and ty.name in ("SortedSet", "list", "SortedDict") and not ty.args:
                    ty = t if t.name == ty.name else ty
                t = ty or t
            for tg in s.targets:
                self.assign(tg, t, v, s)
            return
        if isinstance(s, ast.AnnAssign):
            ty = ann_to_ty(s.annotation, set(self.model.classes))
            if s.value is not None:
                t, v = self.expr(s.value)
                if t is not None and ty is not None and ty.name in ("SortedSet", "list", "SortedDict") and not ty.args:
                    ty = t if t.name == ty.name else ty
                self.assign(s.target, ty or t, v, s)
            elif isinstance(s.target, ast.Name) and ty is not None:
                self._set(s.target.id, ty, set())
            return
        if isinstance(s, ast.AugAssign) and getattr(s, "rebinds", False):
            # normal form of `x = x op y` (pgstat/model.py): a plain assignment of a new object
            tg = s.target
            load = copy.deepcopy(tg)
            load.ctx = ast.Load()
            self.stmt(ast.copy_location(ast.Assign(targets=[tg], value=ast.copy_location(ast.BinOp(left=load, op=s.op, right=s.value), s)), s))
            return
        if isinstance(s, ast.AugAssign):
            t, v = self.expr(s.value)
            tg = s.target
            if isinstance(tg, ast.Name):
                if self._is_global(tg.id):
                    self.global_writes.append(s)
                # `x op= y` on a name: for a mutable container (set / list / dict / array: |=, &=, -=, ^=, +=, *= are in-place) the object x
                # refers to - and everything it aliases - is updated in place and x keeps referring to it; for numbers / strings / tuples
                # it is a rebinding
                ct, cv = self.expr(ast.copy_location(ast.Name(id=tg.id, ctx=ast.Load()), tg))
                immutable = ct is not None and ct.name in IMMUTABLE_TYPES
                if cv and not immutable:
                    self.mutate(cv, f"augmented assignment {type(s.op).__name__}", s)
                else:
                    self._set(tg.id, None, set())
            elif isinstance(tg, ast.Attribute):
                _, ov = self.expr(tg.value)
                self.mutate(ov, f"store .{tg.attr}", s)
                ct, cv = self.expr(ast.copy_location(ast.Attribute(value=tg.value, attr=tg.attr, ctx=ast.Load()), tg))
                if cv and not (ct is not None and ct.name in IMMUTABLE_TYPES):
                    self.mutate(cv, f"augmented assignment {type(s.op).__name__}", s)
            elif isinstance(tg, ast.Subscript):
                _, ov = self.expr(tg.value)
                self.expr(tg.slice)
                self.mutate(ov, "subscript store", s)
            return
        if isinstance(s, ast.For):
            t, v = self.expr(s.iter)
            self.bind_iter(s.target, t, v, s.iter)
            for b in s.body + s.orelse:
                self.stmt(b)
            return
        if isinstance(s, ast.While):
            c = self.fold(s.test)
            self.truth(s.test)
            if c is not False:
                for b in s.body:
                    self.stmt(b)
            for b in s.orelse:
                self.stmt(b)
            return
        if isinstance(s, ast.If):
            c = self.fold(s.test)
            self.truth(s.test)
            if c is not False:
                for b in s.body:
                    self.stmt(b)
            if c is not True:
                for b in s.orelse:
                    self.stmt(b)
            return
        if isinstance(s, ast.With):
            for it in s.items:
                t, v = self.expr(it.context_expr)
                if it.optional_vars is not None:
                    self.assign(it.optional_vars, t, v, s)
            for b in s.body:
                self.stmt(b)
            return
        if isinstance(s, ast.Try):
            for b in s.body:
                self.stmt(b)
            for h in s.handlers:
                if h.type is not None:
                    self.expr(h.type)
                if h.name:
                    self._set(h.name, Ty("Exception"), set())
                for b in h.body:
                    self.stmt(b)
            for b in s.orelse + s.finalbody:
                self.stmt(b)
            return
        if isinstance(s, ast.Expr):
            self.expr(s.value)
            return
        if isinstance(s, ast.Assert):
            self.truth(s.test)
            if s.msg is not None:
                self.expr(s.msg)
            return
        if isinstance(s, ast.Raise):
            if s.exc is not None:
                self.expr(s.exc)
            if s.cause is not None:
                self.expr(s.cause)
            return
        if isinstance(s, ast.Delete):
            for tg in s.targets:
                if isinstance(tg, ast.Subscript):
                    _, ov = self.expr(tg.value)
                    self.mutate(ov, "subscript delete", s)
                elif isinstance(tg, ast.Attribute):
                    _, ov = self.expr(tg.value)
                    self.mutate(ov, f"delete .{tg.attr}", s)
            return
        if isinstance(s, (ast.Global, ast.Nonlocal)):
            self._declared_global = getattr(self, "_declared_global", set()) | set(s.names)
            return
        if isinstance(s, (ast.Import, ast.ImportFrom, ast.Pass, ast.Break, ast.Continue)):
            return
        if isinstance(s, ast.Match):  # pragma: no cover
            raise AnalysisError("flow", f"match statement not supported in {self.f.qualname}")
        for ch in ast.iter_child_nodes(s):  # pragma: no cover
            if isinstance(ch, ast.expr):
                self.expr(ch)

    def _is_global(self, name: str) -> bool:
        return name in getattr(self, "_declared_global", set())

    def assign(self, tg: ast.AST, ty: Optional[Ty], vals: Set[AV], node: ast.AST):
        if isinstance(tg, ast.Name):
            if self._is_global(tg.id):
                self.global_writes.append(node)
            self._set(tg.id, ty, vals)
        elif isinstance(tg, (ast.Tuple, ast.List)):
            for i, e in enumerate(tg.elts):
                et = None
                if ty is not None:
                    if ty.name == "tuple" and i < len(ty.args):
                        et = ty.args[i]
                        if et.name == "?":
                            et = None
                    elif ty.name != "tuple":
                        et = ty.elem()
                ev = vals if (ty is not None and ty.name == "tuple") else self.read_all(vals, "[]")
                if isinstance(e, ast.Starred):
                    e = e.value
                self.assign(e, et, ev, node)
        elif isinstance(tg, ast.Attribute):
            ot, ov = self.expr(tg.value)
            # property setter?
            if ot is not None and ot.name in self.model.classes:
                st = self.model.find_setter(self.model.classes[ot.name], tg.attr)
                if st is not None:
                    self._record_call(node, [st], None, ov, ot, [vals], {}, implicit="setter", method=tg.attr)
                    return
            self.store(ov, tg.attr, vals, node)
            self.mutate(ov, f"store .{tg.attr}", node)
        elif isinstance(tg, ast.Subscript):
            ot, ov = self.expr(tg.value)
            self.expr(tg.slice)
            self.store(ov, "[]", vals, node)
            self.mutate(ov, "subscript store", node)
        elif isinstance(tg, ast.Starred):
            self.assign(tg.value, ty, vals, node)

    def bind_iter(self, target: ast.AST, ity: Optional[Ty], ivals: Set[AV], iter_node: ast.AST):
        # for a, b in zip(X, Y)  /  for i, (a, b) in enumerate(zip(X, Y)): each target takes the elements of its own argument
        # (tuples are value-merged in this analysis, which would alias a with Y's elements and b with X's)
        zc, ztarget = None, None
        if isinstance(iter_node, ast.Call) and dotted(iter_node.func) == "zip":
            zc, ztarget = iter_node, target
        elif isinstance(iter_node, ast.Call) and dotted(iter_node.func) == "enumerate" and iter_node.args and isinstance(iter_node.args[0], ast.Call) \
                and dotted(iter_node.args[0].func) == "zip" and isinstance(target, (ast.Tuple, ast.List)) and len(target.elts) == 2:
            zc, ztarget = iter_node.args[0], target.elts[1]
            self.assign(target.elts[0], T_INT, set(), iter_node)
        if zc is not None and isinstance(ztarget, (ast.Tuple, ast.List)) and len(ztarget.elts) == len(zc.args) and not zc.keywords and \
                not any(isinstance(a, ast.Starred) for a in zc.args):
            for te, arg in zip(ztarget.elts, zc.args):
                at, av = self.type_at(arg), self.vals_at(arg)
                self.bind_iter(te, at, av, arg)
            return
        et = None
        if ity is not None:
            if ity.name in self.model.classes:
                it = self.model.find_method(self.model.classes[ity.name], "__iter__")
                if it is not None:
                    self._record_call(iter_node, [it], None, ivals, ity, [], {}, implicit="dunder:__iter__",
                                      method="__iter__")
                    rt = self.model.return_type(it)
                    et = rt.elem() if rt else None
                    ivals = self._apply_returns(it, ivals, [], {}, iter_node)
            else:
                et = ity.elem()
                if ity.name in ("SortedDict", "dict"):
                    ivals = set()       # iterating a mapping yields its (immutable) keys
        self.assign(target, et, self.read_all(ivals, "[]"), iter_node)

    # ---- constant folding on specialised flags ---------------------------------------------------
    def fold(self, e: ast.AST) -> Optional[bool]:
        if isinstance(e, ast.Name) and e.id in self.consts:
            return self.consts[e.id]
        if isinstance(e, ast.UnaryOp) and isinstance(e.op, ast.Not):
            v = self.fold(e.operand)
            return None if v is None else (not v)
        if isinstance(e, ast.Constant) and isinstance(e.value, bool):
            return e.value
        return None

    def truth(self, e: ast.AST):
        """expression used in a boolean context: evaluates it and adds __bool__/__len__ edges"""
        if isinstance(e, ast.BoolOp):
            for v in e.values:
                self.truth(v)
            return
        if isinstance(e, ast.UnaryOp) and isinstance(e.op, ast.Not):
            self.truth(e.operand)
            return
        t, v = self.expr(e)
        if t is not None and t.name in self.model.classes:
            c = self.model.classes[t.name]
            for dn in ("__bool__", "__len__"):
                m = self.model.find_method(c, dn)
                if m is not None:
                    self._record_call(e, [m], None, v, t, [], {}, implicit=f"dunder:{dn}", method=dn)
                    break

    # ---- expressions ------------------------------------------------------------------------
    def expr(self, e: ast.AST) -> Tuple[Optional[Ty], Set[AV]]:
        t, v = self._expr(e)
        self._node_types[id(e)] = t
        self._node_vals[id(e)] = v
        return t, v

    def type_at(self, e: ast.AST) -> Optional[Ty]:
        return self._node_types.get(id(e))

    def vals_at(self, e: ast.AST) -> Set[AV]:
        return self._node_vals.get(id(e), set())

    def _expr(self, e: ast.AST) -> Tuple[Optional[Ty], Set[AV]]:
        M = self.model
        if isinstance(e, ast.Constant):
            v = e.value
            if isinstance(v, bool):
                return T_BOOL, set()
            if isinstance(v, str):
                return T_STR, set()
            if isinstance(v, int):
                return T_INT, set()
            if isinstance(v, float):
                return T_FLOAT, set()
            if v is None:
                return T_NONE, set()
            return None, set()
        if isinstance(e, ast.Name):
            n = e.id
            if n in self.consts:
                return T_BOOL, set()
            if n in self.vals or n in self.types:
                return self.types.get(n), set(self.vals.get(n, set()))
            # closure variable of an enclosing function
            p = self.f.parent
            while p is not None:
                pf = self.prog.flow(p)
                if pf is not None and (n in pf.vals or n in pf.types):
                    return pf.types.get(n), set()
                p = p.parent
            mod = self.f.module
            if n in mod.functions:
                return Ty("Callable"), {AV(f"func:{mod.functions[n].qualname}")}
            if n in mod.classes:
                return Ty("type", (Ty(n),)), set()
            if n in mod.aliases:
                can = M.expand(mod, n)
                ent = M.lookup(can)
                if isinstance(ent, FuncInfo):
                    return Ty("Callable"), {AV(f"func:{ent.qualname}")}
                if isinstance(ent, ClassInfo):
                    return Ty("type", (Ty(ent.name),)), set()
                return Ty("module:" + can), set()
            if n in mod.globals_:
                return None, {AV(f"global:{mod.name}.{n}")}
            return None, set()
        if isinstance(e, ast.Attribute):
            return self._attribute(e)
        if isinstance(e, ast.Subscript):
            return self._subscript(e)
        if isinstance(e, ast.Call):
            return self._call(e)
        if isinstance(e, ast.IfExp):
            c = self.fold(e.test)
            self.truth(e.test)
            if c is True:
                return self.expr(e.body)
            if c is False:
                return self.expr(e.orelse)
            t1, v1 = self.expr(e.body)
            t2, v2 = self.expr(e.orelse)
            return t1 or t2, v1 | v2
        if isinstance(e, ast.BoolOp):
            t, vs = None, set()
            for x in e.values:
                self.truth(x) if False else None
                tx, vx = self.expr(x)
                t = t or tx
                vs |= vx
            return t, vs
        if isinstance(e, ast.BinOp):
            tl, vl = self.expr(e.left)
            tr, vr = self.expr(e.right)
            if tl is not None and tl.name in M.classes and isinstance(e.op, ast.Add):
                m = M.find_method(M.classes[tl.name], "__add__")
                if m is not None:
                    self._record_call(e, [m], None, vl, tl, [vr], {}, implicit="dunder:__add__", method="__add__")
                    return M.return_type(m), self._apply_returns(m, vl, [vr], {}, e)
            if isinstance(e.op, ast.Sub) and tl is not None and tl.name in ("set", "SortedSet", "frozenset"):
                return tl, {AV(self.site(e, "setdiff"))}
            if isinstance(e.op, (ast.Mult, ast.Add)) and tl is not None and tl.name == "list":
                s = AV(self.site(e, "list"))
                self.store([s], "[]", self.read_all(vl, "[]") | self.read_all(vr, "[]"), e)
                return tl, {s}
            for t in (tl, tr):
                if t is not None and t.name in ("ndarray", "float32"):
                    return t, set()
            if tl == T_STR:
                return T_STR, set()
            if T_FLOAT in (tl, tr) or isinstance(e.op, ast.Div):
                return T_FLOAT, set()
            return tl or tr, set()
        if isinstance(e, ast.UnaryOp):
            if isinstance(e.op, ast.Not):
                self.truth(e.operand)
                return T_BOOL, set()
            t, _ = self.expr(e.operand)
            return t, set()
        if isinstance(e, ast.Compare):
            ops = [e.left] + list(e.comparators)
            tys = [self.expr(x) for x in ops]
            for i, op in enumerate(e.ops):
                (tl, vl), (tr, vr) = tys[i], tys[i + 1]
                if isinstance(op, (ast.In, ast.NotIn, ast.Is, ast.IsNot)):
                    if isinstance(op, (ast.In, ast.NotIn)) and tr is not None and tr.name in M.classes:
                        m = M.find_method(M.classes[tr.name], "__contains__") or M.find_method(M.classes[tr.name], "__iter__")
                        if m is not None:
                            self._record_call(e, [m], None, vr, tr, [], {}, implicit=f"dunder:{m.name}", method=m.name)
                    continue
                for (t, v, ot, ov) in ((tl, vl, tr, vr), (tr, vr, tl, vl)):
                    if t is not None and t.name in M.classes:
                        c = M.classes[t.name]
                        names = ["__eq__", "__ne__"] if isinstance(op, (ast.Eq, ast.NotEq)) else ["__lt__", "__eq__", "__le__", "__gt__", "__ge__"]
                        for dn in names:
                            m = M.find_method(c, dn)
                            if m is not None:
                                self._record_call(e, [m], None, v, t, [ov], {}, implicit=f"dunder:{dn}", method=dn)
                        break
            return T_BOOL, set()
        if isinstance(e, (ast.Tuple, ast.List)):
            tys, vs = [], set()
            for x in e.elts:
                t, v = self.expr(x.value if isinstance(x, ast.Starred) else x)
                tys.append(t or Ty("?"))
                vs |= v
            if isinstance(e, ast.Tuple):
                return Ty("tuple", tuple(tys)), vs
            s = AV(self.site(e, "list"))
            self.store([s], "[]", vs, e)
            et = next((t for t in tys if t.name != "?"), None)
            return Ty("list", (et,) if et else ()), {s}
        if isinstance(e, (ast.Set, ast.Dict)):
            s = AV(self.site(e, "lit"))
            vs = set()
            for x in (e.elts if isinstance(e, ast.Set) else [k for k in e.keys if k is not None] + list(e.values)):
                _, v = self.expr(x)
                vs |= v
            self.store([s], "[]", vs, e)
            return Ty("set" if isinstance(e, ast.Set) else "dict"), {s}
        if isinstance(e, (ast.ListComp, ast.SetComp, ast.GeneratorExp, ast.DictComp)):
            for g in e.generators:
                t, v = self.expr(g.iter)
                self.bind_iter(g.target, t, v, g.iter)
                for c in g.ifs:
                    self.truth(c)
            s = AV(self.site(e, "comp"))
            if isinstance(e, ast.DictComp):
                self.expr(e.key)
                et, ev = self.expr(e.value)
                self.store([s], "[]", ev, e)
                return Ty("dict"), {s}
            et, ev = self.expr(e.elt)
            self.store([s], "[]", ev, e)
            nm = {"ListComp": "list", "SetComp": "set", "GeneratorExp": "Iterable"}[type(e).__name__]
            return Ty(nm, (et,) if et else ()), {s}
        if isinstance(e, ast.Lambda):
            sub = self.prog.lambda_info(self.f, e)
            fl = self.prog.flow(sub)
            if fl is not None:
                # a lambda's body runs when it is called; attribute its calls to the creator (conservative)
                self.calls_pass.extend(fl.calls)
            return Ty("Callable"), {AV(f"func:{sub.qualname}")}
        if isinstance(e, ast.JoinedStr):
            for v in e.values:
                if isinstance(v, ast.FormattedValue):
                    self.expr(v.value)
            return T_STR, set()
        if isinstance(e, ast.FormattedValue):
            self.expr(e.value)
            return T_STR, set()
        if isinstance(e, ast.Starred):
            return self.expr(e.value)
        if isinstance(e, ast.Slice):
            for x in (e.lower, e.upper, e.step):
                if x is not None:
                    self.expr(x)
            return None, set()
        if isinstance(e, (ast.Yield, ast.YieldFrom)):
            if e.value is not None:
                t, v = self.expr(e.value)
                g = AV(self.site(self.f.node, "generator"))
                if isinstance(e, ast.Yield):
                    self.store([g], "[]", v, e)
                else:
                    self.store([g], "[]", self.read_all(v, "[]"), e)
                if g not in self.returns:
                    self.returns.add(g)
                    self.changed = True
            return None, set()
        if isinstance(e, ast.NamedExpr):
            t, v = self.expr(e.value)
            self.assign(e.target, t, v, e)
            return t, v
        if isinstance(e, ast.Await):  # pragma: no cover
            return self.expr(e.value)
        return None, set()

    def _attribute(self, e: ast.Attribute) -> Tuple[Optional[Ty], Set[AV]]:
        M = self.model
        # dotted module attribute (np.inf, cp.CBC, pyannote.core.segment.SEGMENT_PRECISION)
        d = dotted(e)
        if d:
            head = d.split(".")[0]
            if head not in self.vals and head not in self.types and head in self.f.module.aliases \
                    and head not in self.param_names:
                can = M.expand(self.f.module, d)
                ent = M.lookup(can)
                if isinstance(ent, FuncInfo):
                    return Ty("Callable"), {AV(f"func:{ent.qualname}")}
                if isinstance(ent, ClassInfo):
                    return Ty("type", (Ty(ent.name),)), set()
                if can in ("numpy.inf",):
                    return T_FLOAT, set()
                return Ty("ext:" + can), set()
        t, v = self.expr(e.value)
        if e.attr == "__dict__":
            return None, v            # the attribute dictionary of an object: an alias of the object for this analysis
        if e.attr in BUILTIN_MUTATORS and isinstance(e.ctx, ast.Load) and v and (t is None or t.name not in M.classes):
            # `f = container.add` - the bound mutator is taken as a value (called later through the name, or handed to something that calls it):
            # accounted for here, where the container is named
            self.mutate(v, f"bound method .{e.attr} taken as a value", e)
        if t is not None and t.name == "type" and t.args and t.args[0].name in M.classes:
            # Class.attr : static method / class attribute
            c = M.classes[t.args[0].name]
            m = M.find_method(c, e.attr)
            if m is not None:
                return Ty("Callable"), {AV(f"func:{m.qualname}")}
            return None, set()
        if t is not None and t.name in M.classes:
            getters = M.dispatch(t.name, e.attr, getter=True)
            if getters:
                self._record_call(e, getters, None, v, t, [], {}, implicit="property", method=e.attr)
                rt = None
                out: Set[AV] = set()
                for g in getters:
                    rt = rt or M.return_type(g)
                    out |= self._apply_returns(g, v, [], {}, e)
                return rt, out
            c = M.classes[t.name]
            m = M.find_method(c, e.attr)
            if m is not None and m.kind != "property":
                return Ty("boundmethod", (Ty(t.name),)), {AV(f"func:{m.qualname}")} | v
            ft = M.field_type(t.name, e.attr)
            if ft is None:
                for k in M.mro(c):
                    if e.attr in k.class_attrs:
                        return None, set()
            return ft, self.read_all(v, e.attr)
        if t is not None and t.name == "Unit":
            return M.field_type("Unit", e.attr), self.read_all(v, e.attr)
        if t is not None and t.name == "Segment":
            return T_FLOAT, set()
        if t is not None and t.name == "ndarray" and e.attr in ("T", "shape", "value"):
            return t if e.attr == "T" else None, set()
        if t is None and v:
            # untyped receiver: an attribute load may run any @property of that name (CHA by name)
            getters = [c.getters[e.attr] for c in M.classes.values() if e.attr in c.getters
                       and not c.module.name.endswith(".notebook")]
            if getters:
                self._record_call(e, getters, None, v, None, [], {}, implicit="property-cha", method=e.attr)
                out = self.read_all(v, e.attr)
                rt = None
                for g in getters:
                    out |= self._apply_returns(g, v, [], {}, e)
                    rt = rt or M.return_type(g)
                return (rt if len(getters) == 1 else None), out
        return None, self.read_all(v, e.attr)

    def _subscript(self, e: ast.Subscript) -> Tuple[Optional[Ty], Set[AV]]:
        M = self.model
        t, v = self.expr(e.value)
        st, sv = self.expr(e.slice)
        if t is not None and t.name in M.classes:
            m = M.find_method(M.classes[t.name], "__getitem__")
            if m is not None:
                self._record_call(e, [m], None, v, t, [sv], {}, implicit="dunder:__getitem__", method="__getitem__")
                return M.return_type(m), self._apply_returns(m, v, [sv], {}, e)
        if isinstance(e.slice, ast.Slice):
            return t, v
        if t is not None:
            if t.name in ("SortedDict", "dict"):
                return t.value(), self.read_all(v, "[]")
            if t.name == "tuple":
                i = e.slice.value if isinstance(e.slice, ast.Constant) and isinstance(e.slice.value, int) else None
                if i is not None and -len(t.args) <= i < len(t.args):
                    et = t.args[i]
                    return (None if et.name == "?" else et), v
                return None, v
            return t.elem(), self.read_all(v, "[]")
        return None, self.read_all(v, "[]")

    # ---- calls ------------------------------------------------------------------------------
    def _record_call(self, node, targets, external, recv, recv_ty, args, kwargs, implicit="", unresolved=False,
                     method="", consts=(), submit=False, arg_nodes=None) -> CallSite:
        cs = CallSite(node, self.f, list(targets), external, set(recv), recv_ty, [set(a) for a in args],
                      {k: set(v) for k, v in kwargs.items()}, implicit, unresolved, method, tuple(consts), submit,
                      list(arg_nodes or []))
        self.calls_pass.append(cs)
        # effects of the callees
        for tg in targets:
            self._apply_effects(tg, cs)
        return cs

    def _bind(self, callee: FuncInfo, recv: Set[AV], args: List[Set[AV]], kwargs: Dict[str, Set[AV]]) -> Dict[str, Set[AV]]:
        a = callee.node.args
        names = [x.arg for x in a.posonlyargs + a.args]
        b: Dict[str, Set[AV]] = {}
        pos = list(args)
        if callee.cls is not None and callee.parent is None and callee.kind in ("method", "property", "setter") and names:
            b[names[0]] = set(recv)
            names = names[1:]
        elif callee.cls is not None and callee.parent is None and callee.kind == "classmethod" and names:
            names = names[1:]
        for n, v in zip(names, pos):
            b[n] = set(v)
        if a.vararg and len(pos) > len(names):
            b[a.vararg.arg] = set().union(*pos[len(names):])
        for k, v in kwargs.items():
            if k in names or k in [x.arg for x in a.kwonlyargs]:
                b.setdefault(k, set()).update(v)
        return b

    def _subst(self, callee_flow: "Flow", av: AV, binding: Dict[str, Set[AV]]) -> Set[AV]:
        if av.kind == "param":
            out: Set[AV] = set()
            for b in binding.get(av.name, ()):
                cur = {b}
                for p in av.path:
                    cur = self.read_all(cur, p)
                out |= cur
            return out
        return {av}

    def _callee_flow(self, callee: FuncInfo, cs: Optional[CallSite]) -> Optional["Flow"]:
        return self.prog.flow(callee, cs.consts if cs else ())

    def _apply_returns(self, callee: FuncInfo, recv, args, kwargs, node, consts=()) -> Set[AV]:
        cf = self.prog.flow(callee, consts)
        if cf is None:
            return set()
        b = self._bind(callee, recv, args, kwargs)
        out: Set[AV] = set()
        for r in cf.returns:
            out |= self._subst(cf, r, b)
        return out

    def _apply_effects(self, callee: FuncInfo, cs: CallSite):
        cf = self.prog.flow(callee, cs.consts)
        if cf is None:
            return
        b = self._bind(callee, cs.recv, cs.args, cs.kwargs)
        for m in cf.mutations:
            if m.av.kind == "param":
                tg = self._subst(cf, m.av, b)
                self.mutate(tg, m.how, cs.node, via=(m.via or ()) + (m.func.qualname,) if not m.via else m.via, func=self.f)
        for (o, fld, vals, node) in list(cf.store_nodes):
            if o.kind == "param":
                objs = self._subst(cf, o, b)
                vv: Set[AV] = set()
                for x in vals:
                    vv |= self._subst(cf, x, b)
                if objs and vv:
                    self.store(objs, fld, vv, cs.node)

    def _const_args(self, callee: FuncInfo, call: ast.Call) -> Tuple[Tuple[str, bool], ...]:
        """boolean literal arguments -> specialisation key"""
        a = callee.node.args
        names = [x.arg for x in a.posonlyargs + a.args]
        if callee.cls is not None and callee.parent is None and callee.kind in ("method", "property", "setter", "classmethod"):
            names = names[1:]
        out = {}
        for n, x in zip(names, call.args):
            if isinstance(x, ast.Constant) and isinstance(x.value, bool):
                out[n] = x.value
        for k in call.keywords:
            if k.arg and isinstance(k.value, ast.Constant) and isinstance(k.value.value, bool):
                out[k.arg] = k.value.value
        # defaults for boolean flags that are not passed
        defaults = dict(zip(reversed([x.arg for x in a.posonlyargs + a.args]), reversed(a.defaults)))
        for n in names:
            if n not in out and n in defaults and isinstance(defaults[n], ast.Constant) \
                    and isinstance(defaults[n].value, bool):
                passed = any(k.arg == n for k in call.keywords) or names.index(n) < len(call.args)
                if not passed:
                    out[n] = defaults[n].value
        # only specialise on flags the callee tests
        used = {n.id for n in ast.walk(callee.node) if isinstance(n, ast.Name)}
        return tuple(sorted((k, v) for k, v in out.items() if k in used))

    def _eval_args(self, call: ast.Call):
        args, kwargs, nodes = [], {}, []
        for a in call.args:
            if isinstance(a, ast.Starred) and isinstance(a.value, (ast.Tuple, ast.List)):
                for x in a.value.elts:
                    args.append(self.expr(x)[1])
                    nodes.append(x)
            else:
                args.append(self.expr(a)[1])
                nodes.append(a)
        for k in call.keywords:
            v = self.expr(k.value)[1]
            if k.arg:
                kwargs[k.arg] = v
        return args, kwargs, nodes

    def _ctor(self, c: ClassInfo, call: ast.Call, args, kwargs, nodes) -> Tuple[Optional[Ty], Set[AV]]:
        M = self.model
        s = AV(self.site(call, c.name))
        init = M.find_method(c, "__init__")
        if init is not None:
            cs = self._record_call(call, [init], None, {s}, Ty(c.name), args, kwargs, implicit="ctor",
                                   method="__init__", consts=self._const_args(init, call), arg_nodes=nodes)
        else:
            # dataclass / plain: positional args -> annotated fields in declaration order
            flds = [n for k in reversed(M.mro(c)) for n in k.annotations]
            for n, v in zip(flds, args):
                self.store([s], n, v, call)
            for k, v in kwargs.items():
                self.store([s], k, v, call)
            self._record_call(call, [], f"{c.module.name}.{c.name}", set(), None, args, kwargs, implicit="ctor")
        return Ty(c.name), {s}

    def _call(self, call: ast.Call) -> Tuple[Optional[Ty], Set[AV]]:
        M = self.model
        fn = call.func
        # ---------------- super().m(...)
        if isinstance(fn, ast.Attribute) and isinstance(fn.value, ast.Call) and isinstance(fn.value.func, ast.Name) \
                and fn.value.func.id == "super" and self.f.cls is not None:
            args, kwargs, nodes = self._eval_args(call)
            mro = M.mro(self.f.cls)
            tgt = None
            for k in mro[1:]:
                if fn.attr in k.methods:
                    tgt = k.methods[fn.attr]
                    break
            sn = self.f.self_name
            recv = self.vals.get(sn, set()) if sn else set()
            if tgt is None:
                self._record_call(call, [], "builtins.object." + fn.attr, recv, None, args, kwargs, method=fn.attr)
                return None, set()
            self._record_call(call, [tgt], None, recv, Ty(self.f.cls.name), args, kwargs, implicit="super",
                              method=fn.attr, consts=self._const_args(tgt, call), arg_nodes=nodes)
            return M.return_type(tgt), self._apply_returns(tgt, recv, args, kwargs, call)

        d = dotted(fn)
        # ---------------- plain names
        if isinstance(fn, ast.Name):
            n = fn.id
            args, kwargs, nodes = self._eval_args(call)
            if n in self.vals and n not in self.f.module.functions and any(a.kind == "func" for a in self.vals[n]):
                tgs = [M.functions[a.name] for a in self.vals[n] if a.kind == "func" and a.name in M.functions]
                return self._call_targets(call, tgs, set(), None, args, kwargs, nodes, method=n)
            if n in self.vals or n in self.types:
                t = self.types.get(n)
                if t is not None and t.name == "type" and t.args and t.args[0].name in M.classes:
                    return self._ctor(M.classes[t.args[0].name], call, args, kwargs, nodes)
                # calling an unknown local callable (e.g. a parameter `overlapping_fun`, closure kernels)
                self._record_call(call, [], f"<local>{n}", set(), None, args, kwargs, method=n)
                return None, set()
            mod = self.f.module
            can = M.expand(mod, n)
            ent = M.lookup(can)
            if isinstance(ent, ClassInfo):
                return self._ctor(ent, call, args, kwargs, nodes)
            if isinstance(ent, FuncInfo):
                return self._call_targets(call, [ent], set(), None, args, kwargs, nodes, method=n)
            # closure kernel variable from enclosing function (pos / cat in compile_d_mat)
            p = self.f.parent
            while p is not None:
                pf = self.prog.flow(p)
                if pf is not None and n in pf.vals:
                    tgs = [M.functions[a.name] for a in pf.vals[n] if a.kind == "func" and a.name in M.functions]
                    if tgs:
                        return self._call_targets(call, tgs, set(), None, args, kwargs, nodes, method=n)
                    self._record_call(call, [], f"<closure>{n}", set(), None, args, kwargs, method=n)
                    return None, set()
                p = p.parent
            return self._builtin_or_external(call, can if can != n else n, args, kwargs, nodes)

        # ---------------- attribute calls
        if isinstance(fn, ast.Attribute):
            head = d.split(".")[0] if d else None
            if d and head in self.f.module.aliases and head not in self.vals and head not in self.types \
                    and head not in self.param_names:
                can = M.expand(self.f.module, d)
                ent = M.lookup(can)
                args, kwargs, nodes = self._eval_args(call)
                if isinstance(ent, ClassInfo):
                    return self._ctor(ent, call, args, kwargs, nodes)
                if isinstance(ent, FuncInfo):
                    return self._call_targets(call, [ent], set(), None, args, kwargs, nodes, method=fn.attr)
                return self._builtin_or_external(call, can, args, kwargs, nodes)
            rt, rv = self.expr(fn.value)
            args, kwargs, nodes = self._eval_args(call)
            m = fn.attr
            # Class.method(...)   (static / classmethod / explicit class call)
            if rt is not None and rt.name == "type" and rt.args and rt.args[0].name in M.classes:
                c = M.classes[rt.args[0].name]
                tg = M.find_method(c, m)
                if tg is not None:
                    return self._call_targets(call, [tg], set(), None, args, kwargs, nodes, method=m)
            # executor.submit(fn, *args)
            if m in ("submit", "map") and (rt is None or rt.name in ("ThreadPoolExecutor", "ProcessPoolExecutor", "Executor")):
                if args:
                    fns = [M.functions[a.name] for a in args[0] if a.kind == "func" and a.name in M.functions]
                    if fns or (rt is not None):
                        out_t, out_v = None, set()
                        cs = None
                        for tg in fns:
                            cs = self._record_call(call, [tg], None, set(), None, args[1:], kwargs, implicit="submit",
                                                   method=tg.name, submit=True, arg_nodes=nodes[1:])
                            out_t = out_t or M.return_type(tg)
                            out_v |= self._apply_returns(tg, set(), args[1:], kwargs, call)
                        if not fns:
                            self._record_call(call, [], "<unresolved submit>", set(), rt, args, kwargs, unresolved=True,
                                              method=m, submit=True, arg_nodes=nodes)
                        return Ty("Future", (out_t,) if out_t else ()), out_v
            if rt is not None and rt.name == "Future" and m == "result":
                return (rt.args[0] if rt.args else None), rv
            if rt is not None and rt.name in M.classes:
                tgs = M.dispatch(rt.name, m)
                if tgs:
                    return self._call_targets(call, tgs, rv, rt, args, kwargs, nodes, method=m)
                # calling the value of a field (d_mat etc.)
                self._record_call(call, [], f"<field>{rt.name}.{m}", rv, rt, args, kwargs, method=m)
                return None, set()
            if rt is not None and rt.name == "boundmethod":
                pass
            if rt is None:
                if m in BUILTIN_CONTAINER_METHODS or m in BUILTIN_MUTATORS:
                    # receiver type unknown and the name is shared with builtin containers
                    unresolved = bool(rv) and m in BUILTIN_MUTATORS
                    cs = self._record_call(call, [], f"<untyped>.{m}", rv, None, args, kwargs, unresolved=unresolved,
                                           method=m)
                    if m in BUILTIN_MUTATORS:
                        self.mutate(rv, f"call .{m} (untyped receiver)", call)
                    return None, self.read_all(rv, "[]") if m in ("pop", "get", "values", "items", "keys", "copy") else set()
                tgs = M.methods_named(m)
                if tgs:
                    return self._call_targets(call, tgs, rv, None, args, kwargs, nodes, method=m)
                self._record_call(call, [], f"<untyped>.{m}", rv, None, args, kwargs, method=m)
                return None, set()
            return self._container_method(call, rt, rv, m, args, kwargs)
        # ---------------- call of a call / subscript etc.
        t, v = self.expr(fn)
        args, kwargs, nodes = self._eval_args(call)
        tgs = [M.functions[a.name] for a in v if a.kind == "func" and a.name in M.functions]
        if tgs:
            return self._call_targets(call, tgs, set(), None, args, kwargs, nodes)
        self._record_call(call, [], f"<expr>{norm(fn)[:60]}", set(), None, args, kwargs)
        return None, set()

    def _call_targets(self, call, tgs: List[FuncInfo], recv, recv_ty, args, kwargs, nodes, method="") -> Tuple[Optional[Ty], Set[AV]]:
        M = self.model
        out_t, out_v = None, set()
        for tg in tgs:
            consts = self._const_args(tg, call) if isinstance(call, ast.Call) else ()
            self._record_call(call, [tg], None, recv, recv_ty, args, kwargs, method=method or tg.name, consts=consts,
                              arg_nodes=nodes)
            out_t = out_t or M.return_type(tg)
            out_v |= self._apply_returns(tg, recv, args, kwargs, call, consts)
        return out_t, out_v

    def _builtin_or_external(self, call, can: str, args, kwargs, nodes) -> Tuple[Optional[Ty], Set[AV]]:
        allv = set().union(*args) if args else set()
        a0 = args[0] if args else set()
        t0 = self.type_at(nodes[0]) if nodes else None
        # reflective access: getattr(o, "f") is o.f; vars(o) is o's attribute dictionary (an alias of o for the purposes of this analysis);
        # setattr / delattr write o
        if can == "getattr" and len(nodes) >= 2:
            if isinstance(nodes[1], ast.Constant) and isinstance(nodes[1].value, str):
                return self._attribute(ast.copy_location(ast.Attribute(value=nodes[0], attr=nodes[1].value, ctx=ast.Load()), call))
            return None, a0 | self.read_all(a0, "[]")
        if can in ("setattr", "delattr") and nodes:
            self.mutate(a0, f"{can}(...)", call)
            return None, set()
        if can == "vars" and nodes:
            return None, a0
        # library functions that update an argument in place
        if can in EXTERNAL_ARG_MUTATORS:
            for i in EXTERNAL_ARG_MUTATORS[can]:
                if i < len(args):
                    self.mutate(args[i], f"{can}(...) updates its argument in place", call)
        self._record_call(call, [], can if "." in can else f"builtins.{can}", set(), None, args, kwargs, method=can,
                          arg_nodes=nodes)
        if can in SCALAR_BUILTINS:
            if can == "len" and t0 is not None and t0.name in self.model.classes:
                m = self.model.find_method(self.model.classes[t0.name], "__len__")
                if m is not None:
                    self._record_call(call, [m], None, a0, t0, [], {}, implicit="dunder:__len__", method="__len__")
            if can in ("sum", "any", "all") and nodes:
                pass
            return {"len": T_INT, "int": T_INT, "float": T_FLOAT, "str": T_STR, "isinstance": T_BOOL, "any": T_BOOL,
                    "all": T_BOOL, "bool": T_BOOL, "abs": t0, "sum": None}.get(can), set()
        if can in FRESH_CONTAINER_CTORS:
            s = AV(self.site(call, FRESH_CONTAINER_CTORS[can]))
            et = None
            if t0 is not None:
                if t0.name in self.model.classes:
                    it = self.model.find_method(self.model.classes[t0.name], "__iter__")
                    if it is not None:
                        self._record_call(call, [it], None, a0, t0, [], {}, implicit="dunder:__iter__", method="__iter__")
                        rt = self.model.return_type(it)
                        et = rt.elem() if rt else None
                        a0 = self._apply_returns(it, a0, [], {}, call)
                else:
                    et = t0.elem()
                    if t0.name in ("SortedDict", "dict") and FRESH_CONTAINER_CTORS[can] not in ("dict", "SortedDict"):
                        a0 = set()        # a sequence / set built from a mapping holds its (immutable) keys; a mapping built from it shares the values
            self.store([s], "[]", self.read_all(a0, "[]"), call)
            return Ty(FRESH_CONTAINER_CTORS[can], (et,) if et else ()), {s}
        if can in ("copy.deepcopy",):
            return t0, {AV(self.site(call, "deepcopy"))}
        if can in ("copy.copy",):
            s = AV(self.site(call, "copy"))
            self.store([s], "[]", self.read_all(a0, "[]"), call)
            return t0, {s}
        if can in PASSTHROUGH_BUILTINS:
            if can == "enumerate":
                et = t0.elem() if t0 is not None else None
                if t0 is not None and t0.name in self.model.classes:
                    it = self.model.find_method(self.model.classes[t0.name], "__iter__")
                    if it is not None:
                        self._record_call(call, [it], None, a0, t0, [], {}, implicit="dunder:__iter__", method="__iter__")
                        rt = self.model.return_type(it)
                        et = rt.elem() if rt else None
                        a0 = self._apply_returns(it, a0, [], {}, call)
                w = AV(self.site(call, "enumerate"))
                self.store([w], "[]", self.read_all(a0, "[]"), call)
                return Ty("Iterable", (Ty("tuple", (T_INT, et or Ty("?"))),)), {w}
            if can == "zip":
                ets = []
                w = AV(self.site(call, "zip"))
                for nd, av in zip(nodes, args):
                    tt = self.type_at(nd)
                    ets.append((tt.elem() if tt is not None else None) or Ty("?"))
                    self.store([w], "[]", self.read_all(av, "[]"), call)
                return Ty("Iterable", (Ty("tuple", tuple(ets)),)), {w}
            if can in ("iter", "reversed"):
                if t0 is not None and t0.name in self.model.classes:
                    it = self.model.find_method(self.model.classes[t0.name], "__iter__")
                    if it is not None:
                        self._record_call(call, [it], None, a0, t0, [], {}, implicit="dunder:__iter__", method="__iter__")
                        rt = self.model.return_type(it)
                        return rt, self._apply_returns(it, a0, [], {}, call)
                return (Ty("Iterable", (t0.elem(),)) if t0 is not None and t0.elem() else None), a0
            # map / filter
            src = args[1] if len(args) > 1 else set()
            tt = self.type_at(nodes[1]) if len(nodes) > 1 else None
            return (Ty("Iterable", (tt.elem(),)) if can == "filter" and tt is not None and tt.elem() else None), src
        if can == "next":
            return (t0.elem() if t0 is not None else None), self.read_all(a0, "[]")
        if can in ("min", "max"):
            if len(args) == 1:
                return (t0.elem() if t0 is not None else None), self.read_all(a0, "[]")
            return t0, allv
        if can in ("open",):
            return Ty("file"), set()
        if can == "concurrent.futures.ThreadPoolExecutor" or can.endswith("PoolExecutor"):
            return Ty("ThreadPoolExecutor"), set()
        if can == "numpy.random.choice":
            return (t0.elem() if t0 is not None else None), self.read_all(a0, "[]")
        if can.startswith("numpy."):
            tail = can.split(".")[-1]
            if tail in ("empty", "zeros", "ones", "eye", "arange", "array", "where", "argsort", "unique", "log2"):
                return Ty("ndarray"), set()
            if tail in ("float32", "int32", "int16", "int8", "int64", "float64"):
                return Ty(tail), set()
            return None, set()
        if can == "pyannote.core.Segment":
            return Ty("Segment"), set()
        if can == "pathlib.Path":
            return Ty("Path"), set()
        if can == "collections.Counter":
            return Ty("dict"), {AV(self.site(call, "Counter"))}
        return None, set()

    def _container_method(self, call, rt: Ty, rv: Set[AV], m: str, args, kwargs) -> Tuple[Optional[Ty], Set[AV]]:
        """method call on a receiver of a known non-package type"""
        self._record_call(call, [], f"<{rt.name}>.{m}", rv, rt, args, kwargs, method=m)
        if rt.name in IMMUTABLE_TYPES or rt.name.startswith("ext:") or rt.name.startswith("module:"):
            return (T_STR if rt.name == "str" else None), set()
        if m in BUILTIN_MUTATORS:
            self.mutate(rv, f"call .{m}", call)
            if m in ("add", "append", "insert", "extend", "update", "setdefault") and args:
                vals = set().union(*args)
                self.store(rv, "[]", vals if m not in ("extend", "update") else self.read_all(vals, "[]"), call)
            if m in ("pop", "popitem"):
                return (rt.value() or rt.elem()), self.read_all(rv, "[]")
            return None, set()
        if m in ("values",):
            return Ty("Iterable", (rt.value(),) if rt.value() else ()), rv
        if m in ("keys",):
            return Ty("Iterable", (rt.args[0],) if rt.args else ()), set()     # keys are hashable values, no aliasing
        if m in ("items",):
            if len(rt.args) == 2:
                return Ty("Iterable", (Ty("tuple", rt.args),)), rv
            return None, rv
        if m == "peekitem":
            if len(rt.args) == 2:
                return Ty("tuple", rt.args), self.read_all(rv, "[]")
            return None, self.read_all(rv, "[]")
        if m in ("get",):
            return rt.value(), self.read_all(rv, "[]")
        if m == "copy":
            s = AV(self.site(call, "copy"))
            self.store([s], "[]", self.read_all(rv, "[]"), call)
            return rt, {s}
        if m in ("index", "count", "bisect_left", "bisect_right"):
            return T_INT, set()
        if m in ("issuperset", "issubset"):
            return T_BOOL, set()
        if m in ("union", "intersection", "difference"):
            return rt, {AV(self.site(call, "setop"))}
        if m == "astype":
            return rt, set()
        return None, set()


# fields whose values are immutable whatever the owner (Unit / Segment / Continuum scalars)
IMMUTABLE_FIELDS = {"annotation": Ty("str", opt=True), "segment": Ty("Segment"), "start": T_FLOAT, "end": T_FLOAT,
                    "duration": T_FLOAT, "uri": T_STR, "bound_inf": T_FLOAT, "bound_sup": T_FLOAT,
                    "best_window_size": T_FLOAT, "delta_empty": T_FLOAT, "alpha": T_FLOAT, "beta": T_FLOAT,
                    "magnitude": T_FLOAT}


class Program:
    """Whole-program driver: caches flows per (function, specialisation), iterates to a fixpoint."""

    def __init__(self, model: Model):
        self.model = model
        self.heap: Dict[Tuple[str, Tuple[str, ...]], Set[AV]] = {}
        self.heap_changed = False
        self._flows: Dict[Tuple[str, Tuple], Flow] = {}
        self._active: Set[Tuple[str, Tuple]] = set()
        self._lambdas: Dict[int, FuncInfo] = {}
        self._done = False

    def lambda_info(self, parent: FuncInfo, node: ast.Lambda) -> FuncInfo:
        k = id(node)
        if k not in self._lambdas:
            qn = f"{parent.qualname}.<locals>.<lambda@{node.lineno}:{node.col_offset}>"
            fi = FuncInfo(qn, "<lambda>", node, parent.module, parent.cls, parent)
            self._lambdas[k] = fi
            self.model.functions.setdefault(qn, fi)
        return self._lambdas[k]

    def flow(self, f: FuncInfo, consts: Tuple = ()) -> Optional[Flow]:
        k = (f.qualname, tuple(consts))
        fl = self._flows.get(k)
        if fl is not None:
            return fl
        if k in self._active:
            return None
        self._active.add(k)
        try:
            fl = Flow(self, f, tuple(consts))
            self._flows[k] = fl
            fl.run()
        finally:
            self._active.discard(k)
        return fl

    def solve(self) -> "Program":
        """analyse every function; iterate until summaries and heap are stable"""
        if self._done:
            return self
        for f in list(self.model.functions.values()):
            self.flow(f)
        for _ in range(8):
            self.heap_changed = False
            snap = {k: (len(fl.mutations), len(fl.returns), sum(len(v) for v in fl.stores.values()), len(fl.store_nodes))
                    for k, fl in self._flows.items()}
            for k, fl in list(self._flows.items()):
                fl.store_nodes = []
                fl._store_keys = set()
                fl.run()
            snap2 = {k: (len(fl.mutations), len(fl.returns), sum(len(v) for v in fl.stores.values()), len(fl.store_nodes))
                     for k, fl in self._flows.items()}
            if snap == snap2 and not self.heap_changed:
                break
        self._done = True
        return self

    # ---- queries ----------------------------------------------------------------------------
    def av_type(self, fl: Flow, av: AV) -> Optional[Ty]:
        M = self.model
        t: Optional[Ty] = None
        if av.path and av.path[-1] in IMMUTABLE_FIELDS:
            return IMMUTABLE_FIELDS[av.path[-1]]
        if av.kind == "param":
            t = fl.types.get(av.name)
        elif av.kind == "xparam":
            qn, _, pn = av.name.rpartition(":")
            of = self._flows.get((qn, ()))
            if of is None:
                of = next((x for (q, _c), x in self._flows.items() if q == qn), None)
            t = of.types.get(pn) if of is not None else None
        elif av.kind == "fresh":
            tag = av.name.rsplit(":", 1)[-1].split("@")[0]
            if tag in M.classes:
                t = Ty(tag)
            elif tag in ("list", "set", "SortedSet", "SortedDict", "dict", "ndarray", "tuple"):
                t = Ty(tag)
            elif tag == "deepcopy":
                return None
        for p in av.path:
            if t is None:
                return None
            if p == "[]":
                t = t.value() or t.elem()
            else:
                if t.name in M.classes or t.name in ("Unit", "Segment"):
                    t = M.field_type(t.name, p)
                else:
                    return None
        return t

    def flows_of(self, f: FuncInfo) -> List[Flow]:
        return [fl for (qn, _), fl in self._flows.items() if qn == f.qualname]

    def callgraph(self) -> Dict[str, Set[str]]:
        g: Dict[str, Set[str]] = {}
        for (qn, _), fl in self._flows.items():
            s = g.setdefault(qn, set())
            for cs in fl.calls:
                for t in cs.targets:
                    s.add(t.qualname)
            for n in fl.f.nested:
                s.add(n.qualname)
        return g

    def reachable(self, roots: Iterable[str]) -> Dict[str, Tuple[str, ...]]:
        """qualname -> one call path from a root"""
        g = self.callgraph()
        seen: Dict[str, Tuple[str, ...]] = {}
        work = [(r, (r,)) for r in roots]
        while work:
            n, path = work.pop(0)
            if n in seen:
                continue
            seen[n] = path
            for s in sorted(g.get(n, ())):
                if s not in seen:
                    work.append((s, path + (s,)))
        return seen

    def all_calls(self, f: Optional[FuncInfo] = None) -> List[CallSite]:
        out = []
        seen = set()
        for (qn, consts), fl in self._flows.items():
            if f is not None and qn != f.qualname:
                continue
            for cs in fl.calls:
                k = (id(cs.node), tuple(t.qualname for t in cs.targets), cs.external, cs.implicit)
                if k in seen:
                    continue
                seen.add(k)
                out.append(cs)
        return out
