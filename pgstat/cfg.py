"""Statement-level control-flow graph with dominators (DESIGN 3.2).

Nodes are simple statements and the headers (test / iter / items) of compound statements.
Exceptional flow: explicit `raise`, and from every statement of a `try` body to each handler.
Calls are assumed to return normally elsewhere (documented approximation).
"""
from __future__ import annotations

import ast
from typing import Dict, Iterable, List, Optional, Set, Tuple

ENTRY, EXIT, RAISE = 0, 1, 2


class CFG:
    def __init__(self, fnode: ast.AST):
        self.fnode = fnode
        self.stmts: List[Optional[ast.AST]] = [None, None, None]    # node id -> ast statement (header stmt)
        self.kind: List[str] = ["entry", "exit", "raise"]
        self.succ: Dict[int, Set[int]] = {0: set(), 1: set(), 2: set()}
        self.pred: Dict[int, Set[int]] = {0: set(), 1: set(), 2: set()}
        self._ids: Dict[int, int] = {}
        self.loop_of: Dict[int, int] = {}
        body = fnode.body if not isinstance(fnode, ast.Lambda) else [ast.Return(value=fnode.body)]
        ends = self._seq(body, {ENTRY}, None, None, [])
        for e in ends:
            self._edge(e, EXIT)
        self._dom = None
        self._pdom = None

    # ---- construction -----------------------------------------------------------------------
    def _new(self, stmt: ast.AST, kind: str = "stmt") -> int:
        i = len(self.stmts)
        self.stmts.append(stmt)
        self.kind.append(kind)
        self.succ[i] = set()
        self.pred[i] = set()
        self._ids.setdefault(id(stmt), i)
        return i

    def _edge(self, a: int, b: int):
        self.succ[a].add(b)
        self.pred[b].add(a)

    def _seq(self, stmts, preds: Set[int], brk, cont, handlers) -> Set[int]:
        cur = set(preds)
        for s in stmts:
            cur = self._stmt(s, cur, brk, cont, handlers)
        return cur

    def _stmt(self, s, preds: Set[int], brk, cont, handlers) -> Set[int]:
        """returns the set of nodes from which control continues after s"""
        if isinstance(s, (ast.FunctionDef, ast.AsyncFunctionDef, ast.ClassDef)):
            n = self._new(s, "def")
            for p in preds:
                self._edge(p, n)
            return {n}
        if isinstance(s, ast.If):
            n = self._new(s, "test")
            for p in preds:
                self._edge(p, n)
            self._exc(n, handlers)
            a = self._seq(s.body, {n}, brk, cont, handlers)
            b = self._seq(s.orelse, {n}, brk, cont, handlers) if s.orelse else {n}
            return a | b
        if isinstance(s, (ast.While, ast.For, ast.AsyncFor)):
            n = self._new(s, "loop")
            for p in preds:
                self._edge(p, n)
            self._exc(n, handlers)
            breaks: Set[int] = set()
            body_end = self._seq(s.body, {n}, breaks, n, handlers)
            for e in body_end:
                self._edge(e, n)
            infinite = isinstance(s, ast.While) and isinstance(s.test, ast.Constant) and s.test.value is True
            out = set() if infinite else (self._seq(s.orelse, {n}, brk, cont, handlers) if s.orelse else {n})
            return out | breaks
        if isinstance(s, (ast.With, ast.AsyncWith)):
            n = self._new(s, "with")
            for p in preds:
                self._edge(p, n)
            self._exc(n, handlers)
            return self._seq(s.body, {n}, brk, cont, handlers)
        if isinstance(s, ast.Try):
            n = self._new(s, "try")
            for p in preds:
                self._edge(p, n)
            hnodes = []
            for h in s.handlers:
                hn = self._new(h, "except")
                hnodes.append(hn)
            inner = handlers + [hnodes]
            # the try node itself may transfer to a handler (first statement raising)
            body_end = self._seq(s.body, {n}, brk, cont, inner)
            for hn in hnodes:
                self._edge(n, hn)
            else_end = self._seq(s.orelse, body_end, brk, cont, handlers) if s.orelse else body_end
            outs = set(else_end)
            for h, hn in zip(s.handlers, hnodes):
                outs |= self._seq(h.body, {hn}, brk, cont, handlers)
            if s.finalbody:
                outs = self._seq(s.finalbody, outs, brk, cont, handlers)
            return outs
        n = self._new(s, "stmt")
        for p in preds:
            self._edge(p, n)
        if isinstance(s, ast.Return):
            self._edge(n, EXIT)
            self._exc(n, handlers)
            return set()
        if isinstance(s, ast.Raise):
            if handlers and handlers[-1]:
                for hn in handlers[-1]:
                    self._edge(n, hn)
            else:
                self._edge(n, RAISE)
            return set()
        if isinstance(s, ast.Break):
            if brk is not None:
                brk.add(n)
            return set()
        if isinstance(s, ast.Continue):
            if cont is not None:
                self._edge(n, cont)
            return set()
        self._exc(n, handlers)
        if isinstance(s, ast.Assert):
            if not (handlers and handlers[-1]):
                self._edge(n, RAISE)
        return {n}

    def _exc(self, n: int, handlers):
        if handlers and handlers[-1]:
            for hn in handlers[-1]:
                self._edge(n, hn)

    # ---- queries ----------------------------------------------------------------------------
    def node_of(self, stmt: ast.AST) -> Optional[int]:
        return self._ids.get(id(stmt))

    def node_containing(self, expr: ast.AST) -> Optional[int]:
        """CFG node of the statement (header) that evaluates `expr`"""
        if id(expr) in self._ids:
            return self._ids[id(expr)]
        if not hasattr(self, "_owner"):
            self._owner: Dict[int, int] = {}
            for i, s in enumerate(self.stmts):
                if s is None:
                    continue
                for part in self._header_parts(s):
                    for sub in ast.walk(part):
                        self._owner.setdefault(id(sub), i)
        return self._owner.get(id(expr))

    @staticmethod
    def _header_parts(s) -> List[ast.AST]:
        if isinstance(s, ast.If) or isinstance(s, ast.While):
            return [s.test]
        if isinstance(s, (ast.For, ast.AsyncFor)):
            return [s.iter, s.target]
        if isinstance(s, (ast.With, ast.AsyncWith)):
            return [x for it in s.items for x in ([it.context_expr] + ([it.optional_vars] if it.optional_vars else []))]
        if isinstance(s, ast.Try):
            return []
        if isinstance(s, ast.ExceptHandler):
            return [s.type] if s.type is not None else []
        if isinstance(s, (ast.FunctionDef, ast.AsyncFunctionDef, ast.ClassDef)):
            return list(s.decorator_list)
        return [s]

    def _dominators(self, succ, pred, root) -> Dict[int, Set[int]]:
        nodes = [i for i in range(len(self.stmts))]
        reach = set()
        work = [root]
        while work:
            x = work.pop()
            if x in reach:
                continue
            reach.add(x)
            work.extend(succ[x])
        dom = {n: set(reach) for n in reach}
        dom[root] = {root}
        changed = True
        order = sorted(reach)
        while changed:
            changed = False
            for n in order:
                if n == root:
                    continue
                ps = [dom[p] for p in pred[n] if p in reach]
                new = set.intersection(*ps) if ps else set()
                new = new | {n}
                if new != dom[n]:
                    dom[n] = new
                    changed = True
        return dom

    def dominates(self, a: int, b: int) -> bool:
        """every path ENTRY -> b passes through a"""
        if self._dom is None:
            self._dom = self._dominators(self.succ, self.pred, ENTRY)
        return b in self._dom and a in self._dom[b]

    def reachable(self, src: int, avoid: Iterable[int] = ()) -> Set[int]:
        avoid = set(avoid)
        seen = set()
        work = [src]
        while work:
            x = work.pop()
            if x in seen or x in avoid:
                continue
            seen.add(x)
            work.extend(self.succ[x])
        return seen

    def must_pass(self, target: int, through: Iterable[int], src: int = ENTRY) -> bool:
        """every path src -> target contains a node of `through` (target itself excluded)"""
        through = set(through) - {target}
        if src in through:
            return True
        return target not in self.reachable(src, avoid=through)

    def exits_after(self, n: int, avoid: Iterable[int] = ()) -> Set[int]:
        r = self.reachable(n, avoid)
        return {x for x in (EXIT, RAISE) if x in r}

    def in_loop_body(self, loop_stmt: ast.AST, n: int) -> bool:
        ln = self.node_of(loop_stmt)
        if ln is None:
            return False
        ids = set()
        for b in loop_stmt.body:
            for sub in ast.walk(b):
                if id(sub) in self._ids:
                    ids.add(self._ids[id(sub)])
        return n in ids

    def every_iteration_passes(self, loop_stmt: ast.AST, through: Iterable[int]) -> bool:
        """every path from the loop head through the body back to the head contains a node of `through`"""
        ln = self.node_of(loop_stmt)
        through = set(through)
        body_first = set()
        for s in self.succ[ln]:
            if self.in_loop_body(loop_stmt, s):
                body_first.add(s)
        # search inside the body only, avoiding `through`; reaching ln again means a cycle without `through`
        seen = set()
        work = list(body_first)
        while work:
            x = work.pop()
            if x in seen or x in through:
                continue
            if x == ln:
                return False
            seen.add(x)
            for y in self.succ[x]:
                if y == ln or self.in_loop_body(loop_stmt, y):
                    work.append(y)
        return True


def stmt_of(fnode: ast.AST, target: ast.AST) -> Optional[ast.stmt]:
    """innermost statement of fnode that contains `target`"""
    best = None
    for n in ast.walk(fnode):
        if isinstance(n, ast.stmt):
            for sub in ast.walk(n):
                if sub is target:
                    if best is None or _size(n) < _size(best):
                        best = n
                    break
    return best


def _size(n: ast.AST) -> int:
    return sum(1 for _ in ast.walk(n))
