"""C20 - command-line results equal the API results for the same options (DESIGN 4/C20): table agreement."""
from __future__ import annotations

import ast
from typing import Dict, List, Optional, Set, Tuple

from ..cfg import CFG
from ..core import Ctx
from ..model import dotted, kwarg, norm, walk_no_nested
from .common import assigned_value, conditions_at, enclosing, expand_locals, resolve_local

CMD = "pygamma_cmd"
# option dest -> (callee suffix, keyword) the value must reach
SINKS = {
    "alpha": ("CombinedCategoricalDissimilarity", "alpha"),
    "beta": ("CombinedCategoricalDissimilarity", "beta"),
    "empty_delta": ("CombinedCategoricalDissimilarity", "delta_empty"),
    "precision_level": ("compute_gamma", "precision_level"),
    "n_samples": ("compute_gamma", "n_samples"),
}
CHOICE_CLASS = {"levenshtein": "LevenshteinCategoricalDissimilarity", "numerical": "NumericalCategoricalDissimilarity"}
PLAIN = ("float", "int", "str", "bool")


def option_table(ctx: Ctx) -> Dict[str, dict]:
    mod = ctx.model.modules.get("pygamma_agreement.cli_apps")
    ctx.require(mod is not None, "R-C20-1", "module cli_apps not found")
    opts: Dict[str, dict] = {}
    for n in ast.walk(mod.tree):
        if isinstance(n, ast.Call) and isinstance(n.func, ast.Attribute) and n.func.attr == "add_argument":
            flags = [a.value for a in n.args if isinstance(a, ast.Constant) and isinstance(a.value, str)]
            dest = kwarg(n, "dest")
            if dest is not None and isinstance(dest, ast.Constant):
                d = dest.value
            else:
                longs = [f for f in flags if f.startswith("--")]
                d = (longs[0][2:] if longs else flags[0].lstrip("-")).replace("-", "_")
            ch = kwarg(n, "choices")
            choices = None
            if isinstance(ch, (ast.Set, ast.List, ast.Tuple)):
                choices = [e.value for e in ch.elts if isinstance(e, ast.Constant)]
            dflt = kwarg(n, "default")
            act = kwarg(n, "action")
            opts[d] = {"node": n, "flags": flags, "choices": choices,
                       "default": dflt.value if isinstance(dflt, ast.Constant) else None,
                       "action": act.value if isinstance(act, ast.Constant) else None}
    return opts


def run(ctx: Ctx):
    ctx.clauses += [
        "R-C20-1 every declared option is read by pygamma_cmd and every args.<x> read is a declared option",
        "R-C20-2 choices <-> branches: literals compared with an option having `choices` are choices, at most the default is left to the implicit branch, each choice selects its own dissimilarity class",
        "R-C20-3 option -> sink table: alpha/beta/empty-delta reach the combined dissimilarity's keywords, precision/n-samples/sampler/dissimilarity reach compute_gamma, separator reaches from_csv and the csv writer, seed reaches np.random.seed on every path before any compute_gamma",
        "R-C20-4 numeric sinks: every value stored for the csv / json writers is a plain Python number (float(...)), so json.dump and csv cells receive no numpy scalar",
        "R-C20-5 the three output modes report the same accessors (gamma, gamma_cat, gamma_k per category) under the same flags",
    ]
    ctx.not_decided += ["numerical equality of the printed text and the API value (float32 repr vs float64 expansion)", "argparse's own parsing"]
    ctx.assumptions += ["argparse derives dest from the first long option", "GammaResults accessors may return numpy float32 scalars"]
    M = ctx.model
    f = ctx.fn(CMD, "R-C20-1")
    opts = option_table(ctx)
    ctx.require(len(opts) >= 12, "R-C20-1", f"only {len(opts)} options parsed")
    ctx.notes["options"] = sorted(opts)
    argsvar = None
    for s in f.node.body:
        if isinstance(s, ast.Assign) and isinstance(s.value, ast.Call) and norm(s.value.func).endswith(".parse_args"):
            argsvar = norm(s.targets[0])
    ctx.require(argsvar, "R-C20-1", "args = argparser.parse_args() not found")
    reads: Dict[str, List[ast.Attribute]] = {}
    for n in walk_no_nested(f.node):
        if isinstance(n, ast.Attribute) and isinstance(n.value, ast.Name) and n.value.id == argsvar:
            reads.setdefault(n.attr, []).append(n)
    for d, o in sorted(opts.items()):
        ctx.check(d in reads, "R-C20-1", f, o["node"], f"option {o['flags']} (dest {d}) is read by the command",
                  bad_detail=f"option {o['flags']} is accepted by the parser but never read: it has no effect", construct=f"option {d}", key=f"read:{d}")
    for d, ns in sorted(reads.items()):
        ctx.check(d in opts, "R-C20-1", f, ns[0], f"args.{d} is a declared option",
                  bad_detail=f"args.{d} is read but no option declares it (AttributeError at run time)", key=f"declared:{d}")

    # ---------------- R-C20-2
    n_choice = 0
    for d, o in sorted(opts.items()):
        if not o["choices"]:
            continue
        n_choice += 1
        compared: Dict[str, ast.AST] = {}
        for n in walk_no_nested(f.node):
            if isinstance(n, ast.Compare) and len(n.ops) == 1 and isinstance(n.ops[0], (ast.Eq, ast.NotEq)):
                l, r = n.left, n.comparators[0]
                for a, b in ((l, r), (r, l)):
                    if norm(a) == f"{argsvar}.{d}" and isinstance(b, ast.Constant) and isinstance(b.value, str):
                        compared[b.value] = n
        for lit, node in sorted(compared.items()):
            ctx.check(lit in o["choices"], "R-C20-2", f, node, f"'{lit}' is a choice of {o['flags'][-1]}",
                      bad_detail=f"the command tests {o['flags'][-1]} against '{lit}', which the parser never yields (choices: {sorted(o['choices'])}): dead branch",
                      key=f"literal:{d}:{lit}")
        missing = sorted(set(o["choices"]) - set(compared))
        ctx.check(len(missing) <= 1 and (not missing or missing[0] == o["default"] or len(o["choices"]) == 2), "R-C20-2", f, o["node"],
                  f"every choice of {o['flags'][-1]} is handled (implicit branch: {missing or 'none'})",
                  bad_detail=f"choices {missing} of {o['flags'][-1]} are accepted by the parser but never tested: they silently behave like the default",
                  construct=f"choices of {d}", key=f"handled:{d}")
        if d == "cat_dissim":
            for lit, want in sorted(CHOICE_CLASS.items()):
                if lit not in compared:
                    continue
                built = [s for s in walk_no_nested(f.node) if isinstance(s, ast.Assign) and isinstance(s.value, ast.Call) and dotted(s.value.func) == want]
                # the class is built exactly when the option equals its choice (either spelling / branch order of the test)
                def _selected(st):
                    for t, pol in conditions_at(f.node, st):
                        if isinstance(t, ast.Compare) and len(t.ops) == 1 and isinstance(t.ops[0], (ast.Eq, ast.NotEq)):
                            l, r = t.left, t.comparators[0]
                            for a, b in ((l, r), (r, l)):
                                if norm(a) == f"{argsvar}.{d}" and isinstance(b, ast.Constant) and b.value == lit and isinstance(t.ops[0], ast.Eq if pol else ast.NotEq):
                                    return True
                    return False
                others = [s for s in walk_no_nested(f.node) if isinstance(s, ast.Assign) and isinstance(s.value, ast.Call) and dotted(s.value.func) in CHOICE_CLASS.values()
                          and dotted(s.value.func) != want and _selected(s)]
                ctx.check(len(built) >= 1 and all(_selected(s) for s in built) and not others, "R-C20-2", f, built[0] if built else compared[lit], f"'{lit}' selects {want}",
                          bad_detail=f"{want} is not built exactly when {o['flags'][-1]} == '{lit}' (built under another condition, or another class is built for that choice)",
                          key=f"class:{lit}")
    ctx.require(n_choice >= 1, "R-C20-2", "no option with choices found")

    # ---------------- R-C20-3
    calls = [c for c in walk_no_nested(f.node) if isinstance(c, ast.Call)]
    for d, (callee, kw) in sorted(SINKS.items()):
        hit = [c for c in calls if norm(c.func).endswith(callee) and kwarg(c, kw) is not None]
        ok = bool(hit) and norm(resolve_local(f.node, kwarg(hit[0], kw))) == f"{argsvar}.{d}"
        ctx.check(ok, "R-C20-3", f, hit[0] if hit else opts.get(d, {}).get("node"),
                  f"{opts[d]['flags'][-1] if d in opts else d} reaches {callee}({kw}=...)",
                  bad_detail=f"option {d} does not reach {callee}'s `{kw}` parameter", construct=f"{d} -> {callee}.{kw}", key=f"sink:{d}")
    cg = [c for c in calls if norm(c.func).endswith(".compute_gamma")]
    ctx.require(cg, "R-C20-3", "compute_gamma call not found")
    comb = [c for c in calls if norm(c.func).endswith("CombinedCategoricalDissimilarity")]
    # dissimilarity object and cat_dissim plumbing
    dv = kwarg(cg[0], "dissimilarity") or (cg[0].args[0] if cg[0].args else None)
    dd = resolve_local(f.node, dv) if dv is not None else None
    ctx.check(dd is not None and comb and dd is comb[0], "R-C20-3", f, cg[0], "the dissimilarity built from the options is the one passed to compute_gamma",
              bad_detail="compute_gamma does not receive the dissimilarity built from the options", key="sink:dissimilarity")
    if comb:
        cdv = kwarg(comb[0], "cat_dissim")
        cname = norm(cdv) if cdv is not None else None
        defs = assigned_value(f.node, cname) if cname else []
        ctx.check(cdv is not None and any(isinstance(v, ast.Call) for v in defs), "R-C20-3", f, comb[0],
                  "the categorical dissimilarity selected by -d reaches cat_dissim=", bad_detail="the selected categorical dissimilarity is not passed on",
                  key="sink:cat_dissim")
        for v in defs:
            if isinstance(v, ast.Call):
                ctx.check(len(v.args) == 1 and norm(expand_locals(f.node, v.args[0])).endswith(".categories"), "R-C20-3", f, v,
                          "the categorical dissimilarity is built over the input continuum's categories",
                          bad_detail=f"`{norm(v)}` is not built over the categories of the continuum being measured: the API result for that file "
                                     f"(dissimilarity over ITS categories) differs, e.g. the numerical dissimilarity normalises by the label range of whatever set it is given",
                          key=f"cats:{dotted(v.func)}")
    sv = kwarg(cg[0], "sampler")
    sdefs = assigned_value(f.node, norm(sv)) if sv is not None else []
    s_ok = False
    for v in sdefs:
        if isinstance(v, ast.Call) and dotted(v.func) == "ShuffleContinuumSampler":
            ifs = enclosing(f.node, v, (ast.If,))
            s_ok = bool(ifs) and norm(ifs[-1].test) == f"{argsvar}.mathet_sampler"
    ctx.check(s_ok, "R-C20-3", f, cg[0], "-m selects the shuffle sampler, passed as sampler=", bad_detail="-m does not select/passs the shuffle sampler",
              key="sink:sampler")
    # continuum loaded from the file with the separator; compute_gamma called on it
    recv = norm(cg[0].func.value)
    loads = [v for v in assigned_value(f.node, recv) if isinstance(v, ast.Call)]
    fc = [v for v in loads if norm(v.func).endswith("from_csv")]
    fr = [v for v in loads if norm(v.func).endswith("from_rttm")]
    ok_sep = bool(fc) and kwarg(fc[0], "delimiter") is not None and norm(kwarg(fc[0], "delimiter")) == f"{argsvar}.separator"
    ctx.check(ok_sep, "R-C20-3", f, fc[0] if fc else None, "-s reaches Continuum.from_csv(delimiter=)", bad_detail="-s does not reach the csv reader", key="sink:separator-in")
    fmt_ok = bool(fc) and bool(fr)
    if fmt_ok:
        i1 = enclosing(f.node, fc[0], (ast.If,))
        fmt_ok = bool(i1) and norm(i1[-1].test) == f"{argsvar}.format == 'csv'" and any(fr[0] is x for b in i1[-1].orelse for x in ast.walk(b))
    ctx.check(fmt_ok, "R-C20-3", f, fc[0] if fc else None, "-f selects the csv or the rttm reader", key="sink:format")
    wr = [c for c in calls if norm(c.func) == "csv.writer"]
    ctx.check(bool(wr) and kwarg(wr[0], "delimiter") is not None and norm(kwarg(wr[0], "delimiter")) == f"{argsvar}.separator", "R-C20-3", f,
              wr[0] if wr else None, "-s reaches the csv report writer", bad_detail="-s does not reach the csv report writer", key="sink:separator-out")
    # seed dominates compute_gamma
    cfg = CFG(f.node)
    seeds = [c for c in calls if norm(c.func) in ("np.random.seed", "numpy.random.seed")]
    ok_seed = False
    if seeds:
        sc = seeds[0]
        ifs = enclosing(f.node, sc, (ast.If,))
        guard_ok = len(ifs) == 1 and norm(ifs[0].test) == f"{argsvar}.seed is not None" and norm(sc.args[0]) == f"{argsvar}.seed"
        gnode = cfg.node_of(ifs[0]) if ifs else None
        ok_seed = guard_ok and gnode is not None and all(cfg.dominates(gnode, cfg.node_containing(c)) for c in cg) and \
            not enclosing(f.node, sc, (ast.For, ast.While))
    ctx.check(ok_seed, "R-C20-3", f, seeds[0] if seeds else None, "--seed seeds numpy's RNG once, before every gamma computation",
              bad_detail="--seed is not applied (np.random.seed(args.seed)) on every path before compute_gamma, or is re-applied per file", key="sink:seed")

    # ---------------- R-C20-4 / R-C20-5 outputs
    def plain(e: ast.AST) -> bool:
        if isinstance(e, ast.Name) and e.id != "file_path":
            e = resolve_local(f.node, e)
        if isinstance(e, ast.Constant):
            return True
        if isinstance(e, ast.Call) and dotted(e.func) in PLAIN and len(e.args) == 1:
            return True
        if isinstance(e, ast.DictComp):
            return plain(e.value) and (isinstance(e.key, ast.Name) or plain(e.key))
        if isinstance(e, ast.Name) and e.id == "file_path":
            return True
        return False
    gres = norm(assigned_value(f.node, "gamma")[0]) if assigned_value(f.node, "gamma") else None
    gvar = None
    for n in walk_no_nested(f.node):
        if isinstance(n, ast.Assign) and n.value is cg[0]:
            gvar = norm(n.targets[0])
    ctx.require(gvar, "R-C20-5", "result of compute_gamma is not bound to a local")
    rl = None
    for c in calls:
        if isinstance(c.func, ast.Attribute) and c.func.attr == "append" and c.args and \
                gvar in {x.id for x in ast.walk(resolve_local(f.node, c.args[0]) if isinstance(c.args[0], ast.Name) else c.args[0]) if isinstance(x, ast.Name)}:
            rl = norm(c.func.value)
    ctx.require(rl, "R-C20-4", "list collecting the values for the file writers not found")
    file_acc: Set[Tuple[str, str]] = set()
    for c in calls:
        if isinstance(c.func, ast.Attribute) and c.func.attr == "append" and norm(c.func.value) == rl and c.args:
            v = c.args[0]
            v = resolve_local(f.node, v) if isinstance(v, ast.Name) else v
            uses_g = gvar in {x.id for x in ast.walk(v) if isinstance(x, ast.Name)}
            if not uses_g:
                continue
            ctx.check(plain(v), "R-C20-4", f, c, "a plain Python number is stored for the csv / json writers",
                      bad_detail=f"`{norm(v)}` stores the accessor's value as it comes (numpy float32): json.dump raises TypeError and csv cells "
                                 f"holding containers show np.float32(...) reprs", key=f"plain:{_acc(v, gvar)}")
            flag = [norm(i.test) for i in enclosing(f.node, c, (ast.If,)) if norm(i.test).startswith(argsvar + ".")]
            file_acc.add((flag[-1] if flag else "-", _acc(v, gvar)))
    print_acc: Set[Tuple[str, str]] = set()
    for c in calls:
        if dotted(c.func) == "print" and c.args and gvar in {x.id for x in ast.walk(c.args[0]) if isinstance(x, ast.Name)}:
            flag = [norm(i.test) for i in enclosing(f.node, c, (ast.If,)) if norm(i.test).startswith(argsvar + ".")]
            print_acc.add((flag[-1] if flag else "-", _acc(c.args[0], gvar)))
    ctx.check(print_acc == file_acc and len(print_acc) >= 3, "R-C20-5", f, None,
              f"printed and file reports use the same accessors under the same flags: {sorted(print_acc)}",
              bad_detail=f"output modes differ: printed {sorted(print_acc)} vs csv/json {sorted(file_acc)}", construct="(output modes)", key="modes")
    # gamma-k over the continuum's own categories in both modes
    ks = [n for n in walk_no_nested(f.node) if isinstance(n, (ast.For, ast.DictComp)) and "gamma_k(" in norm(n)
          and not any(isinstance(x, (ast.For, ast.DictComp)) and x is not n and "gamma_k(" in norm(x) for x in ast.walk(n))]
    ok_k = len(ks) >= 2 and all(norm(n.iter if isinstance(n, ast.For) else n.generators[0].iter) == f"{recv}.categories" for n in ks)
    ctx.check(ok_k, "R-C20-5", f, ks[0] if ks else None, "gamma-k is reported for every category of the input continuum in all modes", key="gamma-k-domain")
    # writers
    dump = [c for c in calls if norm(c.func) == "json.dump"]
    rows = [c for c in calls if isinstance(c.func, ast.Attribute) and c.func.attr == "writerows"]
    ctx.check(bool(dump) and bool(rows), "R-C20-5", f, dump[0] if dump else None, "csv and json writers present", key="writers")
    labels_ok = [n for n in walk_no_nested(f.node) if isinstance(n, ast.Assign) and isinstance(n.value, ast.List) and
                 [getattr(e, "value", None) for e in n.value.elts] == ["filename", "gamma"]]
    ctx.check(bool(labels_ok), "R-C20-5", f, labels_ok[0] if labels_ok else None, "report columns start with filename, gamma (same order as the stored values)",
              key="labels")
    # the optional columns: a label is appended under exactly the flag under which its value is stored (else the json report pairs values with
    # the wrong names and the csv header does not match its rows)
    if labels_ok:
        lv = norm(labels_ok[0].targets[0])

        def _flag_of(node):
            fl = [(norm(t), pol) for t, pol in conditions_at(f.node, node) if norm(t) in (f"{argsvar}.gamma_cat", f"{argsvar}.gamma_k")]
            return fl
        lab_flags = {}
        for c in calls:
            if isinstance(c.func, ast.Attribute) and c.func.attr == "append" and norm(c.func.value) == lv and c.args and isinstance(c.args[0], ast.Constant):
                lab_flags[c.args[0].value] = (_flag_of(c), c)
        want_flags = {"gamma-cat": [(f"{argsvar}.gamma_cat", True)], "gamma-k": [(f"{argsvar}.gamma_k", True)]}
        for lab, wf in want_flags.items():
            got = lab_flags.get(lab)
            ctx.check(got is not None and got[0] == wf, "R-C20-5", f, got[1] if got else labels_ok[0], f"column '{lab}' is declared exactly when its value is stored ({wf[0][0]})",
                      bad_detail=f"column '{lab}' is declared under {got[0] if got else 'no flag at all'}, its value is stored under {wf}: header / json keys and values are misaligned",
                      key=f"label:{lab}")
    # the three modes are told apart by (output_csv is None, output_json is None): printing exactly when no file is requested, values stored
    # whenever one is (the two file options are mutually exclusive)
    def _mode_value(t, val):
        if isinstance(t, ast.BoolOp):
            vs = [_mode_value(x, val) for x in t.values]
            if any(v is None for v in vs):
                return None
            return all(vs) if isinstance(t.op, ast.And) else any(vs)
        if isinstance(t, ast.UnaryOp) and isinstance(t.op, ast.Not):
            v = _mode_value(t.operand, val)
            return None if v is None else not v
        if isinstance(t, ast.Compare) and len(t.ops) == 1 and isinstance(t.comparators[0], ast.Constant) and t.comparators[0].value is None:
            nm = norm(t.left)
            if nm in val and isinstance(t.ops[0], (ast.Is, ast.IsNot)):
                return val[nm] if isinstance(t.ops[0], ast.Is) else not val[nm]
        return None

    def _reached(node, val):
        for t, pol in conditions_at(f.node, node):
            if "output_csv" in norm(t) or "output_json" in norm(t):
                v = _mode_value(t, val)
                if v is None:
                    return None
                if v != pol:
                    return False
        return True
    CSV, JSN = f"{argsvar}.output_csv", f"{argsvar}.output_json"
    modes = {"print": {CSV: True, JSN: True}, "csv": {CSV: False, JSN: True}, "json": {CSV: True, JSN: False}}        # value: "is None"
    prints = [c for c in calls if dotted(c.func) == "print" and c.args and gvar in {x.id for x in ast.walk(c.args[0]) if isinstance(x, ast.Name)}]
    stores = [c for c in calls if isinstance(c.func, ast.Attribute) and c.func.attr == "append" and norm(c.func.value) == rl and c.args and
              gvar in {x.id for x in ast.walk(resolve_local(f.node, c.args[0]) if isinstance(c.args[0], ast.Name) else c.args[0]) if isinstance(x, ast.Name)}]
    if prints and stores:
        p_ok = [_reached(c, modes["print"]) for c in prints]
        s_ok = [(_reached(c, modes["csv"]), _reached(c, modes["json"])) for c in stores]
        if any(v is None for v in p_ok) or any(v is None for pair in s_ok for v in pair):
            ctx.undecided("R-C20-5", f, prints[0], "the test separating the printed report from the file reports is not a combination of `output_csv / output_json is None` (not a verdict)",
                          key="mode-guard")
        else:
            ctx.check(all(p_ok) and all(a and b for a, b in s_ok), "R-C20-5", f, prints[0],
                      "values are printed when no file is requested and stored for the writer whenever a csv or a json report is",
                      bad_detail="the mode test is wrong: with a report file requested the values are not stored for the writer (or nothing is printed when none is)",
                      key="mode-guard")


def _acc(e: ast.AST, gvar: str) -> str:
    for x in ast.walk(e):
        if isinstance(x, ast.Attribute) and isinstance(x.value, ast.Name) and x.value.id == gvar:
            return x.attr
    return "?"
