"""Extraction of the formulas of the dissimilarity classes (shared by C04, C09, C03, C12)."""
from __future__ import annotations

import ast
from typing import Dict, List, Optional, Tuple

from .. import algebra as A
from ..algebra import Extractor, Rat, Unsupported
from ..core import Ctx
from ..model import AnalysisError, ClassInfo, FuncInfo, Model, dotted, norm, walk_no_nested
from .common import expand_locals

# slot roles of the array form (layout checked against _build_arrays_* by rule R-LAYOUT)
SLOT_NAMES = {0: "S", 1: "E", 2: "D", 3: "C"}
ATTR_SLOTS = {"segment.start": "S", "segment.end": "E", "segment.duration": "D", "annotation": "C"}
FIELD_SYMBOL = {"delta_empty": "Δ", "alpha": "α", "beta": "β"}
A.POSITIVE.update({"Δ", "D1", "D2"})


def concrete_dissimilarities(M: Model) -> List[ClassInfo]:
    out = []
    for c in M.classes.values():
        if not M.is_subclass(c.name, "AbstractDissimilarity") or c.name == "AbstractDissimilarity":
            continue
        cd, d = M.find_method(c, "compile_d_mat"), M.find_method(c, "d")
        if cd is None or d is None or cd.abstract or d.abstract:
            continue
        out.append(c)
    return out


def _field_rat(name: str) -> Rat:
    return Rat.var(FIELD_SYMBOL.get(name, "self." + name))


class KernelForm:
    def __init__(self, cls: ClassInfo, fn: FuncInfo, form: Rat, ex: Extractor, kind: str):
        self.cls, self.fn, self.form, self.ex, self.kind = cls, fn, form, ex, kind
        self.casts = list(ex.casts)


class SharedKernel(Unsupported):
    """compile_d_mat parks a kernel whose closure holds one instance's state on the class: recognised shape, wrong slot"""


def _class_level_kernel(M: Model, c: ClassInfo, cd: FuncInfo):
    sn = cd.self_name

    def cls_attr(e) -> Optional[str]:
        if isinstance(e, ast.Attribute):
            b = norm(e.value)
            if (b in M.classes and M.is_subclass(c.name, b)) or b in (f"type({sn})", f"{sn}.__class__"):
                return e.attr
        return None
    from_self = {s.targets[0].id for s in walk_no_nested(cd.node) if isinstance(s, ast.Assign) and len(s.targets) == 1 and isinstance(s.targets[0], ast.Name)
                 and any(isinstance(n, ast.Name) and n.id == sn for n in ast.walk(s.value))}
    for s in walk_no_nested(cd.node):
        if not isinstance(s, ast.Assign) or not isinstance(s.value, ast.Name):
            continue
        attrs = [a for a in map(cls_attr, s.targets) if a]
        k = next((x for x in cd.nested if x.name == s.value.id), None)
        if not attrs or k is None:
            continue
        free = {n.id for n in ast.walk(k.node) if isinstance(n, ast.Name) and isinstance(n.ctx, ast.Load)} - set(k.params)
        held = sorted(free & from_self)
        reads = [r for r in walk_no_nested(cd.node) if isinstance(r, ast.Return) and r.value is not None and cls_attr(r.value) in attrs]
        if held and reads:
            raise SharedKernel(f"the kernel `{k.name}` closes over {', '.join(held)} (state of the instance that compiled it) and is stored on the class as "
                               f"`{attrs[0]}`, from where compile_d_mat hands it to every other instance: their own {', '.join(held)} never reaches their d_mat")


def extract_d_mat(M: Model, c: ClassInfo) -> KernelForm:
    """formula of the compiled kernel returned by compile_d_mat()"""
    cd = M.find_method(c, "compile_d_mat")
    sn = cd.self_name
    _class_level_kernel(M, c, cd)
    kernels = [n for n in cd.nested]
    rets = [n for n in walk_no_nested(cd.node) if isinstance(n, ast.Return) and n.value is not None]
    # special cases handed out before the general kernel: `if <captured field> == <number>: return <captured component kernel>` at the top level
    # of compile_d_mat.  Each is one more compiled form, valid under its condition; the caller compares it with d() under the same condition.
    special = []
    for s in cd.node.body:
        if isinstance(s, ast.If) and not s.orelse and len(s.body) == 1 and isinstance(s.body[0], ast.Return) and isinstance(s.body[0].value, ast.Name) and \
                isinstance(s.test, ast.Compare) and len(s.test.ops) == 1 and isinstance(s.test.ops[0], ast.Eq) and isinstance(s.test.left, ast.Name) and \
                isinstance(s.test.comparators[0], ast.Constant) and type(s.test.comparators[0].value) in (int, float):
            special.append((s, s.test.left.id, s.test.comparators[0].value, s.body[0].value.id))
            rets = [r for r in rets if r is not s.body[0]]
    if len(rets) != 1 or not isinstance(rets[0].value, ast.Name):
        raise Unsupported("compile_d_mat does not return a single local kernel")
    k = next((x for x in kernels if x.name == rets[0].value.id), None)
    if k is None:
        raise Unsupported("returned kernel is not a nested function")
    if not k.is_njit:
        raise Unsupported("kernel is not compiled with the dissimilarity signature")
    env: Dict[str, object] = {}
    comps: Dict[str, str] = {}
    derived: Dict[str, str] = {}
    # closure captures: straight-line assignments before the nested def
    for s in cd.node.body:
        if isinstance(s, ast.Assign) and len(s.targets) == 1 and isinstance(s.targets[0], ast.Name):
            v = s.value
            nm = s.targets[0].id
            if isinstance(v, ast.Attribute) and isinstance(v.value, ast.Name) and v.value.id == sn:
                if v.attr == "_matrix":
                    comps[nm] = "M"
                elif v.attr in FIELD_SYMBOL:
                    env[nm] = _field_rat(v.attr)
                else:
                    # another field: a scalar symbol unless the kernel subscripts it - then it is a table whose definition in the
                    # constructor says what it holds (e.g. the matrix pre-scaled by the delta_empty the constructor was given)
                    env[nm] = _field_rat(v.attr)
                    derived[nm] = v.attr
            elif isinstance(v, ast.Attribute) and v.attr == "d_mat" and isinstance(v.value, ast.Attribute) \
                    and isinstance(v.value.value, ast.Name) and v.value.value.id == sn:
                comps[nm] = v.value.attr            # component kernel: pos = self.positional_dissim.d_mat
            elif isinstance(v, ast.Call) and dotted(v.func) in ("np.float32", "float") and len(v.args) == 1 and \
                    isinstance(v.args[0], ast.Attribute) and norm(v.args[0].value) == sn:
                env[nm] = _field_rat(v.args[0].attr)
            elif isinstance(v, ast.Call) and dotted(v.func) in ("np.float32", "float") and len(v.args) == 1 and isinstance(v.args[0], ast.Constant):
                env[nm] = Rat.const(__import__("fractions").Fraction(str(v.args[0].value)))
            else:
                raise Unsupported(f"capture `{norm(s)}` not understood")
    ps = k.params
    if len(ps) != 2:
        raise Unsupported("kernel must take two units")

    def sub(ex: Extractor, e: ast.Subscript):
        # unitK[i]
        if isinstance(e.value, ast.Name) and e.value.id in ps and isinstance(e.slice, ast.Constant) and e.slice.value in SLOT_NAMES:
            return Rat.var(f"{SLOT_NAMES[e.slice.value]}{ps.index(e.value.id) + 1}")
        # matrix[i, j]
        if isinstance(e.value, ast.Name) and comps.get(e.value.id) == "M" and isinstance(e.slice, ast.Tuple) and len(e.slice.elts) == 2:
            return A.mk_app("M", [ex.ev(x) for x in e.slice.elts], symmetric=True)
        # derived_table[i, j]  with  self.derived_table = <expression over the constructor's matrix and delta_empty>
        if isinstance(e.value, ast.Name) and e.value.id in derived and isinstance(e.slice, ast.Tuple) and len(e.slice.elts) == 2:
            scale = _derived_table_scale(M, c, derived[e.value.id])
            if scale is not None:
                return A.mk_app("M", [ex.ev(x) for x in e.slice.elts], symmetric=True) * scale
        return None

    def call(ex: Extractor, e: ast.Call):
        if isinstance(e.func, ast.Name) and e.func.id in comps and comps[e.func.id] != "M":
            args = [norm(a) for a in e.args]
            if sorted(args) != sorted(ps):
                raise Unsupported("component kernel not applied to the two units")
            return A.mk_app(comps[e.func.id], [Rat.var("u1"), Rat.var("u2")], symmetric=True)
        return None
    ex = Extractor(env, subscript=sub, call=call)
    form = A.single_return_expr(k.node, ex)
    kf = KernelForm(c, k, form, ex, "d_mat")
    kf.special = []
    for s_, fld_local, const, comp_local in special:
        fld = env.get(fld_local)
        if not isinstance(fld, Rat) or comps.get(comp_local) in (None, "M"):
            raise Unsupported(f"special case `{norm(s_.test)}` of compile_d_mat not understood")
        sym = next(iter(fld.atoms()), None)
        kf.special.append((s_, norm(s_.test), fld, const, A.mk_app(comps[comp_local], [Rat.var("u1"), Rat.var("u2")], symmetric=True)))
    return kf


def delta_reassigned_after_construction(M: Model) -> bool:
    """does any function other than a constructor writing its own object store `.delta_empty` of a dissimilarity?  (then the value a
    constructor saw and the value read later are different quantities)"""
    for f in M.functions.values():
        if isinstance(f.node, ast.Lambda):
            continue
        for n in walk_no_nested(f.node):
            if isinstance(n, ast.Attribute) and n.attr == "delta_empty" and isinstance(n.ctx, ast.Store):
                own = f.name == "__init__" and isinstance(n.value, ast.Name) and n.value.id == f.self_name
                if not own:
                    return True
    return False


def _derived_table_scale(M: Model, c: ClassInfo, field: str):
    """for `self.<field> = matrix * g(delta_empty)` in a constructor of the class: the factor g as a Rat, over the symbol of the delta_empty the
    CONSTRUCTOR received (distinct from the current self.delta_empty when that attribute is reassigned elsewhere in the package)"""
    for k in M.mro(c):
        init = k.methods.get("__init__")
        if init is None:
            continue
        defs = [s for s in walk_no_nested(init.node) if isinstance(s, ast.Assign) and len(s.targets) == 1 and norm(s.targets[0]) == f"{init.self_name}.{field}"]
        if len(defs) != 1:
            continue
        delta_ctor = Rat.var("Δ₀") if delta_reassigned_after_construction(M) else Rat.var("Δ")
        env = {"matrix": Rat.var("@M"), "delta_empty": delta_ctor}
        value = defs[0].value
        while True:       # value-preserving array wrappers (layout / dtype / copy): the cells are the cells of the argument
            if isinstance(value, ast.Call) and dotted(value.func) in ("np.ascontiguousarray", "np.asarray", "np.array", "np.copy", "numpy.ascontiguousarray", "numpy.asarray",
                                                                      "numpy.array", "numpy.copy", "np.asfortranarray") and len(value.args) == 1 and \
                    all(k.arg in ("dtype", "order", "copy") for k in value.keywords):
                value = value.args[0]
            elif isinstance(value, ast.Call) and isinstance(value.func, ast.Attribute) and value.func.attr in ("astype", "copy") and len(value.args) <= 1 and \
                    not value.keywords and isinstance(value.func.value, (ast.BinOp, ast.Name, ast.Attribute, ast.Call)):
                value = value.func.value
            else:
                break
        defs = [ast.Assign(targets=defs[0].targets, value=value)]
        try:
            r = Extractor(env, attribute=lambda ex, e: (Rat.var("@M") if norm(e) == f"{init.self_name}._matrix" else
                                                          (delta_ctor if norm(e) == f"{init.self_name}.delta_empty" else None))).ev(defs[0].value)
        except Unsupported:
            return None
        # r must be  @M * factor
        one = A.subst(r, lambda nm: Rat.const(1) if nm == "@M" else None)
        zero = A.subst(r, lambda nm: Rat.const(0) if nm == "@M" else None)
        if zero.is_zero() and r == Rat.var("@M") * one:
            return one
        return None
    return None


def extract_d(M: Model, c: ClassInfo) -> KernelForm:
    d = M.find_method(c, "d")
    sn = d.self_name
    ps = d.params[1:]
    if len(ps) != 2:
        raise Unsupported("d must take two units")

    def attr(ex: Extractor, e: ast.Attribute):
        t = norm(expand_locals(d.node, e))
        for i, p in enumerate(ps):
            for path, slot in ATTR_SLOTS.items():
                if t == f"{p}.{path}":
                    return Rat.var(f"{slot}{i + 1}")
        if isinstance(e.value, ast.Name) and e.value.id == sn:
            return _field_rat(e.attr)
        return None

    def sub(ex: Extractor, e: ast.Subscript):
        if norm(e.value) == f"{sn}._matrix" and isinstance(e.slice, ast.Tuple) and len(e.slice.elts) == 2:
            return A.mk_app("M", [ex.ev(x) for x in e.slice.elts], symmetric=True)
        return None

    def call(ex: Extractor, e: ast.Call):
        f = e.func
        # self.categories.index(x)  ->  x   (index <-> name is injective over the category set)
        if isinstance(f, ast.Attribute) and f.attr == "index" and norm(f.value) == f"{sn}.categories" and len(e.args) == 1:
            return ex.ev(e.args[0])
        # self.<component>.d(unit1, unit2)
        if isinstance(f, ast.Attribute) and f.attr == "d" and isinstance(f.value, ast.Attribute) and norm(f.value.value) == sn:
            if sorted(norm(a) for a in e.args) != sorted(ps):
                raise Unsupported("component d not applied to the two units")
            return A.mk_app(f.value.attr, [Rat.var("u1"), Rat.var("u2")], symmetric=True)
        return None
    ex = Extractor({}, attribute=attr, subscript=sub, call=call)
    form = A.single_return_expr(d.node, ex)
    return KernelForm(c, d, form, ex, "d")


def v(n: str) -> Rat:
    return Rat.var(n)


def spec_formula(M: Model, c: ClassInfo) -> Optional[Tuple[str, Rat]]:
    """documented formula for the class (by nearest ancestor in the table)"""
    pos = (A.mk_abs(v("S1") - v("S2")) + A.mk_abs(v("E1") - v("E2"))) / (v("D1") + v("D2"))
    table = {
        "PositionalSporadicDissimilarity": ("((|ΔS|+|ΔE|)/(D1+D2))²·Δ", pos * pos * v("Δ")),
        "AbsoluteCategoricalDissimilarity": ("[C1≠C2]·Δ", A.mk_neq(v("C1"), v("C2")) * v("Δ")),
        "PrecomputedCategoricalDissimilarity": ("M[C1,C2]·Δ", A.mk_app("M", [v("C1"), v("C2")], True) * v("Δ")),
        "CombinedCategoricalDissimilarity": ("α·POS + β·CAT",
                                             v("α") * A.mk_app("positional_dissim", [v("u1"), v("u2")], True) +
                                             v("β") * A.mk_app("categorical_dissim", [v("u1"), v("u2")], True)),
    }
    for k in M.mro(c):
        if k.name in table:
            return table[k.name]
    return None


def swap12(r: Rat) -> Rat:
    def sigma(name):
        if name and name[-1] in "12" and name[:-1] in ("S", "E", "D", "C", "u"):
            return Rat.var(name[:-1] + ("2" if name[-1] == "1" else "1"))
        return None
    return A.subst(r, sigma)


def identify(r: Rat) -> Rat:
    """unit2 := unit1; matrix diagonal and component self-distances are 0 (discharged separately)"""
    def sigma(name):
        if name and name[-1] == "2" and name[:-1] in ("S", "E", "D", "C", "u"):
            return Rat.var(name[:-1] + "1")
        return None
    s = A.subst(r, sigma)
    # kill app atoms whose arguments coincide

    def zero_diag(p):
        out = {}
        for m, c in p.t.items():
            if any(a[0] == "app" and len(set(map(repr, a[2]))) == 1 for a, _ in m):
                continue
            out[m] = c
        return A.Poly(out)
    return Rat(zero_diag(s.n), s.d)
