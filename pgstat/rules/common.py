"""helpers shared by the property drivers"""
from __future__ import annotations

import ast
from typing import Callable, Dict, Iterable, Iterator, List, Optional, Set, Tuple

from ..core import Ctx
from ..flow import AV, CallSite, Flow, Program
from ..model import (BUILTIN_MUTATORS as BUILTIN_MUTATORS_, IMMUTABLE_TYPES, AnalysisError, FuncInfo, Model, Ty, canon, dotted, norm, walk_no_nested)


def prog(ctx: Ctx) -> Program:
    p = getattr(ctx, "_prog", None)
    if p is None:
        p = Program(ctx.model).solve()
        ctx._prog = p
    return p


def ext_calls(p: Program, f: FuncInfo, prefix: str) -> List[CallSite]:
    return [cs for cs in p.all_calls(f) if cs.external and cs.external.startswith(prefix)]


def calls_to(p: Program, f: FuncInfo, target_qualname: str) -> List[CallSite]:
    return [cs for cs in p.all_calls(f) if any(t.qualname == target_qualname for t in cs.targets)]


def top_level_index(fnode: ast.AST, node: ast.AST) -> Optional[int]:
    """index of the top-level statement of fnode that contains node"""
    for i, s in enumerate(fnode.body):
        for sub in ast.walk(s):
            if sub is node:
                return i
    return None


def enclosing(fnode: ast.AST, node: ast.AST, kinds) -> List[ast.AST]:
    """ancestors of node (innermost last) of the given kinds"""
    out = []

    def rec(n, stack):
        if n is node:
            out.extend([a for a in stack if isinstance(a, kinds)])
            return True
        for ch in ast.iter_child_nodes(n):
            if rec(ch, stack + [n]):
                return True
        return False
    rec(fnode, [])
    return out


def is_mutable_type(t: Optional[Ty]) -> bool:
    if t is None:
        return True
    if t.name in IMMUTABLE_TYPES or t.name in ("float32", "int32", "int64"):
        return False
    return True


def names_in(node: ast.AST) -> Set[str]:
    return {n.id for n in ast.walk(node) if isinstance(n, ast.Name)}


def assigned_value(fnode: ast.AST, name: str) -> List[ast.AST]:
    """all values assigned to a local name (plain Assign / AnnAssign with single Name target)"""
    out = []
    for n in walk_no_nested(fnode):
        if isinstance(n, ast.Assign):
            for t in n.targets:
                if isinstance(t, ast.Name) and t.id == name:
                    out.append(n.value)
                elif isinstance(t, (ast.Tuple, ast.List)) and isinstance(n.value, (ast.Tuple, ast.List)) \
                        and len(t.elts) == len(n.value.elts):
                    for te, ve in zip(t.elts, n.value.elts):
                        if isinstance(te, ast.Name) and te.id == name:
                            out.append(ve)
        elif isinstance(n, ast.AnnAssign) and isinstance(n.target, ast.Name) and n.target.id == name and n.value is not None:
            out.append(n.value)
    return out


def single_def(fnode: ast.AST, name: str, rule: str) -> ast.AST:
    vs = assigned_value(fnode, name)
    if len(vs) != 1:
        raise AnalysisError(rule, f"expected exactly one definition of local '{name}', found {len(vs)}")
    return vs[0]


def resolve_local(fnode: ast.AST, e: ast.AST, depth: int = 4) -> ast.AST:
    """follow single-definition local names to their defining expression"""
    while depth > 0 and isinstance(e, ast.Name):
        vs = assigned_value(fnode, e.id)
        if len(vs) != 1:
            return e
        e = vs[0]
        depth -= 1
    return e


def expand_locals(fnode: ast.AST, e: ast.AST, depth: int = 4, skip: Iterable[str] = ()) -> ast.AST:
    """copy of expression `e` in which every local name that has exactly one binding in the function (a plain `name = value`) is replaced
    by that value, recursively: the expression in terms of parameters, fields and multiply-assigned names.  Used to classify *what a value
    is computed from*; names bound by comprehensions / lambdas inside `e`, loop targets and parameters are left alone."""
    import copy as _copy
    params = set()
    if isinstance(fnode, (ast.FunctionDef, ast.AsyncFunctionDef, ast.Lambda)):
        a = fnode.args
        params = {x.arg for x in a.args + a.kwonlyargs + a.posonlyargs} | ({a.vararg.arg} if a.vararg else set()) | ({a.kwarg.arg} if a.kwarg else set())
    skip = set(skip) | params
    # names whose object is mutated in the function stand for a container, not for a value: never replaced by their allocation
    for n in walk_no_nested(fnode):
        tg = []
        if isinstance(n, ast.Assign):
            tg = n.targets
        elif isinstance(n, ast.AugAssign):
            tg = [n.target]
        for t in tg:
            for x in ([t] if not isinstance(t, (ast.Tuple, ast.List)) else t.elts):
                base = x
                while isinstance(base, (ast.Subscript, ast.Attribute)):
                    base = base.value
                if base is not x and isinstance(base, ast.Name):
                    skip.add(base.id)
        if isinstance(n, ast.Call) and isinstance(n.func, ast.Attribute) and isinstance(n.func.value, ast.Name) and \
                n.func.attr in ("append", "add", "extend", "update", "remove", "pop", "insert", "sort", "clear", "discard", "fill", "setdefault"):
            skip.add(n.func.value.id)
    # ... also when it is mutated through a view local (`row = X[i]; row[j] = v` mutates X)
    for _ in range(3):
        for n in walk_no_nested(fnode):
            if isinstance(n, ast.Assign) and len(n.targets) == 1 and isinstance(n.targets[0], ast.Name) and n.targets[0].id in skip and isinstance(n.value, ast.Subscript):
                base = n.value
                while isinstance(base, (ast.Subscript, ast.Attribute)):
                    base = base.value
                if isinstance(base, ast.Name):
                    skip.add(base.id)

    def bound_inside(x: ast.AST) -> Set[str]:
        out = set()
        for n in ast.walk(x):
            if isinstance(n, ast.comprehension):
                out |= {y.id for y in ast.walk(n.target) if isinstance(y, ast.Name)}
            elif isinstance(n, ast.Lambda):
                out |= {y.arg for y in n.args.args}
        return out

    def rec(x: ast.AST, d: int) -> ast.AST:
        inner = bound_inside(x)

        class T(ast.NodeTransformer):
            def visit_Name(self, n):
                if isinstance(n.ctx, ast.Load) and n.id not in skip and n.id not in inner and d > 0:
                    if len(stores_to(fnode, n.id)) == 1:
                        vs = assigned_value(fnode, n.id)
                        if len(vs) == 1:
                            return rec(_copy.deepcopy(vs[0]), d - 1)
                return n
        return T().visit(x)
    return rec(_copy.deepcopy(e), depth)


def bound_args(call: ast.Call, f: FuncInfo, skip_receiver: bool = True) -> Optional[Dict[str, ast.AST]]:
    """parameter name -> argument expression of `call` to `f` (positional and keyword arguments alike); None with *args / **kwargs"""
    if any(isinstance(a, ast.Starred) for a in call.args) or any(k.arg is None for k in call.keywords):
        return None
    ps = list(f.params)
    if skip_receiver and f.cls is not None and f.kind in ("method", "property", "setter", "classmethod") and ps:
        ps = ps[1:]
    out: Dict[str, ast.AST] = {}
    if len(call.args) > len(ps):
        return None
    for n, a in zip(ps, call.args):
        out[n] = a
    for k in call.keywords:
        if k.arg in out or k.arg not in ps:
            return None
        out[k.arg] = k.value
    return out


def conditions_at(fnode: ast.AST, node: ast.AST) -> List[Tuple[ast.AST, bool]]:
    """(test, truth) pairs known to hold whenever `node` is reached, from the shape of the code alone: tests of enclosing `if`s (body: True,
    else: False) and of earlier sibling `if`s whose taken branch always leaves the block (return / raise / continue / break).  Conditions on
    names that are rebound in between are the caller's business."""
    out: List[Tuple[ast.AST, bool]] = []

    def leaves(blk) -> bool:
        if not blk:
            return False
        last = blk[-1]
        if isinstance(last, (ast.Return, ast.Raise, ast.Continue, ast.Break)):
            return True
        if isinstance(last, ast.If) and last.orelse:
            return leaves(last.body) and leaves(last.orelse)
        return False

    def contains(x, target) -> bool:
        return any(y is target for y in ast.walk(x))

    def rec(blk: List[ast.stmt]) -> bool:
        for k, st in enumerate(blk):
            if not contains(st, node):
                continue
            for prev in blk[:k]:
                if isinstance(prev, ast.If):
                    if leaves(prev.body) and not leaves(prev.orelse):
                        out.append((prev.test, False))
                    elif prev.orelse and leaves(prev.orelse) and not leaves(prev.body):
                        out.append((prev.test, True))
            if isinstance(st, ast.If):
                if any(contains(b, node) for b in st.body):
                    out.append((st.test, True))
                    rec(st.body)
                elif any(contains(b, node) for b in st.orelse):
                    out.append((st.test, False))
                    rec(st.orelse)
                return True
            for fld in ("body", "orelse", "finalbody"):
                sub = getattr(st, fld, None)
                if isinstance(sub, list) and sub and isinstance(sub[0], ast.stmt) and any(contains(b, node) for b in sub):
                    rec(sub)
                    return True
            for h in getattr(st, "handlers", []) or []:
                if any(contains(b, node) for b in h.body):
                    rec(h.body)
                    return True
            return True
        return False
    rec(list(fnode.body))
    return out


def count_if(e: ast.AST) -> Optional[Tuple[str, str]]:
    """(iterable text, condition text over the element `E`) when `e` counts the elements of an iterable that satisfy a condition, in any of
    the spellings  sum(1 for T in IT if C) / len([.. for T in IT if C]) / sum(1 for _ in filter(lambda p: C, IT)) / len(list(filter(...)))"""
    import copy as _copy

    def over_element(target: ast.AST, cond: ast.AST) -> Optional[str]:
        env: Dict[str, ast.AST] = {}
        E = ast.Name(id="E", ctx=ast.Load())
        if isinstance(target, ast.Name):
            env[target.id] = E
        elif isinstance(target, (ast.Tuple, ast.List)) and all(isinstance(x, ast.Name) for x in target.elts):
            for k, x in enumerate(target.elts):
                env[x.id] = ast.Subscript(value=E, slice=ast.Constant(value=k), ctx=ast.Load())
        else:
            return None

        class S(ast.NodeTransformer):
            def visit_Name(self, n):
                return _copy.deepcopy(env[n.id]) if n.id in env and isinstance(n.ctx, ast.Load) else n
        return norm(S().visit(_copy.deepcopy(cond)))

    def from_filter(c: ast.AST) -> Optional[Tuple[str, str]]:
        if isinstance(c, ast.Call) and dotted(c.func) == "filter" and len(c.args) == 2 and isinstance(c.args[0], ast.Lambda) and len(c.args[0].args.args) == 1:
            lam = c.args[0]
            cond = over_element(ast.Name(id=lam.args.args[0].arg, ctx=ast.Store()), lam.body)
            return (norm(c.args[1]), cond) if cond is not None else None
        return None

    def from_comp(c: ast.AST, need_one: bool) -> Optional[Tuple[str, str]]:
        if isinstance(c, (ast.GeneratorExp, ast.ListComp)) and len(c.generators) == 1:
            g = c.generators[0]
            if need_one and not (isinstance(c.elt, ast.Constant) and c.elt.value == 1 and type(c.elt.value) is int):
                return None
            if not g.ifs:
                return from_filter(g.iter) if isinstance(g.target, ast.Name) and (need_one or True) else None
            if len(g.ifs) == 1:
                cond = over_element(g.target, g.ifs[0])
                return (norm(g.iter), cond) if cond is not None else None
        return None
    if isinstance(e, ast.Call) and len(e.args) == 1 and not e.keywords:
        fn = dotted(e.func)
        a = e.args[0]
        if fn == "sum":
            return from_comp(a, True)
        if fn == "len":
            if isinstance(a, ast.Call) and dotted(a.func) in ("list", "tuple") and len(a.args) == 1:
                a = a.args[0]
                return from_filter(a) or from_comp(a, False)
            if isinstance(a, ast.ListComp):
                return from_comp(a, False)
            if isinstance(a, (ast.Name, ast.Attribute)):
                return norm(a), "True"          # every element counts
            return None
    return None


def key_function(M: Model, f: FuncInfo, k: Optional[ast.AST]) -> Optional[Tuple[str, ast.AST]]:
    """(parameter name, returned expression) of a sort / min / max key given as a lambda or as a reference to a one-expression function
    (self._helper, Class._helper, module function)"""
    if isinstance(k, ast.Lambda) and len(k.args.args) == 1:
        return k.args.args[0].arg, k.body
    g = None
    if isinstance(k, ast.Attribute) and isinstance(k.value, ast.Name) and f.cls is not None and k.value.id in (f.self_name, "cls", f.cls.name):
        g = M.find_method(f.cls, k.attr)
    elif isinstance(k, ast.Name):
        g = M.functions.get(k.id)
    if g is None or isinstance(g.node, ast.Lambda):
        return None
    body = [s for s in g.node.body if not isinstance(s, ast.Pass)]
    ps = [p for p in g.params if not (g.kind in ("method", "classmethod") and p == g.params[0])]
    if len(body) == 1 and isinstance(body[0], ast.Return) and body[0].value is not None and len(ps) == 1:
        return ps[0], body[0].value
    return None


def call_signature(M: Model, call: ast.Call) -> Optional[List[str]]:
    """parameter names (without the receiver) of the package function / method / constructor a call refers to, when its name is defined
    exactly once in the package (name-based: good enough to put keyword arguments in their positional slot)"""
    name = call.func.attr if isinstance(call.func, ast.Attribute) else (call.func.id if isinstance(call.func, ast.Name) else None)
    if name is None:
        return None
    cands = [f for f in M.functions.values() if f.name == name and not isinstance(f.node, ast.Lambda) and f.kind != "setter" and f.kind != "property"]
    if name in M.classes:
        init = M.find_method(M.classes[name], "__init__")
        cands = [init] if init is not None else []
    if len(cands) != 1:
        return None
    f = cands[0]
    a = f.node.args
    if a.vararg or a.kwarg:
        return None
    ps = list(f.params)
    if f.cls is not None and f.kind in ("method", "classmethod") and ps:
        ps = ps[1:]
    return ps


def pargs(M: Model, call: ast.Call) -> List[ast.AST]:
    """arguments of a call in parameter order: keyword arguments of a package callee are put in their positional slot when that leaves no gap"""
    ps = call_signature(M, call)
    if ps is None or any(isinstance(a, ast.Starred) for a in call.args) or any(k.arg is None for k in call.keywords):
        return list(call.args)
    out = list(call.args)
    kws = {k.arg: k.value for k in call.keywords}
    while len(out) < len(ps) and ps[len(out)] in kws:
        out.append(kws[ps[len(out)]])
    return out


def pnorm(M: Model, e: ast.AST) -> str:
    """norm() of an expression after every call to a package function has its keyword arguments folded into positional ones"""
    import copy as _copy
    e2 = _copy.deepcopy(e)
    for c in [x for x in ast.walk(e2) if isinstance(x, ast.Call)]:
        new = pargs(M, c)
        if len(new) != len(c.args):
            moved = len(new) - len(c.args)
            ps = call_signature(M, c) or []
            taken = set(ps[len(c.args):len(new)])
            c.args = new
            c.keywords = [k for k in c.keywords if k.arg not in taken]
    return norm(e2)


def view_env(fnode: ast.AST) -> Dict[str, ast.AST]:
    """locals that stand for an element of an indexable object (numpy row views, elements of a sequence):
         row = X[i]                       row  -> X[i]
         for i, v in enumerate(X)         v    -> X[i]
         for a, b in zip(X, Y)            a    -> X[@zipN], b -> Y[@zipN]      (one synthetic index per loop: same position in both)
         for v in X   (X a plain name)    v    -> X[@itN]
    Only single-binding names are entered."""
    env: Dict[str, ast.AST] = {}

    def sub(base: ast.AST, idx: ast.AST) -> ast.AST:
        return ast.Subscript(value=base, slice=idx, ctx=ast.Load())

    def single(nm: str) -> bool:
        return len(stores_to(fnode, nm)) == 1
    for n in walk_no_nested(fnode):
        if isinstance(n, ast.Assign) and len(n.targets) == 1 and isinstance(n.targets[0], ast.Name) and isinstance(n.value, ast.Subscript) \
                and single(n.targets[0].id) and not isinstance(n.value.slice, ast.Slice):
            env[n.targets[0].id] = n.value
        elif isinstance(n, ast.For):
            it, tg = n.iter, n.target
            if isinstance(it, ast.Call) and dotted(it.func) == "enumerate" and len(it.args) == 1 and isinstance(tg, ast.Tuple) and len(tg.elts) == 2 \
                    and isinstance(tg.elts[0], ast.Name) and isinstance(it.args[0], (ast.Name, ast.Attribute, ast.Subscript)):
                if isinstance(tg.elts[1], ast.Name) and single(tg.elts[1].id):
                    env[tg.elts[1].id] = sub(it.args[0], ast.Name(id=tg.elts[0].id, ctx=ast.Load()))
            elif isinstance(it, ast.Call) and dotted(it.func) == "zip" and isinstance(tg, ast.Tuple) and len(tg.elts) == len(it.args) and not it.keywords:
                k = ast.Name(id=f"@zip{getattr(n, 'lineno', 0)}", ctx=ast.Load())
                for te, a in zip(tg.elts, it.args):
                    if isinstance(te, ast.Name) and single(te.id) and isinstance(a, (ast.Name, ast.Attribute, ast.Subscript)):
                        env[te.id] = sub(a, k)
            elif isinstance(it, ast.Name) and isinstance(tg, ast.Name) and single(tg.id):
                env[tg.id] = sub(it, ast.Name(id=f"@it{getattr(n, 'lineno', 0)}", ctx=ast.Load()))
    return env


def subst_views(e: ast.AST, env: Dict[str, ast.AST], depth: int = 4) -> ast.AST:
    """copy of `e` with the view locals of `env` (see view_env) replaced by the element expressions they stand for"""
    import copy as _copy

    def rec(x, d):
        class T(ast.NodeTransformer):
            def visit_Name(self, n):
                if isinstance(n.ctx, ast.Load) and n.id in env and d > 0:
                    return rec(_copy.deepcopy(env[n.id]), d - 1)
                return n
        return T().visit(x)
    return rec(_copy.deepcopy(e), depth)


def flat_nodes(e: ast.AST, env: Optional[Dict[str, ast.AST]] = None, depth: int = 6):
    """like flat_subscript, but returns the index expressions as nodes: (base text, [index nodes])"""
    idx: List[ast.AST] = []
    while depth > 0:
        depth -= 1
        while isinstance(e, ast.Subscript):
            sl = e.slice
            idx = (list(sl.elts) if isinstance(sl, ast.Tuple) else [sl]) + idx
            e = e.value
        if isinstance(e, ast.Name) and env and e.id in env:
            e = env[e.id]
            continue
        break
    if isinstance(e, (ast.Name, ast.Attribute)):
        return norm(e), idx
    return None


def flat_subscript(e: ast.AST, env: Optional[Dict[str, ast.AST]] = None, depth: int = 6):
    """X[a][b, c] -> ('X', ['a', 'b', 'c']), looking through view locals of `env` (see view_env); None when the base is not a plain name"""
    idx: List[str] = []
    while depth > 0:
        depth -= 1
        while isinstance(e, ast.Subscript):
            sl = e.slice
            idx = ([norm(x) for x in sl.elts] if isinstance(sl, ast.Tuple) else [norm(sl)]) + idx
            e = e.value
        if isinstance(e, ast.Name) and env and e.id in env:
            e = env[e.id]
            continue
        break
    if isinstance(e, ast.Name):
        return e.id, idx
    if isinstance(e, ast.Attribute):
        return norm(e), idx
    return None


def source_order(fnode: ast.AST) -> Dict[int, int]:
    """id(node) -> position in a depth-first, field-order traversal of the function: the order in which the code reads.  (Line numbers are not
    usable: statements inlined from a helper keep the helper's line numbers.)"""
    cache = getattr(fnode, "_pg_order", None)
    if cache is not None:
        return cache
    order: Dict[int, int] = {}

    def rec(n):
        order[id(n)] = len(order)
        for ch in ast.iter_child_nodes(n):
            rec(ch)
    rec(fnode)
    try:
        fnode._pg_order = order
    except Exception:
        pass
    return order


def bool_equiv(e1: ast.AST, e2: ast.AST, max_atoms: int = 6) -> Optional[bool]:
    """are two boolean expressions the same function of their atoms?  Atoms are comparisons / other sub-expressions, compared by text after
    `a is not b` -> not (a is b), `a not in b` -> not (a in b), `a != b` -> not (a == b); connectives: not / and / or / conditional expression /
    True / False.  Decided by the truth table (None when there are too many atoms).  Purely propositional: it knows nothing about the atoms."""
    atoms: List[str] = []

    def build(e):
        if isinstance(e, ast.Constant) and isinstance(e.value, bool):
            return ("const", e.value)
        if isinstance(e, ast.UnaryOp) and isinstance(e.op, ast.Not):
            return ("not", build(e.operand))
        if isinstance(e, ast.BoolOp):
            return ("and" if isinstance(e.op, ast.And) else "or", [build(v) for v in e.values])
        if isinstance(e, ast.IfExp):
            return ("ite", build(e.test), build(e.body), build(e.orelse))
        if isinstance(e, ast.Compare) and len(e.ops) == 1 and isinstance(e.ops[0], (ast.IsNot, ast.NotIn, ast.NotEq)):
            pos = {ast.IsNot: ast.Is, ast.NotIn: ast.In, ast.NotEq: ast.Eq}[type(e.ops[0])]
            return ("not", build(ast.Compare(left=e.left, ops=[pos()], comparators=e.comparators)))
        t = norm(e)
        if isinstance(e, ast.Compare) and len(e.ops) == 1 and isinstance(e.ops[0], ast.Eq):
            t = " == ".join(sorted([norm(e.left), norm(e.comparators[0])]))
        if t not in atoms:
            atoms.append(t)
        return ("atom", t)

    def ev(n, val):
        k = n[0]
        if k == "const":
            return n[1]
        if k == "atom":
            return val[n[1]]
        if k == "not":
            return not ev(n[1], val)
        if k == "and":
            return all(ev(x, val) for x in n[1])
        if k == "or":
            return any(ev(x, val) for x in n[1])
        return ev(n[2], val) if ev(n[1], val) else ev(n[3], val)
    t1, t2 = build(e1), build(e2)
    if len(atoms) > max_atoms:
        return None
    import itertools
    for bits in itertools.product((False, True), repeat=len(atoms)):
        val = dict(zip(atoms, bits))
        if ev(t1, val) != ev(t2, val):
            return False
    return True


def quant_norm(e: ast.AST) -> ast.AST:
    """canonical spelling of quantified emptiness tests:  not all(P) -> any(not P),  not any(P) -> all(not P),  and inside the predicate
    len(x) > 0 / not len(x) == 0 / len(x) >= 1  ->  len(x) != 0 ;  not len(x) != 0 / len(x) < 1 -> len(x) == 0"""
    import copy as _copy
    e = _copy.deepcopy(e)

    def neg_pred(p: ast.AST) -> ast.AST:
        if isinstance(p, ast.UnaryOp) and isinstance(p.op, ast.Not):
            return p.operand
        if isinstance(p, ast.Compare) and len(p.ops) == 1 and isinstance(p.ops[0], (ast.Eq, ast.NotEq)) and isinstance(p.left, ast.Call) and dotted(p.left.func) == "len":
            inv = ast.NotEq if isinstance(p.ops[0], ast.Eq) else ast.Eq
            return ast.Compare(left=p.left, ops=[inv()], comparators=p.comparators)
        return ast.UnaryOp(op=ast.Not(), operand=p)

    def len_pred(p: ast.AST) -> ast.AST:
        if isinstance(p, ast.UnaryOp) and isinstance(p.op, ast.Not):
            inner = len_pred(p.operand)
            return neg_pred(inner) if isinstance(inner, ast.Compare) else ast.UnaryOp(op=ast.Not(), operand=inner)
        if isinstance(p, ast.Compare) and len(p.ops) == 1 and isinstance(p.left, ast.Call) and dotted(p.left.func) == "len" and isinstance(p.comparators[0], ast.Constant):
            c, op = p.comparators[0].value, type(p.ops[0])
            if (op, c) in ((ast.Gt, 0), (ast.GtE, 1), (ast.NotEq, 0)):
                return ast.Compare(left=p.left, ops=[ast.NotEq()], comparators=[ast.Constant(value=0)])
            if (op, c) in ((ast.Lt, 1), (ast.LtE, 0), (ast.Eq, 0)):
                return ast.Compare(left=p.left, ops=[ast.Eq()], comparators=[ast.Constant(value=0)])
        return p

    class T(ast.NodeTransformer):
        def visit_UnaryOp(self, n):
            self.generic_visit(n)
            if isinstance(n.op, ast.Not) and isinstance(n.operand, ast.Call) and dotted(n.operand.func) in ("any", "all") and len(n.operand.args) == 1 and \
                    isinstance(n.operand.args[0], (ast.GeneratorExp, ast.ListComp)):
                g = n.operand.args[0]
                other = "any" if dotted(n.operand.func) == "all" else "all"
                return ast.Call(func=ast.Name(id=other, ctx=ast.Load()), args=[ast.GeneratorExp(elt=neg_pred(len_pred(g.elt)), generators=g.generators)], keywords=[])
            return n

        def visit_Call(self, n):
            self.generic_visit(n)
            if dotted(n.func) in ("any", "all") and len(n.args) == 1 and isinstance(n.args[0], (ast.GeneratorExp, ast.ListComp)):
                g = n.args[0]
                n.args = [ast.GeneratorExp(elt=len_pred(g.elt), generators=g.generators)]
            return n
    out = T().visit(e)
    ast.fix_missing_locations(out)
    return out


def backing_field(M: Model, cls_name: str, prop: str, default: str) -> str:
    """name of the private attribute behind a property: the X of the getter's final `return self.X` (private attributes get renamed)"""
    c = M.classes.get(cls_name)
    g = M.find_getter(c, prop) if c is not None else None
    if g is None:
        return default
    rets = [r for r in walk_no_nested(g.node) if isinstance(r, ast.Return) and isinstance(r.value, ast.Attribute) and
            isinstance(r.value.value, ast.Name) and r.value.value.id == g.self_name]
    return rets[-1].value.attr if rets else default


def stores_to(fnode: ast.AST, name: str) -> List[ast.AST]:
    """statements that (re)bind local `name` in any way (assign, augassign, for target, with, comprehension excluded)"""
    out = []
    for n in walk_no_nested(fnode):
        tg = []
        if isinstance(n, ast.Assign):
            tg = n.targets
        elif isinstance(n, (ast.AugAssign, ast.AnnAssign)):
            tg = [n.target]
        elif isinstance(n, (ast.For,)):
            tg = [n.target]
        elif isinstance(n, ast.With):
            tg = [i.optional_vars for i in n.items if i.optional_vars is not None]
        for t in tg:
            for x in ast.walk(t):
                if isinstance(x, ast.Name) and x.id == name and isinstance(x.ctx, ast.Store):
                    out.append(n)
    return out


# parameter rebindings that exist in the package today, each read and confirmed harmless for the rules (default / normalisation idioms)
PARAM_REBIND_OK = {
    ("Alignment.check", "continuum"): {"continuum = self.continuum"},
    ("SoftAlignment.check", "continuum"): {"continuum = self.continuum"},
    ("Continuum.from_csv", "path"): {"path = Path(path)"},
    ("Continuum.to_csv", "path"): {"path = Path(path)"},
    ("Continuum.compute_gamma", "dissimilarity"): {"dissimilarity = CombinedCategoricalDissimilarity()"},
    ("Continuum.compute_gamma", "precision_level"): {"precision_level = PRECISION_LEVEL[precision_level]"},
    ("Continuum.compute_gamma", "sampler"): {"sampler = StatisticalContinuumSampler()"},
    ("CorpusShufflingTool.corpus_from_reference", "new_annotators"): {"new_annotators = [f'annotator_{i}' for i in range(new_annotators)]"},
    ("OrdinalCategoricalDissimilarity.__init__", "labels"): {"labels = np.array(labels, dtype=str)"},
    ("OrdinalCategoricalDissimilarity.__init__", "p"): {"p = np.arange(len(labels), dtype=np.float32)"},
    ("CombinedCategoricalDissimilarity.__init__", "pos_dissim"): {"pos_dissim = PositionalSporadicDissimilarity(delta_empty)"},
    ("CombinedCategoricalDissimilarity.__init__", "cat_dissim"): {"cat_dissim = AbsoluteCategoricalDissimilarity(delta_empty)"},
    ("ShuffleContinuumSampler._random_from_segments", "segments"): {"segments = np.array(segments)"},
}


def check_params_stable(ctx: Ctx, rule: str = "R-PARAMS"):
    """closedness guard: the role-based rules read parameters by name, so a function they analysed must not rebind one
    (beyond the listed default/normalisation idioms).  A new rebinding is reported UNDECIDED: it is not a defect by itself,
    but the rules' reading of that parameter is no longer justified."""
    M = ctx.model
    n = 0
    for qn in sorted(ctx.functions_analysed):
        f = M.functions.get(qn)
        if f is None or isinstance(f.node, ast.Lambda):
            continue
        for prm in f.params:
            for st in stores_to(f.node, prm):
                n += 1
                txt = norm(st)
                if isinstance(st, (ast.For, ast.With)):
                    txt = norm(st)[:80]
                default_idiom = isinstance(st, ast.Assign) and any(
                    isinstance(t, ast.Compare) and len(t.ops) == 1 and isinstance(t.ops[0], ast.Is) and truth and norm(t.left) == prm and
                    isinstance(t.comparators[0], ast.Constant) and t.comparators[0].value is None for t, truth in conditions_at(f.node, st)) \
                    and prm not in {x.id for x in ast.walk(st.value) if isinstance(x, ast.Name)}
                if isinstance(st, (ast.Assign, ast.AnnAssign, ast.AugAssign)) and canon(st) in {canon(x) for x in PARAM_REBIND_OK.get((qn, prm), ())}:
                    ctx.ok(rule, f, st, f"listed idiom: parameter `{prm}` is given its default / normalised form", key=f"{prm}")
                elif default_idiom:
                    ctx.ok(rule, f, st, f"default idiom: parameter `{prm}` is replaced only when the caller passed None", key=f"{prm}")
                else:
                    ctx.undecided(rule, f, st, f"parameter `{prm}` is rebound by `{txt[:100]}`: the rules of this property read `{prm}` as the caller's value; "
                                  f"confirm the new meaning and list the idiom (not a verdict on the repository)", key=f"{prm}")
    return n


_SLOT_COLLAPSING = ("dict", "SortedDict", "OrderedDict", "set", "SortedSet", "frozenset", "defaultdict")


def check_param_defaults(ctx: Ctx, rule: str = "R-DEFAULTS"):
    """closedness guard: a default value is evaluated once, when the `def` runs - every call that omits the argument receives *that* object.  The
    rules read a parameter as the caller's value or, behind `if p is None`, as an object made for this call.  A default that builds a mutable
    object (a display, a container / array constructor, an instance of a package class) which the function then keeps (stores it, or anything
    reached from it, into an attribute) or updates in place is state shared by all such calls: recognised shape, wrong slot.  Any other
    non-constant default is reported UNDECIDED (not a verdict).  The pinned tree has constants only."""
    M = ctx.model
    n = 0
    analysed_classes = {M.functions[q].cls.name for q in ctx.functions_analysed if q in M.functions and M.functions[q].cls is not None}
    related = set(analysed_classes)
    for cn in analysed_classes:
        related |= {k.name for k in M.mro(M.classes[cn])} | {k.name for k in M.subclasses.get(cn, [])}
    todo = {q for q in ctx.functions_analysed if q in M.functions}
    for cn in related:
        c = M.classes.get(cn)
        if c is not None:
            todo |= {g.qualname for g in list(c.methods.values()) + list(c.getters.values()) + list(c.setters.values())}

    def immutable(d, mod=None, depth=0):
        if isinstance(d, ast.Constant) or isinstance(d, ast.Lambda):
            return True
        if isinstance(d, ast.Name) and mod is not None and depth < 3:
            # a module-level name bound once, to an immutable value
            binds = [s_ for s_ in mod.tree.body if isinstance(s_, (ast.Assign, ast.AnnAssign)) and
                     any(isinstance(t, ast.Name) and t.id == d.id for t in (s_.targets if isinstance(s_, ast.Assign) else [s_.target]))]
            others = [x for x in ast.walk(mod.tree) if isinstance(x, ast.Name) and x.id == d.id and isinstance(x.ctx, (ast.Store, ast.Del))]
            return len(binds) == 1 and len(others) == 1 and binds[0].value is not None and immutable(binds[0].value, mod, depth + 1)
        if isinstance(d, ast.UnaryOp):
            return immutable(d.operand, mod, depth)
        if isinstance(d, ast.BinOp):
            return immutable(d.left, mod, depth) and immutable(d.right, mod, depth)
        if isinstance(d, ast.Tuple):
            return all(immutable(e, mod, depth) for e in d.elts)
        if isinstance(d, ast.Attribute):
            return dotted(d) in ("np.inf", "np.nan", "numpy.inf", "numpy.nan", "math.inf", "math.pi", "np.pi", "np.float32", "np.float64", "np.int32", "np.int64", "np.int16")
        if isinstance(d, ast.Call):
            return dotted(d.func) in ("float", "int", "str", "bool", "tuple", "frozenset", "np.float32", "np.float64", "np.int32", "np.int64") and \
                all(immutable(a, mod, depth) for a in d.args) and not d.keywords
        return False
    for qn in sorted(todo):
        f = M.functions.get(qn)
        if f is None or isinstance(f.node, ast.Lambda):
            continue
        a = f.node.args
        pos = a.posonlyargs + a.args
        pairs = list(zip(pos[len(pos) - len(a.defaults):], a.defaults)) + [(p_, d) for p_, d in zip(a.kwonlyargs, a.kw_defaults) if d is not None]
        for p_, d in pairs:
            if immutable(d, f.module):
                continue
            n += 1
            prm = p_.arg
            mutable = isinstance(d, (ast.List, ast.Dict, ast.Set, ast.ListComp, ast.DictComp, ast.SetComp)) or \
                (isinstance(d, ast.Call) and ((dotted(d.func) or "") in _MUTABLE_CTORS or (dotted(d.func) or "").split(".")[-1] in M.classes))
            if not mutable:
                ctx.undecided(rule, f, d, f"default `{prm}={norm(d)}` of {qn} is evaluated once at definition: whether the object is shared state is not decided here "
                              f"(not a verdict)", construct=f"{qn}({prm}=)", key=f"default:{qn}:{prm}")
                continue
            kept = [s_ for s_ in walk_no_nested(f.node) if isinstance(s_, ast.Assign) and any(isinstance(t, ast.Attribute) for t in s_.targets) and
                    any(isinstance(x, ast.Name) and x.id == prm for x in ast.walk(s_.value))]
            updated = [s_ for s_ in walk_no_nested(f.node) if
                       (isinstance(s_, (ast.Assign, ast.AugAssign)) and any(isinstance(t, (ast.Attribute, ast.Subscript)) and isinstance(t.value, ast.Name) and t.value.id == prm
                                                                           for t in (s_.targets if isinstance(s_, ast.Assign) else [s_.target]))) or
                       (isinstance(s_, ast.Call) and isinstance(s_.func, ast.Attribute) and isinstance(s_.func.value, ast.Name) and s_.func.value.id == prm and
                        s_.func.attr in BUILTIN_MUTATORS_)]
            if kept or updated:
                what = "keeps it (`" + norm(kept[0])[:80] + "`)" if kept else "updates it in place (`" + norm(updated[0])[:80] + "`)"
                if kept and updated:
                    what += " and updates it in place (`" + norm(updated[0])[:80] + "`)"
                # a verdict where this property's own rules read the function (they took the parameter for the caller's / this call's object);
                # elsewhere the class is only related to what was analysed: reported, not judged
                (ctx.bad if qn in ctx.functions_analysed else ctx.undecided)(
                    rule, f, d, f"default `{prm}={norm(d)}` of {qn} is one object made when the module is imported; the function {what}: every call that omits "
                    f"`{prm}` shares it, so what one object or call does to it shows in all the others" + ("" if qn in ctx.functions_analysed else " (not a verdict)"),
                    construct=f"{qn}({prm}=)", key=f"default:{qn}:{prm}")
            else:
                ctx.ok(rule, f, d, f"default `{prm}={norm(d)}` of {qn} is only read", key=f"default:{qn}:{prm}")
    return n


def check_unitary_record(ctx: Ctx, rule: str, nb_units: bool = True):
    """UnitaryAlignment is the record every alignment rule reads slots from: the n-tuple handed to the constructor / the n_tuple setter is the
    one `n_tuple` returns (same slots, same order, nothing merged), and `nb_units` is the number of slots whose unit is not None *of the tuple
    currently held*.  A store that routes the tuple through a mapping or a set keeps one slot per distinct key (recognised shape, wrong
    slot); a cached nb_units that a writer of the tuple does not refresh is stale after that writer (recognised shape, wrong slot)."""
    M = ctx.model
    cls = M.classes.get("UnitaryAlignment")
    if cls is None:
        ctx.undecided(rule, None, None, "class UnitaryAlignment not found", construct="UnitaryAlignment", key="ua-record")
        return
    F = backing_field(M, "UnitaryAlignment", "n_tuple", "_n_tuple")
    getter = M.find_getter(cls, "n_tuple")
    if getter is not None:
        ctx.functions_analysed.add(getter.qualname)
        b = [s for s in getter.node.body if not (isinstance(s, ast.Expr) and isinstance(s.value, ast.Constant))]
        ok = len(b) == 1 and isinstance(b[0], ast.Return) and norm(b[0].value) == f"{getter.self_name}.{F}"
        if ok:
            ctx.ok(rule, getter, b[0], f"n_tuple returns the stored tuple {F}", key="ua-record:getter")
        else:
            ctx.undecided(rule, getter, None, "UnitaryAlignment.n_tuple is not `return self.<field>` (not a verdict)", key="ua-record:getter", construct="n_tuple")
    writers = []
    for g in list(cls.methods.values()) + list(cls.setters.values()) + list(cls.getters.values()):
        sn = g.self_name
        if sn is None:
            continue
        for s in walk_no_nested(g.node):
            tg = s.targets if isinstance(s, ast.Assign) else [s.target] if isinstance(s, (ast.AnnAssign, ast.AugAssign)) and getattr(s, "value", None) is not None else []
            if any(norm(t) == f"{sn}.{F}" for t in tg):
                writers.append((g, s))
    if not any(g.name == "__init__" for g, _ in writers):
        ctx.undecided(rule, None, None, f"UnitaryAlignment.__init__ does not store {F} (not a verdict)", construct="__init__", key="ua-record:init")
    setter = cls.setters.get("n_tuple")
    if setter is not None:
        ctx.functions_analysed.add(setter.qualname)
        ctx.check(any(g is setter for g, _ in writers), rule, setter, None, "the n_tuple setter replaces the stored tuple",
                  bad_detail=f"the n_tuple setter does not store into {F}: `ua.n_tuple = t` leaves the previous tuple in place", construct="n_tuple.setter", key="ua-record:setter")
        D = backing_field(M, "UnitaryAlignment", "disorder", "_disorder")
        ssn = setter.self_name
        resets = [s for s in walk_no_nested(setter.node) if isinstance(s, ast.Assign) and norm(s.targets[0]) == f"{ssn}.{D}" and isinstance(s.value, ast.Constant) and s.value.value is None]
        ctx.check(bool(resets), rule, setter, resets[0] if resets else None, "replacing the tuple forgets the disorder cached for the previous one",
                  bad_detail=f"the n_tuple setter keeps the cached {D} of the previous tuple: the unitary alignment then reports a disorder that is not the one of its units",
                  construct="n_tuple.setter cache", key="ua-record:setter-cache")
    for g, s in writers:
        ctx.functions_analysed.add(g.qualname)
        params = set(g.params[1:])
        v = expand_locals(g.node, s.value)
        x = v
        while isinstance(x, ast.Call) and dotted(x.func) in ("list", "tuple") and len(x.args) == 1 and not x.keywords:
            x = x.args[0]
        key = f"ua-record:store:{g.qualname}"
        if isinstance(s, ast.AugAssign):
            ctx.undecided(rule, g, s, f"{g.qualname}: the n-tuple is updated in place (not a verdict)", key=key)
        elif isinstance(x, ast.Name) and x.id in params:
            ctx.ok(rule, g, s, f"{g.qualname} stores the n-tuple it is given, slot for slot", key=key)
        else:
            through = sorted({dotted(c.func).split(".")[-1] for c in ast.walk(v) if isinstance(c, ast.Call) and dotted(c.func) and
                              dotted(c.func).split(".")[-1] in _SLOT_COLLAPSING} | {"dict display" for c in ast.walk(v) if isinstance(c, (ast.Dict, ast.DictComp, ast.Set, ast.SetComp))})
            if through and any(isinstance(n, ast.Name) and n.id in params for n in ast.walk(v)):
                ctx.bad(rule, g, s, f"{g.qualname} stores the n-tuple after routing it through {', '.join(through)}: one slot per distinct key survives, so a tuple "
                        f"holding the same annotator twice (what check() exists to reject) or the same element twice loses slots, and the order is the container's", key=key)
            else:
                ctx.undecided(rule, g, s, f"{g.qualname}: the stored n-tuple `{norm(v)}` is not the argument itself (not a verdict)", key=key)
    if not nb_units:
        return
    nb = M.find_getter(cls, "nb_units")
    if nb is None:
        ctx.undecided(rule, None, None, "UnitaryAlignment.nb_units not found", construct="nb_units", key="accessor")
        return
    ctx.functions_analysed.add(nb.qualname)
    b = [s for s in nb.node.body if not (isinstance(s, ast.Expr) and isinstance(s.value, ast.Constant))]
    r = b[0].value if len(b) == 1 and isinstance(b[0], ast.Return) else None
    sn = nb.self_name

    def counting(e, tuple_names, g) -> Optional[bool]:
        ci = count_if(e) if e is not None else None
        if ci is None:
            return None
        return ci[0] in tuple_names and ci[1] == "E[1] is not None"

    if isinstance(r, ast.Attribute) and norm(r.value) == sn and r.attr != F:
        C = r.attr                # cached count: every writer of the tuple must refresh it with the count of the new tuple
        for g, s in writers:
            gsn = g.self_name
            st = [x for x in walk_no_nested(g.node) if isinstance(x, (ast.Assign, ast.AnnAssign)) and getattr(x, "value", None) is not None and
                  any(norm(t) == f"{gsn}.{C}" for t in (x.targets if isinstance(x, ast.Assign) else [x.target]))]
            key = f"accessor:refresh:{g.qualname}"
            if not st:
                ctx.bad(rule, g, s, f"nb_units returns the cached {C}, and {g.qualname} replaces the n-tuple without refreshing it: after this writer nb_units is the count "
                        f"of the previous tuple", key=key)
                continue
            names = {f"{gsn}.{F}", f"{gsn}.n_tuple"} | {norm(expand_locals(g.node, s.value))}
            res = counting(expand_locals(g.node, st[-1].value), names, g)
            if res is None:
                ctx.undecided(rule, g, st[-1], f"{g.qualname}: {C} is not a recognised counting expression (not a verdict)", key=key)
            else:
                ctx.check(res, rule, g, st[-1], f"{g.qualname} refreshes {C} = number of slots of the new tuple whose unit is not None",
                          bad_detail=f"{g.qualname} sets {C} to something else than the number of slots of the new tuple whose unit is not None", key=key)
        return
    res = counting(r, {f"{sn}.{F}", f"{sn}.n_tuple"}, nb)
    if res is None:
        ctx.undecided(rule, nb, r, "UnitaryAlignment.nb_units: not a recognised counting expression (not a verdict)", key="accessor")
    else:
        ci = count_if(r)
        ctx.check(res, rule, nb, r, "UnitaryAlignment.nb_units counts the slots of the n-tuple whose unit is not None",
                  bad_detail=f"UnitaryAlignment.nb_units counts the elements of `{ci[0]}` with `{ci[1]}` instead of the slots of the n-tuple whose unit is not None", key="accessor")


_TEXT_TRANSFORMS = ("strip", "lstrip", "rstrip", "lower", "upper", "casefold", "title", "capitalize", "replace", "split", "rsplit", "partition", "translate",
                    "removeprefix", "removesuffix", "swapcase", "expandtabs", "zfill", "center", "ljust", "rjust")


def xnorm(fnode: ast.AST, e: ast.AST, rounds: int = 4, stop=()) -> str:
    """normalised text of an expression after every explaining local in it (a name bound exactly once in the function) has been replaced by
    its definition, sub-expressions included - for comparing what an expression denotes, not for moving code"""
    import copy as _cp
    e2 = _cp.deepcopy(e)
    holder = ast.Expr(value=e2)
    for _ in range(rounds):
        changed = False
        for nd in [n for n in ast.walk(holder) if isinstance(n, ast.Name) and isinstance(n.ctx, ast.Load) and n.id not in stop]:
            d = resolve_local(fnode, nd)
            if d is nd or isinstance(d, ast.Name) and d.id == nd.id:
                continue
            d = _cp.deepcopy(d)
            for par in ast.walk(holder):
                for fld, val in ast.iter_fields(par):
                    if val is nd:
                        setattr(par, fld, d)
                        changed = True
                    elif isinstance(val, list) and any(v is nd for v in val):
                        val[[i for i, v in enumerate(val) if v is nd][0]] = d
                        changed = True
        if not changed:
            break
    return norm(holder.value)


_ROUNDING = ("round", "floor", "ceil", "trunc", "rint", "around", "fix", "int", "float16", "float32", "quantize")


def check_segment_verbatim(ctx: Ctx, rule: str):
    """`add` stores the segment it is given.  Rounding its boundaries (or any arithmetic on them) before the unit is built puts every unit on an
    absolute grid: the stored times are no longer the caller's / the file's, and what is rounded away depends on the scale of the time axis
    (recognised shape, wrong slot).  Other rebindings of the parameter are the parameter guard's business."""
    M = ctx.model
    g = M.functions.get("Continuum.add")
    if g is None or len(g.params) < 3:
        return
    ctx.functions_analysed.add(g.qualname)
    ps = g.params[2]
    hit = None
    names = {ps}
    for st in walk_no_nested(g.node):
        if isinstance(st, ast.Assign) and len(st.targets) == 1 and isinstance(st.targets[0], ast.Name) and any(isinstance(n, ast.Name) and n.id in names for n in ast.walk(st.value)):
            calls = [dotted(c.func) or "" for c in ast.walk(st.value) if isinstance(c, ast.Call)]
            arith = [b for b in ast.walk(st.value) if isinstance(b, ast.BinOp) and any(isinstance(a, ast.Attribute) and a.attr in ("start", "end") for a in ast.walk(b))]
            if any(c.split(".")[-1] in _ROUNDING for c in calls) or arith:
                if st.targets[0].id == ps or any(isinstance(c, ast.Call) and dotted(c.func) == "Segment" for c in ast.walk(st.value)):
                    hit = hit or st
            names.add(st.targets[0].id)
    # the unit that is inserted is built from a rounded / shifted segment
    units = [c for c in walk_no_nested(g.node) if isinstance(c, ast.Call) and dotted(c.func) == "Unit"]
    if hit is not None and units:
        ctx.bad(rule, g, hit, f"Continuum.add rebuilds the segment it is given (`{norm(hit)[:90]}`) before storing the unit: the boundaries are rounded / transformed on an "
                f"absolute scale, so the stored times are not the given ones and depend on the unit of the time axis", key="segment-verbatim")
    else:
        ctx.ok(rule, g, None, "Continuum.add does not round or shift the boundaries of the segment it is given", construct="segment verbatim", key="segment-verbatim")


def check_annotator_order(ctx: Ctx, rule: str, judge: bool = False):
    """`annotators` (a plain sorted set of the names) and the iteration order of `_annotations` are the same order only while the mapping is a
    SortedDict without a key function."""
    M = ctx.model
    if ("annotator-order", rule) in ctx.notes.setdefault("records_checked", set()):
        return
    ctx.notes["records_checked"].add(("annotator-order", rule))
    # what the constructor makes the two containers of: the sorted mapping and the sorted set of sortedcontainers (peekitem, index, alphabetical
    # iteration are what the decoder, the array builders and the samplers rely on)
    init = M.functions.get("Continuum.__init__")
    if init is not None:
        for fld, want, plain in (("_annotations", "SortedDict", ("dict", "OrderedDict", "defaultdict", "collections.OrderedDict", "collections.defaultdict")),
                                 ("_categories", "SortedSet", ("set", "list", "frozenset", "tuple"))):
            sts = [s_ for s_ in walk_no_nested(init.node) if isinstance(s_, ast.Assign) and norm(s_.targets[0]) == f"{init.self_name}.{fld}"]
            if len(sts) != 1:
                ctx.undecided(rule, init, None, f"Continuum.__init__ binds {fld} {len(sts)} times (not a verdict)", construct=fld, key=f"ctor:{fld}")
                continue
            v = sts[0].value
            kind = dotted(v.func) if isinstance(v, ast.Call) else "dict" if isinstance(v, (ast.Dict, ast.DictComp)) else "list" if isinstance(v, (ast.List, ast.ListComp)) else \
                "set" if isinstance(v, (ast.Set, ast.SetComp)) else None
            if kind is not None and kind.split(".")[-1] == want:
                ctx.ok(rule, init, sts[0], f"a new continuum keeps {fld} in a {want}", key=f"ctor:{fld}")
            elif kind in plain and judge:
                ctx.bad(rule, init, sts[0], f"a new continuum keeps {fld} in `{norm(v)}`, not in a {want}: " +
                        ("the annotators come in insertion order, not alphabetically (and positional access by rank is gone)" if fld == "_annotations" else
                         "the categories are not kept sorted and without duplicates (the label index of a unit is its rank in that set)"), key=f"ctor:{fld}")
            else:
                ctx.undecided(rule, init, sts[0], f"a new continuum keeps {fld} in `{norm(v)}`, not in a {want} (not a verdict)", key=f"ctor:{fld}")
    # the annotator mapping: SortedDict(<key function>, ...) orders the annotators by that key, while `annotators` (a plain SortedSet of the
    # keys) and everything documented say: by name.  Iteration order (`__iter__`, peekitem, the array builders) and `annotators` then disagree.
    for g in list(M.functions.values()):
        if isinstance(g.node, ast.Lambda):
            continue
        for c in walk_no_nested(g.node):
            if not (isinstance(c, ast.Call) and dotted(c.func) in ("SortedDict", "sortedcontainers.SortedDict")):
                continue
            keyf = next((k.value for k in c.keywords if k.arg == "key"), None)
            if keyf is None and c.args and (isinstance(c.args[0], ast.Lambda) or (isinstance(c.args[0], ast.Attribute) and norm(c.args[0].value) in ("str", "bytes", "operator")) or
                                            (isinstance(c.args[0], ast.Name) and (c.args[0].id in M.functions or c.args[0].id in ("len", "str", "repr", "hash", "id")))):
                keyf = c.args[0]
            if keyf is None:
                continue
            ktxt = norm(keyf)
            if not judge:
                ctx.undecided(rule, g, c, f"the annotator mapping is ordered by the key function `{ktxt}`, `annotators` by name: the rules of this property read both as one "
                              f"order (not a verdict; C13 and C10 judge it)", key="annotator-key")
            elif any(w in ktxt for w in ("lower", "upper", "casefold", "strip", "len", "hash", "id", "swapcase", "title")):
                ctx.bad(rule, g, c, f"the annotator mapping is ordered by the key function `{ktxt}`: iteration over the continuum (and everything that walks "
                        f"_annotations: array builders, peekitem in the decoder) follows that key, while `annotators` is the plain sorted set of names - the two orders "
                        f"differ as soon as two names compare differently under the key (and two names with equal keys are one annotator)", key="annotator-key")
            else:
                ctx.undecided(rule, g, c, f"a SortedDict is built with a key function (`{ktxt}`): the order of its keys is the key's, not the names' (not a verdict)",
                              key="annotator-key")


def check_annotator_key(ctx: Ctx, rule: str):
    """`add` / `add_annotator` file their work under the annotator they are given.  A text transformation of the name files it under another
    annotator than the one the set-per-annotator model - and every caller that looks the name up afterwards (the corpus shuffling tool, a
    reader followed by `continuum[name]`) - expects (recognised shape, wrong slot).  Other rebindings are the parameter guard's business."""
    n = 0
    for qn_ in ("Continuum.add", "Continuum.add_annotator"):
        g_ = ctx.fn(qn_, rule)
        pa_ = g_.params[1] if len(g_.params) > 1 else None
        bad = False
        for st_ in walk_no_nested(g_.node):
            if isinstance(st_, ast.Assign) and len(st_.targets) == 1 and isinstance(st_.targets[0], ast.Name) and st_.targets[0].id == pa_:
                tr_ = [c.func.attr for c in ast.walk(st_.value) if isinstance(c, ast.Call) and isinstance(c.func, ast.Attribute) and c.func.attr in _TEXT_TRANSFORMS
                       and any(isinstance(x, ast.Name) and x.id == pa_ for x in ast.walk(c.func.value))]
                if tr_:
                    bad = True
                    ctx.bad(rule, g_, st_, f"{qn_} files its work under `{norm(st_.value)}`, not under the annotator it was given: names that differ only by what "
                            f".{tr_[0]}() removes or changes collapse into one annotator and the name passed in is not among the continuum's annotators", key=f"key-transformed:{qn_}")
        if not bad:
            n += 1
            ctx.ok(rule, g_, None, f"{qn_} does not transform the annotator name it is given", construct="annotator key", key=f"key-verbatim:{qn_}")
    return n


def _init_precedes_window_measure(ctx: Ctx) -> bool:
    """in Continuum.compute_gamma, sampler.init_sampling(...) is evaluated before self.measure_best_window_size(...) (structural order)"""
    g = ctx.model.functions.get("Continuum.compute_gamma")
    if g is None:
        return False
    order = source_order(g.node)
    ini = [c for c in walk_no_nested(g.node) if isinstance(c, ast.Call) and isinstance(c.func, ast.Attribute) and c.func.attr == "init_sampling"]
    mea = [c for c in walk_no_nested(g.node) if isinstance(c, ast.Call) and isinstance(c.func, ast.Attribute) and c.func.attr == "measure_best_window_size"]
    return bool(ini) and bool(mea) and max(order[id(c)] for c in ini) < min(order[id(c)] for c in mea)


def _routed_through_mapping(fnode: ast.AST, x: ast.AST, par: str) -> Optional[str]:
    """`x` (the stored value, locals expanded) is the values / keys / elements of a local mapping or set that a loop over parameter `par`
    fills one entry per element, keyed by something computed from the element (or a mapping / set built from `par` in one expression):
    returns the name of the collapsing container, None when the shape is anything else"""
    # one expression: list(SortedDict((k(u), u) for u in par).values()), set(par), {k(u): u for u in par}.values()
    for c in ast.walk(x):
        if isinstance(c, (ast.DictComp, ast.SetComp)) and any(isinstance(n, ast.Name) and n.id == par for g in c.generators for n in ast.walk(g.iter)):
            return "a dict / set display"
        if isinstance(c, ast.Call) and (dotted(c.func) or "").split(".")[-1] in _SLOT_COLLAPSING and any(isinstance(n, ast.Name) and n.id == par for a in c.args for n in ast.walk(a)):
            return dotted(c.func).split(".")[-1]
    # a local container filled by a loop over the parameter
    y = x
    if isinstance(y, ast.Call) and isinstance(y.func, ast.Attribute) and y.func.attr in ("values", "keys", "items") and not y.args:
        y = y.func.value
    if not isinstance(y, ast.Name):
        return None
    binds = [s for s in stores_to(fnode, y.id) if isinstance(s, ast.Assign)]
    if len(binds) != 1:
        return None
    ctor = binds[0].value
    kind = None
    if isinstance(ctor, ast.Call) and (dotted(ctor.func) or "").split(".")[-1] in _SLOT_COLLAPSING and not ctor.args:
        kind = dotted(ctor.func).split(".")[-1]
    elif isinstance(ctor, ast.Dict) and not ctor.keys:
        kind = "a dict"
    if kind is None:
        return None
    for loop in walk_no_nested(fnode):
        if isinstance(loop, ast.For) and isinstance(loop.iter, ast.Name) and loop.iter.id == par and isinstance(loop.target, ast.Name):
            for s in ast.walk(loop):
                if isinstance(s, ast.Assign) and isinstance(s.targets[0], ast.Subscript) and norm(s.targets[0].value) == y.id and norm(s.value) == loop.target.id:
                    return kind
                if isinstance(s, ast.Call) and isinstance(s.func, ast.Attribute) and norm(s.func.value) == y.id and s.func.attr in ("add", "setdefault") and \
                        s.args and norm(s.args[-1]) == loop.target.id:
                    return kind
    return None


def _transparent_property(getter, setter) -> bool:
    """getter is `return self.B`, setter is `self.B = <its parameter>`, nothing else in either (docstrings aside)"""
    def body(fn):
        return [s for s in fn.node.body if not (isinstance(s, ast.Expr) and isinstance(s.value, ast.Constant) and isinstance(s.value.value, str))]
    gb, sb = body(getter), body(setter)
    if len(gb) != 1 or len(sb) != 1 or len(setter.params) != 2:
        return False
    r, a = gb[0], sb[0]
    return isinstance(r, ast.Return) and isinstance(r.value, ast.Attribute) and norm(r.value.value) == getter.self_name and \
        isinstance(a, ast.Assign) and len(a.targets) == 1 and norm(a.targets[0]) == f"{setter.self_name}.{r.value.attr}" and \
        isinstance(a.value, ast.Name) and a.value.id == setter.params[1]


_CONSUMING_BUILTINS = {"list", "tuple", "sorted", "set", "frozenset", "next", "any", "all", "min", "max", "sum", "len", "dict", "SortedSet", "SortedList", "reversed"}


def _consumed_before(M: Model, f: FuncInfo, par: str, store: ast.stmt) -> Optional[ast.AST]:
    """a use of parameter `par`, other than in `store`, that walks it (a loop / comprehension over it, a consuming builtin, a package function whose
    own parameter is walked): the node of that use, or None"""
    in_store = {id(x) for x in ast.walk(store)}
    order = source_order(f.node)
    # the pass that makes the stored value is the one allowed pass: when the stored value does not read the parameter itself (it was built by a loop over
    # it), that loop is the allowed one
    store_reads_par = any(isinstance(x, ast.Name) and x.id == par for x in ast.walk(store.value))
    allowance = [0 if store_reads_par else 1]

    def walks(g: FuncInfo, pname: str, depth=0) -> bool:
        for n in walk_no_nested(g.node):
            if isinstance(n, ast.For) and isinstance(n.iter, ast.Name) and n.iter.id == pname:
                return True
            if isinstance(n, (ast.ListComp, ast.SetComp, ast.GeneratorExp, ast.DictComp)) and any(isinstance(c.iter, ast.Name) and c.iter.id == pname for c in n.generators):
                return True
            if isinstance(n, ast.Call):
                fn_ = (dotted(n.func) or "").split(".")[-1]
                hit = [i for i, a in enumerate(n.args) if isinstance(a, ast.Name) and a.id == pname]
                if hit and fn_ in _CONSUMING_BUILTINS:
                    return True
                if hit and depth < 3:
                    h = M.functions.get(fn_)
                    if h is not None and not isinstance(h.node, ast.Lambda) and hit[0] < len(h.params) and walks(h, h.params[hit[0]], depth + 1):
                        return True
        return False
    for n in walk_no_nested(f.node):
        if id(n) in in_store or order.get(id(n), 0) > order.get(id(store), 0):
            continue
        if isinstance(n, ast.For) and isinstance(n.iter, ast.Name) and n.iter.id == par:
            if allowance[0]:
                allowance[0] -= 1
                continue
            return n.iter
        if isinstance(n, (ast.ListComp, ast.SetComp, ast.GeneratorExp, ast.DictComp)) and any(isinstance(c.iter, ast.Name) and c.iter.id == par for c in n.generators):
            if allowance[0]:
                allowance[0] -= 1
                continue
            return n
        if isinstance(n, ast.Call):
            fn_ = (dotted(n.func) or "").split(".")[-1]
            if fn_ == "next" and n.args and isinstance(n.args[0], ast.Call) and dotted(n.args[0].func) == "iter" and n.args[0].args and \
                    isinstance(n.args[0].args[0], ast.Name) and n.args[0].args[0].id == par:
                return n
            hit = [i for i, a in enumerate(n.args) if isinstance(a, ast.Name) and a.id == par]
            if not hit:
                continue
            if fn_ in _CONSUMING_BUILTINS and fn_ != "len":
                return n
            h = M.functions.get(fn_)
            if h is not None and not isinstance(h.node, ast.Lambda) and hit[0] < len(h.params) and walks(h, h.params[hit[0]]):
                return n
    return None


def check_alignment_record(ctx: Ctx, rule: str):
    """`Alignment(unitary_alignments, continuum, check_validity, disorder)` is how every alignment function hands back its result: the
    constructor keeps every unitary alignment it is given (a filter drops some: recognised shape, wrong slot), the continuum and the
    disorder it is given; SoftAlignment forwards its four arguments to it, each to its own parameter."""
    M = ctx.model
    if ("alignment-record", rule) in ctx.notes.setdefault("records_checked", set()):
        return
    ctx.notes["records_checked"].add(("alignment-record", rule))
    f = M.functions.get("Alignment.__init__")
    if f is None:
        ctx.undecided(rule, None, None, "Alignment.__init__ not found", construct="Alignment.__init__", key="al-record")
        return
    ctx.functions_analysed.add(f.qualname)
    sn = f.self_name
    ps = f.params
    if len(ps) < 5:
        ctx.undecided(rule, f, None, "Alignment.__init__(self, unitary_alignments, continuum, check_validity, disorder) expected", key="al-record")
        return
    D = backing_field(M, "Alignment", "disorder", "_disorder")
    for fld, par in (("unitary_alignments", ps[1]), ("continuum", ps[2]), (D, ps[4])):
        st = [s for s in walk_no_nested(f.node) if isinstance(s, ast.Assign) and norm(s.targets[0]) == f"{sn}.{fld}"]
        key = f"al-record:{fld}"
        if len(st) != 1:
            ctx.undecided(rule, f, None, f"Alignment.__init__ stores {fld} {len(st)} times (not a verdict)", key=key, construct=fld)
            continue
        if fld == "unitary_alignments":
            # the argument is any iterable, possibly one that can be walked once: nothing may take elements from it before it is stored
            early = _consumed_before(M, f, par, st[0])
            if early is not None:
                # the library's own callers hand over lists: a verdict for the property about alignments users build (C17), reported elsewhere
                (ctx.bad if rule.startswith("R-C17") else ctx.undecided)(rule, f, early, f"Alignment.__init__ takes elements from `{par}` (`{norm(early)[:80]}`) before storing it: given a one-shot iterable (a generator, "
                        f"`iter(...)`, `map`, what take_until_limit returns), the unitary alignments taken by that first pass are missing from the alignment that is "
                        f"kept - and checked" + ("" if rule.startswith("R-C17") else " (not a verdict)"), key=key + ":consumed")
                continue
        v = expand_locals(f.node, st[0].value)
        x = v
        while isinstance(x, ast.Call) and dotted(x.func) in ("list", "tuple") and len(x.args) == 1 and not x.keywords:
            x = x.args[0]
        # the field is a plain attribute: a property / descriptor of that name decides what the store keeps and what a read gives back
        if fld in ("unitary_alignments", "continuum"):
            cls_ = M.classes.get("Alignment")
            acc = [a for a in (M.find_getter(cls_, fld), M.find_setter(cls_, fld)) if a is not None] if cls_ is not None else []
            desc = [s for k in (M.mro(cls_) if cls_ is not None else []) for s in k.node.body
                    if isinstance(s, (ast.Assign, ast.AnnAssign)) and getattr(s, "value", None) is not None and
                    any(isinstance(t, ast.Name) and t.id == fld for t in (s.targets if isinstance(s, ast.Assign) else [s.target]))]
            if len(acc) == 2 and not desc and _transparent_property(acc[0], acc[1]):
                acc = []
            if acc or desc:
                weak = [c for a in acc for c in ast.walk(a.node) if isinstance(c, ast.Call) and (dotted(c.func) or "").split(".")[0] in ("weakref", "WeakValueDictionary", "WeakSet", "ref", "proxy")]
                if weak and fld == "continuum" and rule.startswith("R-C17"):
                    ctx.bad(rule, acc[0], weak[0], f"the alignment holds its {fld} through `{norm(weak[0])}`: it does not keep what it was given at instantiation - once the caller "
                            f"drops its own reference, `check()` without argument no longer checks against that continuum", key=key)
                else:
                    ctx.undecided(rule, acc[0] if acc else f, acc[0].node if acc else desc[0], f"Alignment.{fld} is a property / descriptor, not a plain attribute: what the store keeps is "
                                  f"decided there (not a verdict)", key=key, construct=fld)
                continue
        if isinstance(x, ast.Call) and (dotted(x.func) or "").split(".")[0] == "weakref" and any(isinstance(n, ast.Name) and n.id == par for n in ast.walk(x)):
            if fld == "continuum" and rule.startswith("R-C17"):
                ctx.bad(rule, f, st[0], f"the alignment holds its {fld} through `{norm(x)}`: it does not keep what it was given at instantiation", key=key)
            else:
                ctx.undecided(rule, f, st[0], f"Alignment.__init__ stores `{norm(v)}` as {fld}, not the argument itself (not a verdict)", key=key)
            continue
        if isinstance(x, ast.Name) and x.id == par:
            ctx.ok(rule, f, st[0], f"the alignment keeps the {fld} it is given", key=key)
            continue
        filtering = (isinstance(x, (ast.ListComp, ast.GeneratorExp, ast.SetComp)) and any(g.ifs for g in x.generators)) or \
            (isinstance(x, ast.Call) and dotted(x.func) == "filter")
        if fld == "unitary_alignments" and filtering and any(isinstance(n, ast.Name) and n.id == par for n in ast.walk(x)):
            ctx.bad(rule, f, st[0], f"Alignment.__init__ keeps only some of the unitary alignments it is given (`{norm(v)}`): the units of the dropped ones are in no "
                    f"unitary alignment of the result", key=key)
        else:
            through = _routed_through_mapping(f.node, x, par) if fld == "unitary_alignments" else None
            if through:
                ctx.bad(rule, f, st[0], f"Alignment.__init__ routes the unitary alignments through {through} before storing them: one per distinct key survives, so the units "
                        f"of the others are in no unitary alignment of the result", key=key)
            else:
                ctx.undecided(rule, f, st[0], f"Alignment.__init__ stores `{norm(v)}` as {fld}, not the argument itself (not a verdict)", key=key)
    g = M.functions.get("SoftAlignment.__init__")
    if g is not None:
        ctx.functions_analysed.add(g.qualname)
        sup = [c for c in walk_no_nested(g.node) if isinstance(c, ast.Call) and norm(c.func) == "super().__init__"]
        if len(sup) != 1:
            ctx.undecided(rule, g, None, "SoftAlignment.__init__ does not call super().__init__ exactly once (not a verdict)", key="al-record:soft", construct="super().__init__")
        else:
            b = bound_args(sup[0], f)
            if b is None:
                ctx.undecided(rule, g, sup[0], "arguments of super().__init__ not bindable (not a verdict)", key="al-record:soft")
            else:
                gp = g.params[1:5]
                wrong = [(p, norm(a)) for p, a in b.items() if p in ps[1:5] and isinstance(a, ast.Name) and a.id in gp and gp.index(a.id) != ps[1:5].index(p)]
                ctx.check(not wrong, rule, g, sup[0], "SoftAlignment forwards each constructor argument to the parameter of the same role",
                          bad_detail=f"SoftAlignment hands {wrong} to the wrong parameter of Alignment.__init__", key="al-record:soft")


def check_sampler_init(ctx: Ctx, rule: str):
    """`sampler.init_sampling(continuum, ground_truth_annotators)` is a dispatched call: every implementation a sampler object can run must,
    on every path that returns normally, record the reference and the ground-truth annotators *of this call* - the base class by storing both
    fields, an override by reaching super().init_sampling with its own two parameters.  A normal return that skips it leaves the sampler
    drawing from whatever an earlier call recorded."""
    from ..cfg import CFG, EXIT
    M = ctx.model
    impls = M.dispatch("AbstractContinuumSampler", "init_sampling")
    if not impls:
        ctx.undecided(rule, None, None, "no implementation of AbstractContinuumSampler.init_sampling found", construct="init_sampling", key="sampler-init")
        return
    # an initialisation starts from nothing: a field of the sampler that an initialisation (or an estimator it calls on self) grows in place -
    # append / extend / add / update / += / a store into it - must have been bound afresh earlier in the same function, or it still holds what
    # every earlier initialisation of the same object put there
    seen_fns = set()
    for f in impls:
        todo = [f] + [g for c in walk_no_nested(f.node) if isinstance(c, ast.Call) and isinstance(c.func, ast.Attribute) and norm(c.func.value) == f.self_name
                      for g in [M.find_method(f.cls, c.func.attr)] if g is not None]
        for g in todo:
            if g.qualname in seen_fns or not g.self_name:
                continue
            seen_fns.add(g.qualname)
            order_g = source_order(g.node)
            fresh = {}
            for s_ in walk_no_nested(g.node):
                if isinstance(s_, ast.Assign):
                    for t in s_.targets:
                        if isinstance(t, ast.Attribute) and norm(t.value) == g.self_name:
                            fresh.setdefault(t.attr, order_g[id(s_)])
            for x in walk_no_nested(g.node):
                fld = None
                if isinstance(x, ast.Call) and isinstance(x.func, ast.Attribute) and x.func.attr in ("append", "extend", "add", "update", "insert", "setdefault") and \
                        isinstance(x.func.value, ast.Attribute) and norm(x.func.value.value) == g.self_name:
                    fld = x.func.value.attr
                elif isinstance(x, ast.AugAssign) and not getattr(x, "rebinds", False):
                    t = x.target
                    while isinstance(t, ast.Subscript):
                        t = t.value
                    if isinstance(t, ast.Attribute) and norm(t.value) == g.self_name:
                        fld = t.attr
                if fld is None:
                    continue
                if fld in fresh and fresh[fld] < order_g[id(x)]:
                    continue
                ctx.bad(rule, g, x, f"{g.qualname} grows `{g.self_name}.{fld}` in place (`{norm(x)[:70]}`) without binding it afresh first: a sampler initialised a second time still "
                        f"holds what the first initialisation put there, so what it measures - and every sample drawn afterwards - depends on the object's history",
                        key=f"sampler-init:accumulates:{g.qualname}:{fld}")
    for f in impls:
        ctx.functions_analysed.add(f.qualname)
        sn = f.self_name
        if len(f.params) < 3:
            ctx.undecided(rule, f, None, f"{f.qualname}: (self, reference, ground_truth_annotators) expected", key=f"sampler-init:{f.qualname}", construct="init_sampling")
            continue
        p_ref, p_gt = f.params[1:3]
        cfg = CFG(f.node)
        if f.cls.name == "AbstractContinuumSampler":
            # nothing an earlier call recorded may flow into what this call records: a read of the ground-truth field anywhere, or of the
            # reference field before this call has stored it, brings the previous initialisation's value along
            order_ = source_order(f.node)
            ref_stores_ = [s for s in walk_no_nested(f.node) if isinstance(s, ast.Assign) and norm(s.targets[0]) == f"{sn}._reference_continuum"]
            first_ref_ = min((order_[id(s)] for s in ref_stores_), default=None)
            stale_ = None
            for x in walk_no_nested(f.node):
                if isinstance(x, ast.Attribute) and isinstance(x.ctx, ast.Load) and isinstance(x.value, ast.Name) and x.value.id == sn:
                    if x.attr == "_ground_truth_annotators":
                        stale_ = stale_ or x
                    elif x.attr == "_reference_continuum" and (first_ref_ is None or order_[id(x)] < first_ref_):
                        stale_ = stale_ or x
            if stale_ is not None:
                ctx.bad(rule, f, stale_, f"{f.qualname} reads `{norm(stale_)}` as an earlier initialisation left it: what this call records depends on the previous reference / "
                        f"ground truth of the same sampler object (a second initialisation without ground truth keeps the annotators of the first)", key="sampler-init:stale-read")
                continue
            groups = []
            for fld, ok_value in (("_reference_continuum", lambda v: norm(v) == p_ref),
                                  ("_ground_truth_annotators", lambda v: p_gt in {n.id for n in ast.walk(v) if isinstance(n, ast.Name)} or
                                   norm(v) in (f"{sn}._reference_continuum.annotators", f"{p_ref}.annotators"))):
                st = [s for s in walk_no_nested(f.node) if isinstance(s, ast.Assign) and norm(s.targets[0]) == f"{sn}.{fld}"]
                good = [s for s in st if ok_value(s.value)]
                snap = [s for s in st if s not in good and fld == "_reference_continuum" and
                        norm(s.value) in (f"{p_ref}.copy()", f"deepcopy({p_ref})", f"copy.deepcopy({p_ref})", f"copy.copy({p_ref})", f"{p_ref}.copy_flush()", f"{p_ref} + {p_ref}")]
                if snap and _init_precedes_window_measure(ctx):
                    ctx.bad(rule, f, snap[0], f"{f.qualname} keeps a snapshot (`{norm(snap[0].value)}`) of the reference instead of the continuum itself, and compute_gamma "
                            f"initialises the sampler *before* it measures and records this call's window size on the continuum: every chance sample (copy_flush of the "
                            f"snapshot) carries the window size of an earlier call, so chance alignments are not the kind of alignment the observed one is", key=f"sampler-init:{fld}")
                    groups = None
                    break
                if len(good) != len(st):
                    ctx.undecided(rule, f, next(s for s in st if s not in good), f"{f.qualname}: a store into {fld} whose value is not derived from this call's argument (not a verdict)",
                                  key=f"sampler-init:{fld}")
                    groups = None
                    break
                groups.append((fld, [cfg.node_of(s) for s in st]))
            if groups is None:
                continue
            # the store that runs when ground-truth annotators ARE given must be made from them
            def given(t):
                if isinstance(t, ast.Compare) and len(t.ops) == 1 and norm(t.left) == p_gt and isinstance(t.comparators[0], ast.Constant) and t.comparators[0].value is None:
                    return True if isinstance(t.ops[0], ast.IsNot) else (False if isinstance(t.ops[0], ast.Is) else None)
                if norm(t) == p_gt:
                    return True
                return None
            for s in [x for x in walk_no_nested(f.node) if isinstance(x, ast.Assign) and norm(x.targets[0]) == f"{sn}._ground_truth_annotators"]:
                ks = [(given(t) == pol) for t, pol in conditions_at(f.node, s) if given(t) is not None]
                if ks and not all(ks):
                    continue                      # runs only when no ground truth was given
                uses = p_gt in {n.id for n in ast.walk(s.value) if isinstance(n, ast.Name)}
                ctx.check(uses, rule, f, s, "the ground-truth annotators that were given are the ones recorded",
                          bad_detail=f"when ground-truth annotators are given, {f.qualname} records `{norm(s.value)}` instead: chance continua are drawn from annotators the caller excluded",
                          key="sampler-init:given")
                # ... as a set of names: the samplers make one annotator (one batch of units, one translated copy) per *entry* of the field
                if uses:
                    v_ = s.value
                    if isinstance(v_, ast.Name) and v_.id == p_gt:
                        reb = [r for r in stores_to(f.node, p_gt) if isinstance(r, ast.Assign)]
                        v_ = reb[-1].value if len(reb) == 1 else v_
                    seq = (isinstance(v_, ast.Name) and v_.id == p_gt) or \
                        (isinstance(v_, ast.Call) and dotted(v_.func) in ("list", "sorted", "tuple") and v_.args and norm(v_.args[0]) == p_gt) or \
                        (isinstance(v_, (ast.List, ast.Tuple)) and len(v_.elts) == 1 and isinstance(v_.elts[0], ast.Starred) and norm(v_.elts[0].value) == p_gt) or \
                        (isinstance(v_, ast.ListComp) and len(v_.generators) == 1 and norm(v_.generators[0].iter) == p_gt)
                    if seq:
                        ctx.bad(rule, f, s, f"{f.qualname} records the ground-truth annotators as the sequence `{norm(v_)}`, not as a set of names: a name that occurs twice in "
                                f"what the caller passed is two entries, and the samplers produce one annotator's worth of units per entry", key="sampler-init:given-set")
                    else:
                        ctx.ok(rule, f, s, "the ground-truth annotators are recorded through a set constructor", key="sampler-init:given-set")
            for fld, nodes in groups:
                ctx.check(bool(nodes) and cfg.must_pass(EXIT, [n for n in nodes if n is not None]), rule, f, None,
                          f"every normal return of {f.qualname} has stored {fld} from this call's arguments",
                          bad_detail=f"{f.qualname} can return normally without storing {fld}: the sampler keeps what an earlier call recorded",
                          construct=fld, key=f"sampler-init:{fld}")
        else:
            sup = [s for s in walk_no_nested(f.node) if isinstance(s, ast.Expr) and isinstance(s.value, ast.Call) and norm(s.value.func) == "super().init_sampling"]
            base_ = M.fn('AbstractContinuumSampler.init_sampling', rule)
            def _same_args(c):
                ba = bound_args(c, base_)
                return ba is not None and len(base_.params) >= 3 and norm(ba.get(base_.params[1])) == p_ref and norm(ba.get(base_.params[2])) == p_gt
            args_ok = [s for s in sup if _same_args(s.value)]
            if len(args_ok) != len(sup):
                ctx.undecided(rule, f, sup[0], f"{f.qualname}: super().init_sampling is not called with this call's (reference, ground truth) (not a verdict)",
                              key=f"sampler-init:{f.qualname}")
                continue
            # what the base recorded stays what the sampler holds: an override that stores something else into the reference / ground-truth
            # fields afterwards (a filtered copy, a snapshot) makes every quantity read from `the reference` a quantity of another continuum
            over = [s for s in walk_no_nested(f.node) if isinstance(s, (ast.Assign, ast.AugAssign)) for t in (s.targets if isinstance(s, ast.Assign) else [s.target])
                    if norm(t) in (f"{sn}._reference_continuum", f"{sn}._ground_truth_annotators") and norm(getattr(s, "value", None)) not in (p_ref, p_gt)]
            if over:
                ctx.bad(rule, f, over[0], f"{f.qualname} replaces what super().init_sampling recorded (`{norm(over[0])[:80]}`): the sampler no longer holds the continuum / the "
                        f"ground truth it was given, so the bounds, the average unit length and the units it samples from are those of another object",
                        key=f"sampler-init:override-store:{f.qualname}")
                continue
            nodes = [cfg.node_of(s) for s in sup]
            ctx.check(bool(nodes) and cfg.must_pass(EXIT, [n for n in nodes if n is not None]), rule, f, None,
                      f"every normal return of {f.qualname} has passed super().init_sampling({p_ref}, {p_gt})",
                      bad_detail=f"{f.qualname} can return normally without reaching super().init_sampling({p_ref}, {p_gt}): the reference and the ground-truth annotators of this "
                                 f"call are not recorded and the sampler keeps drawing from what an earlier call left",
                      construct="init_sampling", key=f"sampler-init:{f.qualname}")


_STATEFUL_LIBS = ("numpy", "random", "numba", "sortedcontainers", "os", "sys", "pyannote")       # solver libraries: ilp.check_solver_options judges their option tables


def check_module_effects(ctx: Ctx, rule: str = "R-MODULE-EFFECTS"):
    """closedness guard: the rules read functions.  Importing the package must not, as a side effect, change the state of a library the
    computations run on (numpy's / random's generator state or error mode, numba's configuration, the environment):
    such a statement at module level is executed once per process and is in no function any rule analyses.  Reported UNDECIDED (not a
    verdict); properties with a rule about a specific table (solver options: C02 / C08 / C11) judge that one themselves."""
    M = ctx.model
    n = 0

    def top_level(stmts):
        for s in stmts:
            if isinstance(s, (ast.FunctionDef, ast.AsyncFunctionDef, ast.ClassDef)):
                continue
            yield s
            for fld in ("body", "orelse", "finalbody"):
                sub = getattr(s, fld, None)
                if isinstance(sub, list) and sub and isinstance(sub[0], ast.stmt):
                    yield from top_level(sub)
            for h in getattr(s, "handlers", []) or []:
                yield from top_level(h.body)
    for m in M.modules.values():
        lib_names = {}
        for node in top_level(m.tree.body):
            if isinstance(node, ast.Import):
                for al in node.names:
                    if al.name.split(".")[0] in _STATEFUL_LIBS:
                        lib_names[(al.asname or al.name).split(".")[0]] = al.name
            elif isinstance(node, ast.ImportFrom) and node.module and node.module.split(".")[0] in _STATEFUL_LIBS and node.level == 0:
                for al in node.names:
                    lib_names[al.asname or al.name] = f"{node.module}.{al.name}"
        if not lib_names:
            continue

        def root(e):
            while isinstance(e, (ast.Attribute, ast.Subscript, ast.Call)):
                e = e.func if isinstance(e, ast.Call) else e.value
            return e.id if isinstance(e, ast.Name) else None
        for node in top_level(m.tree.body):
            hit = None
            if isinstance(node, (ast.Assign, ast.AugAssign)):
                for t in (node.targets if isinstance(node, ast.Assign) else [node.target]):
                    if isinstance(t, (ast.Attribute, ast.Subscript)) and root(t) in lib_names:
                        hit = t
            elif isinstance(node, ast.Expr) and isinstance(node.value, ast.Call) and isinstance(node.value.func, ast.Attribute) and root(node.value.func) in lib_names:
                hit = node.value
            elif isinstance(node, ast.Delete) and any(root(t) in lib_names for t in node.targets):
                hit = node.targets[0]
            if hit is None:
                continue
            n += 1
            ctx.undecided(rule, None, None, f"{m.relpath}:{getattr(node, 'lineno', 0)}: importing the package executes `{norm(node)[:100]}`, which changes state of "
                          f"{lib_names[root(hit)]} for the whole process; no rule of this property reads module-level code (not a verdict)",
                          construct=f"module level: {norm(hit)[:60]}", key=f"{m.relpath}:{norm(hit)[:60]}")
    return n


_MUTABLE_CTORS = ("list", "dict", "set", "SortedSet", "SortedDict", "SortedList", "defaultdict", "OrderedDict", "Counter", "deque", "bytearray",
                  "np.array", "np.zeros", "np.ones", "np.empty", "np.full", "numpy.array", "numpy.zeros", "numpy.empty", "nb.typed.List", "nb.typed.Dict")


def check_class_state(ctx: Ctx, rule: str = "R-CLASS-STATE", judge: bool = False):
    """closedness guard: the rules read `self.x` as state of *this* object.  A mutable container bound at class level and not rebound by every
    constructor is one object shared by all instances of the class: whatever one instance adds to it, every other instance (the reference and
    its samples, a continuum and its copy) sees.  The properties about independent objects (C13, C14: `judge`) report a class-level container
    that a method mutates in place through self as VIOLATED (recognised shape); for every other property, and for a container nobody mutates,
    it is UNDECIDED (their rules read `self.x` as this object's state)."""
    M = ctx.model
    if ("class-state", judge) in ctx.notes.setdefault("records_checked", set()) or (not judge and ("class-state", True) in ctx.notes["records_checked"]):
        return 0
    ctx.notes["records_checked"].add(("class-state", judge))
    n = 0
    analysed_classes = {M.functions[q].cls.name for q in ctx.functions_analysed if q in M.functions and M.functions[q].cls is not None}
    for c in M.classes.values():
        if not judge and c.name not in analysed_classes and not any(k.name in analysed_classes for k in M.subclasses.get(c.name, [])):
            continue
        for attr, v in c.class_attrs.items():
            mutable = isinstance(v, (ast.List, ast.Dict, ast.Set, ast.ListComp, ast.DictComp, ast.SetComp)) or \
                (isinstance(v, ast.Call) and (dotted(v.func) in _MUTABLE_CTORS or (dotted(v.func) or "").split(".")[-1] in ("SortedSet", "SortedDict", "SortedList", "defaultdict")))
            # an instance of a class of the package, made once when the class body runs: one object for every instance that reads it through self / the class
            shared_obj = isinstance(v, ast.Call) and (dotted(v.func) or "").split(".")[-1] in M.classes and not mutable
            if shared_obj:
                n += 1
                users = [(g, x) for g in list(c.methods.values()) + [m for k in M.subclasses.get(c.name, []) for m in k.methods.values()]
                         for x in walk_no_nested(g.node) if isinstance(x, ast.Attribute) and x.attr == attr and isinstance(x.ctx, ast.Load)]
                if users:
                    g, x = users[0]
                    # does what reads it store into it, directly or through the local it is bound to?
                    names = {t.id for s_ in walk_no_nested(g.node) if isinstance(s_, ast.Assign) and any(y is x for y in ast.walk(s_.value)) for t in s_.targets if isinstance(t, ast.Name)}
                    touched = [s_ for s_ in walk_no_nested(g.node) if isinstance(s_, (ast.Assign, ast.AugAssign)) for t in (s_.targets if isinstance(s_, ast.Assign) else [s_.target])
                               if isinstance(t, ast.Attribute) and isinstance(t.value, ast.Name) and t.value.id in names]
                    if touched and c.name in analysed_classes:
                        ctx.bad(rule, g, touched[0], f"`{c.name}.{attr} = {norm(v)[:50]}` is one object made when the class body runs; {g.qualname} takes it (`{norm(x)}`) and then "
                                f"stores into it (`{norm(touched[0])[:60]}`): every instance that relies on it shares what the last one wrote", key=f"class-state:{c.name}.{attr}",
                                construct=f"{c.name}.{attr}")
                    else:
                        ctx.undecided(rule, g, x, f"`{c.name}.{attr} = {norm(v)[:50]}` is one object shared by every instance of {c.name}; {g.qualname} reads it as if it were its own "
                                      f"(not a verdict)", key=f"class-state:{c.name}.{attr}", construct=f"{c.name}.{attr}")
                continue
            if not mutable:
                continue
            n += 1
            # rebound by every constructor on every path?
            rebound = False
            for k in M.mro(c):
                init = k.methods.get("__init__")
                if init is None:
                    continue
                from ..cfg import CFG, EXIT
                cfg = CFG(init.node)
                sts = [cfg.node_of(s) for s in walk_no_nested(init.node) if isinstance(s, (ast.Assign, ast.AnnAssign)) and getattr(s, "value", None) is not None and
                       any(norm(t) == f"{init.self_name}.{attr}" for t in (s.targets if isinstance(s, ast.Assign) else [s.target]))]
                sts = [x for x in sts if x is not None]
                rebound = bool(sts) and cfg.must_pass(EXIT, sts)
                break
            if rebound:
                continue
            writers = []
            for g in list(c.methods.values()) + list(c.setters.values()) + list(c.getters.values()) + \
                    [m for k in M.subclasses.get(c.name, []) for m in k.methods.values()]:
                sn = g.self_name
                if not sn:
                    continue
                for x in walk_no_nested(g.node):
                    if isinstance(x, ast.Call) and isinstance(x.func, ast.Attribute) and norm(x.func.value) == f"{sn}.{attr}" and \
                            x.func.attr in ("add", "append", "extend", "update", "insert", "remove", "discard", "pop", "clear", "setdefault", "sort", "popitem", "fill", "__setitem__"):
                        writers.append((g, x))
                    elif isinstance(x, (ast.Assign, ast.AugAssign)):
                        for t in (x.targets if isinstance(x, ast.Assign) else [x.target]):
                            if isinstance(t, ast.Subscript) and norm(t.value) == f"{sn}.{attr}":
                                writers.append((g, x))
                            elif isinstance(x, ast.AugAssign) and norm(t) == f"{sn}.{attr}":
                                writers.append((g, x))
            cf = next(iter(c.methods.values()), None)
            if writers and not judge:
                g, x = writers[0]
                ctx.undecided(rule, g, x, f"`{c.name}.{attr} = {norm(v)[:50]}` is one object shared by every instance of {c.name} (bound at class level, not rebound by the "
                              f"constructor on every path) and `{norm(x)[:60]}` mutates it: the rules of this property read `self.{attr}` as this object's own state "
                              f"(not a verdict; the properties about independent objects judge it)", key=f"class-state:{c.name}.{attr}")
            elif writers:
                g, x = writers[0]
                ctx.bad(rule, g, x, f"`{c.name}.{attr} = {norm(v)[:50]}` is bound once, at class level, and no constructor rebinds it on every path: `{norm(x)[:70]}` "
                        f"in {g.qualname} mutates the one object every instance of {c.name} shares - instances (a continuum and its copies, a reference and its samples) "
                        f"are not independent", key=f"class-state:{c.name}.{attr}")
            else:
                ctx.undecided(rule, cf, None, f"`{c.name}.{attr} = {norm(v)[:50]}` is a mutable object bound at class level and shared by all instances; no in-place "
                              f"mutation through self was found (not a verdict)", construct=f"{c.name}.{attr}", key=f"class-state:{c.name}.{attr}")
    return n


PINNED_SPECIAL_METHODS = {
    "Alignment": {"__getitem__", "__iter__"}, "Unit": {"__lt__"},
    "Continuum": {"__add__", "__bool__", "__eq__", "__getitem__", "__iter__", "__len__", "__ne__"},
    "Notebook": {"__call__", "__getitem__"},
}
_HARMLESS_SPECIAL_METHODS = {"__init__", "__repr__", "__str__", "__format__", "__doc__", "__class_getitem__", "__sizeof__", "__dir__"}


def _classes_built_in(ctx: Ctx) -> Set[str]:
    """package classes whose constructor is called in a function this property analysed (their objects are made there: what the class does when
    an object is made or compared is part of what those functions do)"""
    M = ctx.model
    out = set()
    for q in ctx.functions_analysed:
        f = M.functions.get(q)
        if f is None:
            continue
        for c in ast.walk(f.node):
            if isinstance(c, ast.Call):
                nm = (dotted(c.func) or "").split(".")[-1]
                if nm in M.classes:
                    out.add(nm)
    return out


def check_field_accessors(ctx: Ctx, rule: str = "R-FIELD-ACCESSORS"):
    """closedness guard: the rules read `obj.x = v` as a store of v and `obj.x` as a read of what was stored.  A data descriptor bound at class
    level, or a property with a setter, under the name of a field decides both.  The pinned tree has two such pairs (table below, covered by the
    record rules); another one whose name a function of this property reads or writes is accepted when it is the transparent pair (`return
    self._x` / `self._x = value`) and reported UNDECIDED otherwise (not a verdict)."""
    M = ctx.model
    n = 0
    mentioned: Set[str] = set()
    for q in ctx.functions_analysed:
        f = M.functions.get(q)
        if f is not None:
            mentioned |= {x.attr for x in ast.walk(f.node) if isinstance(x, ast.Attribute)}
    for cn, c in sorted(M.classes.items()):
        if c.module.name.endswith("notebook"):
            continue
        for name, st in sorted(c.setters.items()):
            if name in PINNED_SETTERS.get(cn, set()) or name not in mentioned:
                continue
            g = c.getters.get(name)
            n += 1
            if g is not None and _transparent_property(g, st):
                ctx.ok(rule, st, None, f"{cn}.{name} is a transparent getter / setter pair", construct=f"{cn}.{name}", key=f"accessor:{cn}.{name}")
            else:
                ctx.undecided(rule, st, None, f"{cn}.{name} is a property with a setter that the pinned tree does not have: a store to `.{name}` runs that code and a read gives "
                              f"what the getter makes of it, which the rules of this property read as a plain field (not a verdict)", construct=f"{cn}.{name}",
                              key=f"accessor:{cn}.{name}")
        for s_ in c.node.body:
            tg = s_.targets if isinstance(s_, ast.Assign) else [s_.target] if isinstance(s_, ast.AnnAssign) and s_.value is not None else []
            for t in tg:
                if isinstance(t, ast.Name) and t.id in mentioned and isinstance(s_.value, ast.Call) and \
                        ((dotted(s_.value.func) or "").split(".")[-1] in M.classes or (dotted(s_.value.func) or "") in ("property", "functools.cached_property", "cached_property")):
                    n += 1
                    ctx.undecided(rule, None, s_, f"{cn}.{t.id} is bound at class level to `{norm(s_.value)}` (a descriptor object): reads and stores of `.{t.id}` on instances go "
                                  f"through it, which the rules of this property read as a plain field (not a verdict)", construct=f"{cn}.{t.id}", key=f"descriptor:{cn}.{t.id}")
    return n


PINNED_SETTERS = {"UnitaryAlignment": {"disorder", "n_tuple"}, "Notebook": {"crop", "width"}}


def check_special_methods(ctx: Ctx, rule: str = "R-SPECIAL-METHODS"):
    """closedness guard: special methods change what the language itself does with an object - `copy.deepcopy` (`__deepcopy__`, `__reduce__`),
    hashing and equality in sets / dict keys (`__hash__`, `__eq__`), truthiness and `len` (`__bool__`, `__len__`), attribute access
    (`__getattr__`, `__setattr__`), ordering, iteration, `in`.  The rules were written against the special methods of the pinned tree (table
    above); another one on a class this property analysed is reported UNDECIDED (not a verdict)."""
    M = ctx.model
    n = 0
    analysed_classes = {M.functions[q].cls.name for q in ctx.functions_analysed if q in M.functions and M.functions[q].cls is not None}
    related = set(analysed_classes)
    for cn in analysed_classes:
        related |= {k.name for k in M.mro(M.classes[cn])} | {k.name for k in M.subclasses.get(cn, [])}
    related |= _classes_built_in(ctx)
    for cn in sorted(related):
        c = M.classes.get(cn)
        if c is None:
            continue
        for name, g in list(c.methods.items()) + list(c.getters.items()):
            if not (name.startswith("__") and name.endswith("__")) or name in _HARMLESS_SPECIAL_METHODS or name in PINNED_SPECIAL_METHODS.get(cn, set()):
                continue
            n += 1
            ctx.undecided(rule, g, None, f"{cn} defines {name}, which the pinned tree does not: it changes how Python itself copies / hashes / compares / tests / "
                          f"accesses instances of {cn}, and the rules of this property were not written with it in mind (not a verdict)",
                          construct=f"{cn}.{name}", key=f"{cn}.{name}")
    return n


TRUSTED_NAMES = {"Segment": ("pyannote.core.Segment", "pyannote.core.segment.Segment"), "SortedSet": ("sortedcontainers.SortedSet",),
                 "SortedDict": ("sortedcontainers.SortedDict",), "deepcopy": ("copy.deepcopy",), "ThreadPoolExecutor": ("concurrent.futures.ThreadPoolExecutor",),
                 "np": ("numpy",), "numpy": ("numpy",), "nb": ("numba",), "cp": ("cvxpy",), "random": ("random",), "csv": ("csv",),
                 "Counter": ("collections.Counter",), "total_ordering": ("functools.total_ordering",), "dataclass": ("dataclasses.dataclass",)}
PINNED_BASES = {"Alignment": ["AbstractAlignment"], "SoftAlignment": ["Alignment"], "UnitaryAlignment": [], "AbstractAlignment": [], "Unit": [], "Continuum": [],
                "GammaResults": [], "CorpusShufflingTool": [], "AbstractDissimilarity": [], "PositionalSporadicDissimilarity": ["AbstractDissimilarity"],
                "CategoricalDissimilarity": ["AbstractDissimilarity"], "AbsoluteCategoricalDissimilarity": ["CategoricalDissimilarity"],
                "PrecomputedCategoricalDissimilarity": ["CategoricalDissimilarity"], "LambdaCategoricalDissimilarity": ["PrecomputedCategoricalDissimilarity"],
                "LevenshteinCategoricalDissimilarity": ["LambdaCategoricalDissimilarity"], "OrdinalCategoricalDissimilarity": ["PrecomputedCategoricalDissimilarity"],
                "NumericalCategoricalDissimilarity": ["OrdinalCategoricalDissimilarity"], "CombinedCategoricalDissimilarity": ["AbstractDissimilarity"],
                "AbstractContinuumSampler": [], "ShuffleContinuumSampler": ["AbstractContinuumSampler"], "StatisticalContinuumSampler": ["AbstractContinuumSampler"],
                "SetPartitionError": ["Exception"]}


def check_program_shape(ctx: Ctx, rule: str = "R-PROGRAM-SHAPE"):
    """closedness guard on what the names mean: (a) the library names the rules trust (`Segment`, `SortedSet`, `SortedDict`, `deepcopy`, `np`,
    `nb`, `cp`, ...) are bound, in every module, by the import the pinned tree uses - not to a look-alike defined or imported from elsewhere;
    (b) the classes this property analysed derive from the bases of the pinned tree (a mixin or a different parent brings methods no rule
    saw); (c) no statement outside a class body assigns to an attribute of a package class (`Continuum.add = ...`: the method the rules read is
    not the one that runs).  Each is reported UNDECIDED (not a verdict)."""
    M = ctx.model
    n = 0
    for m in M.modules.values():
        if m.name.endswith("notebook"):
            continue
        defined = set(m.classes) | set(m.functions)
        for name, sources in TRUSTED_NAMES.items():
            got = m.aliases.get(name)
            if name in defined:
                n += 1
                ctx.undecided(rule, None, None, f"{m.relpath} defines its own `{name}`: the rules read `{name}` as {sources[0]} (not a verdict)", construct=f"{m.relpath}:{name}",
                              key=f"name:{m.relpath}:{name}")
            elif got is not None and got not in sources and not any(got.startswith(s + ".") or got == s for s in sources):
                n += 1
                ctx.undecided(rule, None, None, f"{m.relpath} binds `{name}` to {got}: the rules read `{name}` as {sources[0]} (not a verdict)", construct=f"{m.relpath}:{name}",
                              key=f"name:{m.relpath}:{name}")
    analysed_classes = {M.functions[q].cls.name for q in ctx.functions_analysed if q in M.functions and M.functions[q].cls is not None}
    for cn in sorted(analysed_classes):
        c = M.classes.get(cn)
        if c is None or cn not in PINNED_BASES:
            continue
        bases = [b.split(".")[-1] for b in c.base_names if b and b.split(".")[-1] not in ("object", "ABC", "Generic")]
        kw = [k.arg for k in c.node.keywords if k.arg not in ("metaclass",)] + [norm(k.value) for k in c.node.keywords if k.arg == "metaclass" and norm(k.value) not in ("ABCMeta", "abc.ABCMeta")]
        if bases != PINNED_BASES[cn] or kw:
            n += 1
            f0 = next(iter(c.methods.values()), None)
            ctx.undecided(rule, f0, None, f"class {cn} derives from {bases or ['object']}{' with ' + str(kw) if kw else ''}; on the pinned tree: {PINNED_BASES[cn] or ['object']}. "
                          f"Methods and special methods it inherits from elsewhere were not read by the rules (not a verdict)", construct=f"class {cn}", key=f"bases:{cn}")
    # (d) a package class that derives from a container of the standard library / sortedcontainers: where it is instantiated, reads and writes
    # of the container run its methods, not the library's (a `__missing__` that registers the key on a failed lookup, an `add` that filters ...)
    containers = ("dict", "list", "set", "SortedDict", "SortedSet", "SortedList", "defaultdict", "OrderedDict", "Counter", "UserDict", "UserList", "deque", "frozenset")
    for c in M.classes.values():
        if not any(b.split(".")[-1] in containers for b in c.base_names):
            continue
        judge = ctx.prop in ("C13", "C14")
        writers = [(g, s_) for g in c.methods.values() if g.self_name for s_ in walk_no_nested(g.node)
                   if isinstance(s_, ast.Assign) and any(isinstance(t, ast.Subscript) and norm(t.value) == g.self_name for tt in s_.targets
                                                           for t in ([tt] if not isinstance(tt, ast.Tuple) else tt.elts))
                   and g.name in ("__missing__", "__getitem__", "get", "__contains__", "__iter__", "__len__")]
        n += 1
        if judge and writers:
            g, s_ = writers[0]
            ctx.bad(rule if ctx.prop != "C13" else "R-C13-2", g, s_, f"{c.name} derives from {c.base_names[0]} and its {g.name} stores into the container (`{norm(s_)[:60]}`): a mere "
                    f"lookup of an absent key registers it - reading the continuum (`c[name]`, a failed remove, iter_annotator) changes its annotators", key=f"container:{c.name}")
        else:
            f0 = next(iter(c.methods.values()), None)
            ctx.undecided(rule, f0, None, f"class {c.name} derives from the container type {c.base_names[0]} and overrides {sorted(c.methods)}: where it replaces the library's "
                          f"container, lookups / insertions / iteration run this code, which no rule of this property read (not a verdict)", construct=f"class {c.name}",
                          key=f"container:{c.name}")
    pkg_classes = set(M.classes)
    for m in M.modules.values():
        for node in ast.walk(m.tree):
            if not isinstance(node, (ast.Assign, ast.AugAssign, ast.Delete)) and not (isinstance(node, ast.Expr) and isinstance(node.value, ast.Call) and
                                                                                       dotted(node.value.func) == "setattr"):
                continue
            targets = node.targets if isinstance(node, (ast.Assign, ast.Delete)) else [node.target] if isinstance(node, ast.AugAssign) else []
            hit = None
            for t in targets:
                if isinstance(t, ast.Attribute) and isinstance(t.value, ast.Name) and t.value.id in pkg_classes | {"SortedSet", "SortedDict", "Segment"}:
                    hit = norm(t)
            if isinstance(node, ast.Expr) and node.value.args and isinstance(node.value.args[0], ast.Name) and node.value.args[0].id in pkg_classes:
                hit = norm(node.value)
            if hit is None:
                continue
            # inside the class body itself `X.attr = ...` at class level is not possible (X undefined); inside methods of X it is the memo idiom other rules judge
            n += 1
            ctx.undecided(rule, None, None, f"{m.relpath}:{getattr(node, 'lineno', 0)}: `{norm(node)[:90]}` assigns to an attribute of a class from outside its body: the "
                          f"attribute / method the rules read on that class may not be the one in effect (not a verdict)", construct=hit, key=f"patch:{hit}")
    return n


_NJIT_SEMANTIC_OPTIONS = ("fastmath", "parallel", "error_model", "boundscheck", "forceobj", "looplift", "nopython", "locals")


def check_njit_options(ctx: Ctx, rule: str = "R-NJIT-OPTIONS"):
    """closedness guard: every rule on a compiled kernel assumes 'numba compiles it with Python's arithmetic and evaluation order'.  Options
    that change that (`fastmath` reassociates float sums and assumes no inf / nan, `parallel` makes reductions order-dependent, `error_model`
    changes division) on a kernel this property analysed are reported UNDECIDED: the assumption is the package's to keep."""
    M = ctx.model
    n = 0

    def options_of(e: ast.AST):
        # nb.njit(sig, fastmath=True)  /  nb.njit(fastmath=True)(...)  -> keyword names with a value that is not False/None
        out = []
        for c in ast.walk(e):
            if isinstance(c, ast.Call) and (dotted(c.func) or "").split(".")[-1] in ("njit", "jit", "vectorize", "guvectorize", "cfunc"):
                out += [(k.arg, k.value) for k in c.keywords if k.arg in _NJIT_SEMANTIC_OPTIONS and not (isinstance(k.value, ast.Constant) and k.value.value in (False, None))]
        return out
    for qn in sorted(ctx.functions_analysed):
        f = M.functions.get(qn)
        if f is None or isinstance(f.node, ast.Lambda) or not getattr(f.node, "decorator_list", None):
            continue
        for d in f.node.decorator_list:
            opts = options_of(d)
            if isinstance(d, ast.Name) and d.id in f.module.globals_:        # dissimilarity_dec = nb.njit(...)
                opts += options_of(f.module.globals_[d.id])
            for name, val in opts:
                if name in ("nopython",) and isinstance(val, ast.Constant) and val.value is True:
                    continue
                n += 1
                ctx.undecided(rule, f, None, f"{qn} is compiled with `{name}={norm(val)}`: the rules on this kernel assume Python's arithmetic and evaluation order, "
                              f"which this option gives up (float reassociation / order-dependent reductions / other division semantics); not a verdict",
                              construct=f"njit option {name}", key=f"{qn}:{name}")
    return n


def check_overrides(ctx: Ctx, rule: str = "R-OVERRIDES"):
    """closedness guard: a rule that analysed `Class.m` speaks for every call `obj.m(...)` only if no subclass replaces m with code the
    rules did not look at.  An override of an analysed method that was itself not analysed is reported UNDECIDED (abstract methods are meant
    to be overridden: their implementations are enumerated by the rules that need them)."""
    M = ctx.model
    n = 0
    for qn in sorted(ctx.functions_analysed):
        f = M.functions.get(qn)
        if f is None or f.cls is None or isinstance(f.node, ast.Lambda) or "<locals>" in qn or f.abstract or f.name.startswith("__"):
            continue
        for sub in M.subclasses.get(f.cls.name, []):
            g = sub.methods.get(f.name) or sub.getters.get(f.name) if hasattr(sub, "getters") else sub.methods.get(f.name)
            if g is None or g.qualname in ctx.functions_analysed or g.abstract:
                continue
            n += 1
            ctx.undecided(rule, g, None, f"{g.qualname} overrides {qn}, which the rules of this property analysed as *the* implementation: calls dispatched to "
                          f"{sub.name} objects run code the rules did not look at (not a verdict)", construct=f"override of {f.name}", key=f"{g.qualname}")
    return n


KNOWN_DECORATORS = ("property", "staticmethod", "classmethod", "abc.abstractmethod", "abstractmethod", "numba.njit", "nb.njit")
CACHING_DECORATORS = ("lru_cache", "cache", "cached_property", "memoize", "memoized", "cachedmethod", "cached")


def check_decorators(ctx: Ctx, rule: str = "R-DECORATORS"):
    """closedness guard: the rules read a function's body as what a call to it does.  A decorator outside the ones of the pinned tree
    (property / staticmethod / classmethod / abstractmethod / numba.njit / dissimilarity_dec / setters) on a function the property's rules
    analysed, or on one reachable from those, breaks that reading: memoisation returns a stored result, a wrapper may do anything.  Reported
    UNDECIDED (not a verdict); properties with a rule about a specific cached quantity report that one as a violation themselves."""
    M = ctx.model
    roots = sorted(q for q in ctx.functions_analysed if q in M.functions)
    try:
        reach = set(prog(ctx).reachable(roots)) | set(roots)
    except Exception:       # the call graph is a convenience here: fall back to the analysed functions themselves
        reach = set(roots)
    n = 0
    for qn in sorted(reach):
        f = M.functions.get(qn)
        if f is None or isinstance(f.node, ast.Lambda):
            continue
        for d in f.decorators:
            n += 1
            short = d.split(".")[-1]
            if d in KNOWN_DECORATORS or d.startswith(("numba.njit", "nb.njit")) or short in ("dissimilarity_dec", "setter", "deleter", "getter"):
                continue
            if short in CACHING_DECORATORS and f.cls is not None and f.self_name:
                # a memoised value computed from a field that another method of the class reassigns is stale after that method: recognised shape
                sn_ = f.self_name
                reads_ = {a.attr for a in ast.walk(f.node) if isinstance(a, ast.Attribute) and isinstance(a.ctx, ast.Load) and isinstance(a.value, ast.Name) and a.value.id == sn_}
                stale_ = None
                for k_ in [f.cls] + M.mro(f.cls)[1:] + M.subclasses.get(f.cls.name, []):
                    for g_ in list(k_.methods.values()) + list(k_.setters.values()):
                        if g_.name == "__init__" or g_ is f or not g_.self_name:
                            continue
                        for s_ in walk_no_nested(g_.node):
                            if isinstance(s_, (ast.Assign, ast.AugAssign, ast.AnnAssign)):
                                for t_ in (s_.targets if isinstance(s_, ast.Assign) else [s_.target]):
                                    if isinstance(t_, ast.Attribute) and isinstance(t_.value, ast.Name) and t_.value.id == g_.self_name and t_.attr in reads_:
                                        stale_ = stale_ or (g_, t_.attr)
                if stale_ is not None:
                    ctx.bad(rule, f, None, f"{qn} memoises its result (@{d}) but computes it from self.{stale_[1]}, which {stale_[0].qualname} reassigns: every call after that "
                            f"returns the value computed from the previous self.{stale_[1]} - an object that is used twice answers from its first use",
                            construct=f"@{d}", key=f"{qn}:{d}")
                    continue
            kind = "memoises its results" if short in CACHING_DECORATORS else "is wrapped by a decorator the analysis does not model"
            ctx.undecided(rule, f, None, f"{qn} {kind} (@{d}): its body is no longer what every call executes - a result computed from state that "
                          f"changes later (an attribute reassigned between calls) would be stale; not a verdict by itself", construct=f"@{d}", key=f"{qn}:{d}")
    return n


_OPS = {ast.Lt: "<", ast.LtE: "<=", ast.Gt: ">", ast.GtE: ">=", ast.Eq: "==", ast.NotEq: "!="}
_MIRROR = {"<": ">", "<=": ">=", ">": "<", ">=": "<=", "==": "==", "!=": "!="}


def is_cmp(test: ast.AST, a: str, op: str, b: str) -> bool:
    """test is the single comparison `a op b`, in either operand order (a, b are normalised texts)"""
    if not (isinstance(test, ast.Compare) and len(test.ops) == 1 and type(test.ops[0]) in _OPS):
        return False
    l, o, r = norm(test.left), _OPS[type(test.ops[0])], norm(test.comparators[0])
    return (l, o, r) == (a, op, b) or (l, o, r) == (b, _MIRROR[op], a)


def cmp_other(test: ast.AST, a: str, op: str):
    """if test is `a op X` (either order) return norm(X) else None"""
    if not (isinstance(test, ast.Compare) and len(test.ops) == 1 and type(test.ops[0]) in _OPS):
        return None
    l, o, r = norm(test.left), _OPS[type(test.ops[0])], norm(test.comparators[0])
    if l == a and o == op:
        return r
    if r == a and o == _MIRROR[op]:
        return l
    return None


def else_part(fnode: ast.AST, i: ast.If) -> List[ast.stmt]:
    """statements executed when the test of `i` is false: its orelse, or - when the body ends with return/raise/continue/break
    (canonical form after normalisation) - the statements following `i` in its block"""
    if i.orelse:
        return list(i.orelse)
    if i.body and isinstance(i.body[-1], (ast.Return, ast.Raise, ast.Continue, ast.Break)):
        for n in ast.walk(fnode):
            for fld in ("body", "orelse", "finalbody"):
                blk = getattr(n, fld, None)
                if isinstance(blk, list) and i in blk:
                    return list(blk[blk.index(i) + 1:])
    return []
