"""C01 - the best alignment is a partition of the continuum's units (DESIGN 4/C01)."""
from __future__ import annotations

import ast
from typing import Optional

from ..cfg import CFG
from ..core import Ctx, UNDECIDED, VIOLATED
from ..model import norm, walk_no_nested
from . import ilp, nbk
from .common import conditions_at, enclosing, prog

FN = "Continuum.get_best_alignment"


def rule_nullable_index(ctx: Ctx, rule: str, roots, scope_note: str):
    """a value of type Optional[str] (Unit.annotation) must not reach <container>.index(.) unguarded"""
    M, p = ctx.model, prog(ctx)
    reach = p.reachable(roots)
    n = 0
    for qn, path in sorted(reach.items()):
        f = M.functions.get(qn)
        if f is None or isinstance(f.node, ast.Lambda):
            continue
        fls = p.flows_of(f)
        if not fls:
            continue
        fl = fls[0]
        cfg = None
        for c in walk_no_nested(f.node):
            if not (isinstance(c, ast.Call) and isinstance(c.func, ast.Attribute) and c.func.attr == "index" and len(c.args) == 1):
                continue
            rt = fl.type_at(c.func.value)
            if rt is not None and rt.name in ("str", "list") and not rt.args:
                continue
            at = fl.type_at(c.args[0])
            if at is None or not (at.name == "str" and at.opt):
                continue
            n += 1
            cfg = cfg or CFG(f.node)
            T = norm(c.args[0])
            cn = cfg.node_containing(c)
            guarded = False
            for i in [x for x in walk_no_nested(f.node) if isinstance(x, ast.If)]:
                t = i.test
                if isinstance(t, ast.Compare) and len(t.ops) == 1 and norm(t.left) == T and isinstance(t.comparators[0], ast.Constant) \
                        and t.comparators[0].value is None and isinstance(t.ops[0], (ast.Is, ast.IsNot)):
                    none_branch = i.body if isinstance(t.ops[0], ast.Is) else i.orelse
                    inode = cfg.node_of(i)
                    if not cfg.dominates(inode, cn):
                        continue
                    if none_branch:
                        first = cfg.node_of(none_branch[0])
                        if first is not None and cn not in cfg.reachable(first):
                            guarded = True
                    else:
                        # `if x is not None:` without else: the call must be inside the body
                        if any(c is y for b in i.body for y in ast.walk(b)):
                            guarded = True
            ctx.check(guarded, rule, f, c, f"label lookup `{norm(c)}` is reached only when the label is not None ({scope_note}; via {' -> '.join(path[-3:])})",
                      bad_detail=f"`{norm(c)}`: an unlabelled unit (annotation None) reaches .index(): ValueError 'None is not in list' "
                                 f"({scope_note}; reached via {' -> '.join(path)})", key=f"index({T})")
            if guarded and f.self_name:
                # the label-None path may refuse (raise) only for a dissimilarity that has a category table: with `self.categories is None`
                # (every default dissimilarity) it must come back with an index
                sn = f.self_name
                for r in [x for x in walk_no_nested(f.node) if isinstance(x, ast.Raise)]:
                    conds = conditions_at(f.node, r)
                    on_none = any((isinstance(t, ast.Compare) and len(t.ops) == 1 and norm(t.left) == T and isinstance(t.comparators[0], ast.Constant)
                                   and t.comparators[0].value is None and isinstance(t.ops[0], ast.Is if pol else ast.IsNot)) for t, pol in conds)
                    if not on_none:
                        continue
                    has_table = any((isinstance(t, ast.Compare) and len(t.ops) == 1 and norm(t.left) == f"{sn}.categories" and isinstance(t.comparators[0], ast.Constant)
                                     and t.comparators[0].value is None and isinstance(t.ops[0], ast.IsNot if pol else ast.Is)) for t, pol in conds)
                    n += 1
                    ctx.check(has_table, rule, f, r, "an unlabelled unit is refused only by a dissimilarity defined over a category table (self.categories is not None)",
                              bad_detail=f"{f.qualname} raises for an unlabelled unit without requiring `{sn}.categories is not None`: the dissimilarities that have no category "
                                         f"table (the defaults) no longer align unlabelled units ({scope_note})", key=f"refusal({T})")
    return n


def run(ctx: Ctx):
    ctx.clauses += [
        "R-C01-1 every cp.Problem posed by get_best_alignment (CBC branch and GLPK handler) has constraints normalising to 1 <= A@x <= 1 over a boolean x with one entry per candidate, A = build_A(same candidates, sizes)",
        "R-C01-2 null-unit sentinel agreement: producer range 0..len(units), build_A tests != sizes[a], decoder maps IndexError (index == len(units)) to None",
        "R-C01-3 annotator/unit order agreement: sizes, unit arrays, build_A offsets and the decoder's peekitem(k) all follow self._annotations' own order; offset advanced unconditionally",
        "R-C01-4 decoding: threshold strictly between 0 and 1, same ids for candidates and disorders, exactly one (annotator, unit|None) slot per annotator, unit read from that annotator's own set, result Alignment(continuum=self)",
        "R-C01-5 the all-empty candidate is excluded (final [:i-1] cut drops exactly it): every unitary alignment has a real unit",
        "R-C01-6 totality on unlabelled units: no Optional label reaches <categories>.index() unguarded on the paths of get_best_alignment",
    ]
    ctx.not_decided += ["that CBC/GLPK return a feasible optimum and terminate", "explicit refusal (ValueError) of unlabelled units by dissimilarities defined over a fixed category table: documented domain restriction"]
    ctx.assumptions += ["cvxpy/CBC/GLPK solve the posed ILP exactly", "SortedDict.peekitem(k) is the k-th item in key order"]
    F = ilp.analyse(ctx, FN, "R-C01-1")
    ilp.check_formulation(ctx, F, {"problems": "R-C01-1", "interval": "R-C01-1", "variable": "R-C01-1", "same-candidates": "R-C01-1",
                                   "solved": "R-C01-1"}, 1.0, 1.0, "partition (every unit in exactly one chosen candidate)")
    ctx.floor("R-C01-1", 4, "problem formulations in get_best_alignment")
    ilp.check_sizes(ctx, F, "R-C01-3")
    ilp.check_arrays_continuum(ctx, "R-C01-3")
    nbk.check_build_A(ctx, {"A-shape": "R-C01-3", "A-offset": "R-C01-3", "A-cell": "R-C01-3", "A-null": "R-C01-2"})
    nbk.check_candidates(ctx, {"sizes-with-null": "R-C01-2", "source": "R-C01-5", "final-slice": "R-C01-5", "threshold": "R-C01-5",
                               "filter-op": "R-C01-5", "matrix-cover": "R-C01-5", "c2n": "R-C01-5"})
    nbk.check_odometer(ctx, "R-C01-5")
    ilp.check_decoding(ctx, F, {"threshold": "R-C01-4", "same-ids": "R-C01-4", "slots": "R-C01-4", "own-unit": "R-C01-4",
                                "null-decode": "R-C01-2", "ua-built": "R-C01-4", "all-emitted": "R-C01-4", "result": "R-C01-4", "shared-decoding": "R-C01-4"}, "Alignment")
    n = rule_nullable_index(ctx, "R-C01-6", [FN], "alignment of unlabelled units")
    if n < 1:
        ctx.undecided("R-C01-6", ctx.model.functions[FN], None, "no label lookup found on the paths of get_best_alignment (anchor vanished)",
                      key="floor")
