"""C12 - gamma-cat and gamma-k follow their definition (DESIGN 4/C12): guarded accumulation == definition on every valuation."""
from __future__ import annotations

import ast
import itertools
from typing import Dict, List, Optional, Tuple

from .. import algebra as A
from ..algebra import Extractor, Rat, Unsupported
from ..cfg import CFG
from ..core import Ctx
from ..model import body_stmts, dotted, kwarg, norm, walk_no_nested
from .common import assigned_value, check_unitary_record, enclosing, expand_locals, pnorm

FN = "Alignment.gamma_k_disorder"


class NoneDeref(Exception):
    pass


class PairInterp:
    """abstract interpretation of the pair body for ONE valuation of the atomic tests"""

    def __init__(self, val: Dict[str, bool], u1: str, u2: str, cat: str, ex: Extractor):
        self.v, self.u1, self.u2, self.cat, self.ex = val, u1, u2, cat, ex
        self.adds: Dict[str, Rat] = {}
        self.flags: Dict[str, bool] = {}

    def cond(self, e: ast.AST) -> bool:
        if isinstance(e, ast.BoolOp):
            if isinstance(e.op, ast.And):
                for x in e.values:
                    if not self.cond(x):
                        return False
                return True
            for x in e.values:
                if self.cond(x):
                    return True
            return False
        if isinstance(e, ast.UnaryOp) and isinstance(e.op, ast.Not):
            return not self.cond(e.operand)
        if isinstance(e, ast.Compare) and len(e.ops) == 1:
            l, op, r = e.left, e.ops[0], e.comparators[0]
            if isinstance(r, ast.Constant) and r.value is None and isinstance(op, (ast.Is, ast.IsNot)) and isinstance(l, ast.Name):
                key = {self.u1: "u1N", self.u2: "u2N", self.cat: "catN"}.get(l.id)
                if key is None:
                    raise Unsupported(f"None test on {l.id}")
                return self.v[key] if isinstance(op, ast.Is) else not self.v[key]
            if isinstance(op, (ast.Eq, ast.NotEq)):
                for a, b in ((l, r), (r, l)):
                    if isinstance(a, ast.Attribute) and a.attr == "annotation" and isinstance(a.value, ast.Name) and isinstance(b, ast.Name) and b.id == self.cat:
                        which = {self.u1: "1", self.u2: "2"}.get(a.value.id)
                        if which is None:
                            raise Unsupported("annotation of an unknown unit")
                        if self.v[f"u{which}N"]:
                            raise NoneDeref(f"reads {a.value.id}.annotation while {a.value.id} is None")
                        if self.v["catN"]:
                            raise Unsupported("label compared with a None category")
                        eq = self.v[f"a{which}c"]
                        return eq if isinstance(op, ast.Eq) else not eq
        if isinstance(e, ast.Name) and e.id in self.flags:
            return self.flags[e.id]
        raise Unsupported(f"condition {norm(e)}")

    def run(self, stmts) -> str:
        for s in stmts:
            if isinstance(s, ast.If):
                r = self.run(s.body if self.cond(s.test) else s.orelse)
                if r != "fall":
                    return r
            elif isinstance(s, ast.Continue):
                return "continue"
            elif isinstance(s, ast.AugAssign) and isinstance(s.op, ast.Add) and isinstance(s.target, ast.Name):
                self._touch(s.value)
                self.adds[s.target.id] = self.adds.get(s.target.id, Rat.const(0)) + self.ex.ev(s.value)
            elif isinstance(s, ast.Assign) and len(s.targets) == 1 and isinstance(s.targets[0], ast.Name):
                if isinstance(s.value, ast.Constant) and isinstance(s.value.value, bool):
                    self.flags[s.targets[0].id] = s.value.value
                else:
                    self._touch(s.value)
                    self.ex.env[s.targets[0].id] = self.ex.ev(s.value)
            elif isinstance(s, ast.Expr) and isinstance(s.value, ast.Constant):
                pass
            else:
                raise Unsupported(f"statement {norm(s)[:60]}")
        return "fall"

    def _touch(self, e: ast.AST):
        """a unit that is None must not be passed to d() / dereferenced"""
        for n in ast.walk(e):
            if isinstance(n, ast.Name) and n.id in (self.u1, self.u2):
                if self.v["u1N" if n.id == self.u1 else "u2N"]:
                    raise NoneDeref(f"uses {n.id} while it is None")


def valuations():
    for u1N, u2N in itertools.product((True, False), repeat=2):
        yield {"u1N": u1N, "u2N": u2N, "catN": True, "a1c": False, "a2c": False}
        for a1c in ((False,) if u1N else (True, False)):
            for a2c in ((False,) if u2N else (True, False)):
                yield {"u1N": u1N, "u2N": u2N, "catN": False, "a1c": a1c, "a2c": a2c}


def vname(v) -> str:
    return ("gamma-cat" if v["catN"] else "gamma-k") + f" u1={'None' if v['u1N'] else ('cat' if v['a1c'] else 'unit')} u2={'None' if v['u2N'] else ('cat' if v['a2c'] else 'unit')}"


def run(ctx: Ctx):
    ctx.clauses += [
        "R-C12-1 pair loop of gamma_k_disorder == definition on every consistent valuation of {unit1 is None, unit2 is None, category is None, label1 == category, label2 == category}: "
        "pair counted iff gamma-cat or a unit carries the category; both real: disorder += CAT*w, weight += w, w = 1/(k-1) * max(0, 1 - alpha*POS); exactly one real: disorder += delta^2, weight += delta; both empty: nothing; "
        "no None unit is ever dereferenced; pair domain = unordered slot pairs; final value and special cases",
        "R-C12-2 TypeError for a non-combined dissimilarity dominates everything else",
        "R-C12-3 gamma_cat / gamma_k = 1 - observed/mean(chance) with the documented guards; observed job gets best_alignment, chance jobs each chance alignment, all with the same category",
    ]
    ctx.not_decided += ["gamma-cat/gamma-k <= 1 and == 1 on perfect categorisation (run-time consequences)", "the experimental unit/empty term is taken as specified by the property"]
    ctx.assumptions += ["dissimilarity.positional_dissim.d / categorical_dissim.d are the functions checked by C04"]
    M = ctx.model
    # gamma_k_disorder reads the unit-to-unit forms d(); alignments read the compiled forms: both must be the documented function (C04's rules, run here too)
    from .c04 import rule_forms
    ctx.clauses.append("R-C04-1..4 (shared with C04) every dissimilarity's unit-to-unit form d(), which the categorical disorder is computed with, is the same function as its compiled form and the documented formula")
    rule_forms(ctx)
    check_unitary_record(ctx, "R-C12-1")
    f = ctx.fn(FN, "R-C12-1")
    sn, dp, cp = f.self_name, f.params[1], f.params[2]
    cfg = CFG(f.node)
    body = body_stmts(f.node)
    # ---------------- R-C12-2
    g0 = body[0] if body else None
    ok = isinstance(g0, ast.If) and norm(g0.test) == f"not isinstance({dp}, CombinedCategoricalDissimilarity)" and len(g0.body) == 1 and \
        isinstance(g0.body[0], ast.Raise) and isinstance(g0.body[0].exc, ast.Call) and dotted(g0.body[0].exc.func) == "TypeError"
    ctx.check(ok, "R-C12-2", f, g0, "a dissimilarity that is not the combined one is refused with TypeError before anything is computed",
              bad_detail="gamma_k_disorder does not start by refusing non-combined dissimilarities with TypeError", key="typeerror")
    # ---------------- loops
    outer = [s for s in body if isinstance(s, ast.For)]
    if len(outer) != 1 or norm(outer[0].iter) not in (sn, f"{sn}.unitary_alignments"):
        ctx.undecided("R-C12-1", f, None, "loop over the unitary alignments not found", key="outer")
        return
    O = outer[0]
    ua = norm(O.target)
    # weight base
    kdef = [s for s in O.body if isinstance(s, ast.Assign) and norm(s.value) == f"{ua}.nb_units"]
    kname = norm(kdef[0].targets[0]) if kdef else None
    wb = [s for s in O.body if isinstance(s, ast.If) and kname and kname in norm(s.test)]
    okw = False
    wname = None
    if len(wb) == 1:
        t = norm(wb[0].test)
        small, big = (wb[0].body, wb[0].orelse) if t in (f"{kname} < 2", f"{kname} <= 1") else ((wb[0].orelse, wb[0].body) if t in (f"{kname} >= 2", f"{kname} > 1") else (None, None))
        if small is not None and len(small) == 1 and len(big) == 1 and isinstance(small[0], ast.Assign) and isinstance(big[0], ast.Assign) and \
                norm(small[0].targets[0]) == norm(big[0].targets[0]):
            wname = norm(small[0].targets[0])
            try:
                ex = Extractor({kname: Rat.var("k")})
                okw = ex.ev(small[0].value).is_zero() and ex.ev(big[0].value) == Rat.const(1) / (Rat.var("k") - Rat.const(1))
            except Unsupported:
                okw = False
    if okw or (len(wb) == 1 and wname is not None):
        ctx.check(okw, "R-C12-1", f, wb[0] if wb else O, "pair weight base = 1/(k-1) with k = number of real units of the unitary alignment (0 when k < 2)",
                  bad_detail="weight base is not 1/(k-1) (k = nb_units, 0 below 2 units)", key="weight-base")
    else:
        ctx.undecided("R-C12-1", f, O, "the per-unitary-alignment weight base is not computed as `k = nb_units; if k < 2: w = 0 else: w = 1/(k-1)`: "
                      "shape not recognised (not a verdict)", key="weight-base")
        return
    # pair domain
    L1 = [s for s in O.body if isinstance(s, ast.For)]
    if len(L1) != 1:
        ctx.undecided("R-C12-1", f, O, "pair loops not found", key="pairs")
        return
    P1 = L1[0]
    P2l = [s for s in P1.body if isinstance(s, ast.For)]
    dom_ok = False
    u1 = u2 = None
    pair_body = None
    if len(P2l) == 1 and len(P1.body) == 1:
        P2 = P2l[0]
        # for i, (_, unit1) in enumerate(ua.n_tuple): for _, unit2 in ua.n_tuple[i + 1:]:
        if isinstance(P1.iter, ast.Call) and dotted(P1.iter.func) == "enumerate" and norm(expand_locals(f.node, P1.iter.args[0])) == f"{ua}.n_tuple" and \
                isinstance(P1.target, ast.Tuple) and isinstance(P1.target.elts[1], ast.Tuple):
            i = norm(P1.target.elts[0])
            u1 = norm(P1.target.elts[1].elts[1])
            inner_iter = norm(expand_locals(f.node, P2.iter, skip=(i,)))
            # `islice(T, a, None)` walks the same elements of the list T, in the same order, as `T[a:]`
            m_ = P2.iter
            if isinstance(m_, ast.Call) and norm(m_.func) in ("islice", "itertools.islice") and len(m_.args) == 3 and not m_.keywords and \
                    isinstance(m_.args[2], ast.Constant) and m_.args[2].value is None:
                inner_iter = f"{norm(expand_locals(f.node, m_.args[0], skip=(i,)))}[{norm(expand_locals(f.node, m_.args[1], skip=(i,)))}:]"
            if inner_iter == f"{ua}.n_tuple[{i} + 1:]" and isinstance(P2.target, ast.Tuple):
                u2 = norm(P2.target.elts[1])
                dom_ok = True
                pair_body = P2.body
            elif inner_iter in (f"{ua}.n_tuple[{i}:]", f"{ua}.n_tuple", f"{ua}.n_tuple[:{i}]", f"{ua}.n_tuple[:{i} + 1]", f"{ua}.n_tuple[{i} + 2:]", f"{ua}.n_tuple[1:]"):
                what = {f"{ua}.n_tuple[{i}:]": "every pair plus each slot with itself", f"{ua}.n_tuple": "every ordered pair, self pairs included",
                        f"{ua}.n_tuple[:{i} + 1]": "every pair plus each slot with itself"}.get(inner_iter, "not every unordered pair of distinct slots once")
                if inner_iter != f"{ua}.n_tuple[:{i}]":
                    ctx.bad("R-C12-1", f, P2, f"the inner pair loop iterates `{inner_iter}`: {what} (the weights and the disorder sum no longer range over "
                            f"the C(n,2) pairs of the definition)", key="pair-domain")
                    return
                u2 = norm(P2.target.elts[1]) if isinstance(P2.target, ast.Tuple) else None
                dom_ok = u2 is not None
                pair_body = P2.body
    elif isinstance(P1.iter, ast.Call) and norm(P1.iter.func) in ("itertools.combinations", "combinations") and \
            norm(expand_locals(f.node, P1.iter.args[0])) == f"{ua}.n_tuple" and norm(P1.iter.args[1]) == "2" and isinstance(P1.target, ast.Tuple):
        a, b = P1.target.elts
        if isinstance(a, ast.Tuple) and isinstance(b, ast.Tuple):
            u1, u2 = norm(a.elts[1]), norm(b.elts[1])
            dom_ok = True
            pair_body = P1.body
    if not dom_ok:
        ctx.undecided("R-C12-1", f, P1, "pair loops are neither `enumerate(n_tuple)` x `n_tuple[i+1:]` nor `combinations(n_tuple, 2)`: shape not recognised (not a verdict)",
                      key="pair-domain")
        return
    ctx.ok("R-C12-1", f, P1, "every unordered pair of slots of the unitary alignment is visited once", key="pair-domain")
    # accumulators: names returned as disorder / weight
    rets = [r for r in body if isinstance(r, ast.Return)]
    final = rets[-1] if rets else None
    dis = wgt = None
    if final is not None and isinstance(final.value, ast.IfExp) and isinstance(final.value.orelse, ast.BinOp) and isinstance(final.value.orelse.op, ast.Div):
        dis, wgt = norm(final.value.orelse.left), norm(final.value.orelse.right)
        okfin = norm(final.value.test) == f"{dis} == 0" and norm(final.value.body) in ("0", "0.0")
    elif final is not None and isinstance(final.value, ast.BinOp) and isinstance(final.value.op, ast.Div):
        dis, wgt = norm(final.value.left), norm(final.value.right)
        okfin = True
    else:
        okfin = False
    ctx.check(okfin and dis is not None, "R-C12-1", f, final, "result = accumulated disorder / accumulated weight (0 when nothing disagrees)",
              bad_detail="final value is not total_disorder / total_weight", key="final")
    if dis is None:
        return
    zero_init = all(len([v for v in assigned_value(f.node, n) if isinstance(v, ast.Constant) and v.value == 0]) == 1 for n in (dis, wgt))
    ctx.check(zero_init, "R-C12-1", f, None, "both accumulators start at 0", construct="accumulators", key="acc-init")
    flags_init = {norm(s.targets[0]): s.value.value for s in body if isinstance(s, ast.Assign) and isinstance(s.value, ast.Constant) and isinstance(s.value.value, bool)}
    # special cases
    sc = [s for s in body if isinstance(s, ast.If) and isinstance(s.test, ast.Name) and s.test.id in flags_init]
    ok_sc = False
    no_loop = no_cat = None
    if len(sc) == 1 and len(sc[0].body) == 2 and isinstance(sc[0].body[0], ast.If) and isinstance(sc[0].body[1], ast.Return) and \
            isinstance(sc[0].body[0].test, ast.Name) and len(sc[0].body[0].body) == 1 and isinstance(sc[0].body[0].body[0], ast.Return):
        inner = sc[0].body[0]
        no_loop = sc[0].test.id
        if inner.test.id in flags_init:
            no_cat = inner.test.id
            ok_sc = norm(inner.body[0].value) in ("1.0", "1") and norm(sc[0].body[1].value) in ("0.0", "0") and flags_init.get(no_loop) is True and \
                flags_init.get(no_cat) is True and body.index(sc[0]) > body.index(O)
    elif len(sc) == 1 and len(sc[0].body) == 1 and isinstance(sc[0].body[0], ast.Return) and isinstance(sc[0].body[0].value, ast.IfExp):
        ie = sc[0].body[0].value
        no_loop = sc[0].test.id
        if isinstance(ie.test, ast.Name) and ie.test.id in flags_init:
            no_cat = ie.test.id
            ok_sc = norm(ie.body) in ("1.0", "1") and norm(ie.orelse) in ("0.0", "0") and flags_init.get(no_loop) is True and flags_init.get(no_cat) is True \
                and body.index(sc[0]) > body.index(O)
    ctx.check(ok_sc, "R-C12-1", f, sc[0] if sc else None,
              "special cases kept as pinned by the tests: no pair of real units counted -> 0, nothing counted at all -> 1",
              bad_detail="special cases (no real pair counted -> 0; nothing counted -> 1) are missing or altered", key="special-cases")
    # ---------------- valuation table

    def attr(ex, e: ast.Attribute):
        t = norm(e)
        return {f"{dp}.delta_empty": Rat.var("Δ"), f"{dp}.alpha": Rat.var("α"), f"{dp}.beta": Rat.var("β")}.get(t)

    def call(ex, c: ast.Call):
        t = norm(c.func)
        args = sorted(norm(a) for a in c.args)
        if t == f"{dp}.positional_dissim.d" and args == sorted([u1, u2]):
            return A.mk_app("POS", [Rat.var("u1"), Rat.var("u2")], True)
        if t == f"{dp}.categorical_dissim.d" and args == sorted([u1, u2]):
            return A.mk_app("CAT", [Rat.var("u1"), Rat.var("u2")], True)
        return None
    POS, CAT = A.mk_app("POS", [Rat.var("u1"), Rat.var("u2")], True), A.mk_app("CAT", [Rat.var("u1"), Rat.var("u2")], True)
    w = Rat.var("w0") * A.mk_max0(Rat.const(1) - Rat.var("α") * POS)
    n_val = 0
    for v in valuations():
        n_val += 1
        ex = Extractor({wname or "weight_base": Rat.var("w0")}, attribute=attr, call=call)
        it = PairInterp(v, u1, u2, cp, ex)
        try:
            it.run(pair_body)
        except NoneDeref as e:
            ctx.bad("R-C12-1", f, None, f"valuation [{vname(v)}]: {e} (AttributeError at run time)", construct=f"valuation {vname(v)}", key=f"val:{vname(v)}")
            continue
        except Unsupported as e:
            ctx.undecided("R-C12-1", f, None, f"valuation [{vname(v)}]: {e}", construct=f"valuation {vname(v)}", key=f"val:{vname(v)}")
            return
        counted = v["catN"] or (not v["u1N"] and v["a1c"]) or (not v["u2N"] and v["a2c"])
        zero = Rat.const(0)
        exp_d = exp_w = zero
        exp_flags = {}
        if counted:
            exp_flags[no_cat] = False
            if not v["u1N"] and not v["u2N"]:
                exp_d, exp_w = CAT * w, w
                exp_flags[no_loop] = False
            elif v["u1N"] != v["u2N"]:
                exp_d, exp_w = Rat.var("Δ") * Rat.var("Δ"), Rat.var("Δ")
        got_d, got_w = it.adds.get(dis, zero), it.adds.get(wgt, zero)
        got_flags = {k: val for k, val in it.flags.items() if k in (no_cat, no_loop)}
        okv = got_d == exp_d and got_w == exp_w and got_flags == {k: x for k, x in exp_flags.items() if k is not None} and \
            set(it.adds) <= {dis, wgt}
        ctx.check(okv, "R-C12-1", f, None, f"[{vname(v)}] disorder += {got_d}, weight += {got_w}",
                  bad_detail=f"[{vname(v)}] code: disorder += {got_d}, weight += {got_w}, flags {got_flags}; definition: disorder += {exp_d}, weight += {exp_w}, flags {exp_flags}",
                  construct=f"valuation {vname(v)}", key=f"val:{vname(v)}")
    ctx.notes["abstract_cases"] = {"gamma_k_disorder pair body": {"valuations": n_val, "exhaustive": True}}

    # ---------------- R-C12-3
    j = ctx.fn("_compute_gamma_k_job", "R-C12-3")
    rets = [r for r in walk_no_nested(j.node) if isinstance(r, ast.Return)]
    ctx.check(len(rets) == 1 and pnorm(M, rets[0].value) == f"{j.params[1]}.gamma_k_disorder({j.params[0]}, {j.params[2]})", "R-C12-3", j, rets[0] if rets else None,
              "the job computes alignment.gamma_k_disorder(dissimilarity, category)", key="job")
    for qn, cat in (("GammaResults.gamma_cat", "None"), ("GammaResults.gamma_k", None)):
        g = ctx.fn(qn, "R-C12-3")
        gs = g.self_name
        catexp = cat if cat is not None else g.params[1]
        subs = [c for c in walk_no_nested(g.node) if isinstance(c, ast.Call) and isinstance(c.func, ast.Attribute) and c.func.attr == "submit"]

        def sargs(c):
            out = []
            for a in c.args:
                out += list(a.value.elts) if isinstance(a, ast.Starred) and isinstance(a.value, (ast.Tuple, ast.List)) else [a]
            return [norm(x) for x in out]
        obs = [c for c in subs if sargs(c) == ["_compute_gamma_k_job", f"{gs}.dissimilarity", f"{gs}.best_alignment", catexp]]
        ch = [c for c in subs if len(sargs(c)) == 4 and sargs(c)[:2] == ["_compute_gamma_k_job", f"{gs}.dissimilarity"] and sargs(c)[3] == catexp and c not in obs]
        okc = len(obs) == 1 and len(ch) == 1 and len(subs) == 2
        if okc:
            comp = enclosing(g.node, ch[0], (ast.ListComp,))
            okc = bool(comp) and norm(comp[-1].generators[0].iter) == f"{gs}.chance_alignments" and sargs(ch[0])[2] == norm(comp[-1].generators[0].target)
        ctx.check(okc, "R-C12-3", g, subs[0] if subs else None, f"observed job on best_alignment, one chance job per chance alignment, all with category {catexp}",
                  bad_detail=f"{qn}: jobs are not (best_alignment, {catexp}) + one per chance alignment with the same category", key=f"{qn}:jobs")
        # the value returned on every path, in terms of OBS = <observed job>.result() and EXP = mean of the chance jobs' results:
        # the body is run symbolically (locals substituted, `with` entered, tuple assignments split); a test on OBS == 0 splits the two
        # scenarios of the property, `x is None` is decided when x is a literal None / a computed number, any other test forks
        import copy as _copy
        forms = [r for r in walk_no_nested(g.node) if isinstance(r, ast.Return) and isinstance(r.value, ast.BinOp)]

        class _Subst(ast.NodeTransformer):
            def __init__(self, env):
                self.env = env

            def visit_Name(self, n):
                if isinstance(n.ctx, ast.Load) and n.id in self.env:
                    return _copy.deepcopy(self.env[n.id])
                return n

        class _Shape(Exception):
            pass
        obs_call = obs[0] if len(obs) == 1 else None

        def is_obs(e, env) -> bool:
            e2 = _Subst(env).visit(_copy.deepcopy(e))
            return isinstance(e2, ast.Call) and isinstance(e2.func, ast.Attribute) and e2.func.attr == "result" and not e2.args and obs_call is not None and \
                norm(e2.func.value) == norm(obs_call)

        def is_exp(e, env) -> bool:
            t = norm(_Subst(env).visit(_copy.deepcopy(e)))
            return ch and "np.mean" in t and ".result()" in t and norm(ch[0]) in t

        paths = []       # (obs_zero: True/False/None, extra conditions, returned AST after substitution, node)

        def run(stmts, env, obs_zero, conds) -> bool:
            """True when every path through `stmts` returned"""
            for k_, st in enumerate(stmts):
                if isinstance(st, ast.Return):
                    paths.append((obs_zero, list(conds), _Subst(env).visit(_copy.deepcopy(st.value)) if st.value is not None else None, st))
                    return True
                if isinstance(st, ast.With):
                    for it in st.items:
                        if it.optional_vars is not None and isinstance(it.optional_vars, ast.Name):
                            env.pop(it.optional_vars.id, None)
                    return run(list(st.body) + list(stmts[k_ + 1:]), env, obs_zero, conds)      # a with block only scopes: its body continues the sequence
                elif isinstance(st, ast.Assign) and len(st.targets) == 1 and isinstance(st.targets[0], ast.Name):
                    env[st.targets[0].id] = _Subst(env).visit(_copy.deepcopy(st.value))
                elif isinstance(st, ast.Assign) and len(st.targets) == 1 and isinstance(st.targets[0], ast.Tuple) and isinstance(st.value, ast.Tuple) and \
                        len(st.targets[0].elts) == len(st.value.elts) and all(isinstance(t, ast.Name) for t in st.targets[0].elts):
                    vals = [_Subst(env).visit(_copy.deepcopy(v)) for v in st.value.elts]
                    for t, v in zip(st.targets[0].elts, vals):
                        env[t.id] = v
                elif isinstance(st, ast.If):
                    t = st.test
                    decided = None
                    if isinstance(t, ast.Compare) and len(t.ops) == 1 and isinstance(t.ops[0], (ast.Eq, ast.NotEq)) and A_zero(t.comparators[0]) and is_obs(t.left, env):
                        if obs_zero is None:
                            rest = stmts[k_ + 1:]
                            r1 = run([st] + rest, dict(env), True, conds)
                            r2 = run([st] + rest, dict(env), False, conds)
                            return r1 and r2
                        decided = obs_zero if isinstance(t.ops[0], ast.Eq) else (not obs_zero)
                    elif isinstance(t, ast.Compare) and len(t.ops) == 1 and isinstance(t.ops[0], (ast.Is, ast.IsNot)) and \
                            isinstance(t.comparators[0], ast.Constant) and t.comparators[0].value is None:
                        v = _Subst(env).visit(_copy.deepcopy(t.left))
                        if isinstance(v, ast.Constant) and v.value is None:
                            decided = isinstance(t.ops[0], ast.Is)
                        elif isinstance(v, (ast.Call, ast.BinOp)) or (isinstance(v, ast.Constant) and v.value is not None):
                            decided = isinstance(t.ops[0], ast.IsNot)
                    if decided is None:
                        rest = stmts[k_ + 1:]
                        tt = norm(_Subst(env).visit(_copy.deepcopy(t)))
                        e1, e2 = dict(env), dict(env)
                        r1 = run(list(st.body) + rest, e1, obs_zero, conds + [(tt, True)])
                        r2 = run(list(st.orelse) + rest, e2, obs_zero, conds + [(tt, False)])
                        return r1 and r2
                    return run(list(st.body if decided else st.orelse) + list(stmts[k_ + 1:]), env, obs_zero, conds)
                elif isinstance(st, (ast.Expr, ast.Pass, ast.Import, ast.ImportFrom, ast.Assert)):
                    continue
                else:
                    raise _Shape(norm(st)[:80])
            return False

        def A_zero(e) -> bool:
            return isinstance(e, ast.Constant) and e.value in (0, 0.0) and not isinstance(e.value, bool)
        okf = None
        why = ""
        try:
            all_ret = run(body_stmts(g.node), {}, None, [])
            if not all_ret or not paths:
                okf, why = False, "a path falls off the end without returning a value"
            elif not any(p_[0] is True for p_ in paths) or not any(p_[0] is False for p_ in paths):
                okf, why = False, "no test of the observed disorder against 0 separates the two cases"
            else:
                okf = True
                for oz, conds_, val, node_ in paths:
                    if oz is True:
                        if not (isinstance(val, ast.Constant) and val.value in (1, 1.0) and not isinstance(val.value, bool)):
                            okf, why = False, f"with a null observed disorder the value is `{norm(val) if val is not None else None}`, not 1"
                    else:
                        if isinstance(val, ast.Constant) and val.value in (0, 0.0) and any(c_[1] is True and c_[0].endswith("== 0") for c_ in conds_):
                            continue         # the documented gamma-cat convention: expected disorder 0 -> 0
                        good = False
                        if isinstance(val, ast.BinOp) and isinstance(val.op, ast.Sub) and isinstance(val.left, ast.Constant) and val.left.value == 1 and \
                                isinstance(val.right, ast.BinOp) and isinstance(val.right.op, ast.Div):
                            good = is_obs(val.right.left, {}) and is_exp(val.right.right, {})
                        if not good:
                            okf, why = False, f"with a non-null observed disorder the value is `{norm(val) if val is not None else None}`"
        except _Shape as e:
            okf = None
            why = str(e)
        if okf is None:
            ctx.undecided("R-C12-3", g, None, f"{qn}: body contains `{why}`: shape not recognised (not a verdict)", key=f"{qn}:formula")
            continue
        ctx.check(okf, "R-C12-3", g, forms[0] if forms else None, f"{qn} = 1 - observed / mean(chance), observed == 0 -> 1 first",
                  bad_detail=f"{qn} is not 1 - observed/mean(chance categorical disorders) behind the observed == 0 guard: {why}", key=f"{qn}:formula")
