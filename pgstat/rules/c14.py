"""C14 - computations never modify their inputs; derived continua are independent (DESIGN 4/C14)."""
from __future__ import annotations

import ast
from typing import Dict, List, Optional, Set, Tuple

from ..core import Ctx
from ..flow import AV, Flow, Mutation, Program
from ..model import FuncInfo, Ty, norm
from .common import is_mutable_type, prog

# documented in-place API: (function, parameter) pairs whose mutation IS the function's purpose
MUTATOR_API: Dict[Tuple[str, str], str] = {
    ("Continuum.add", "self"): "adds a unit",
    ("Continuum.add_annotator", "self"): "adds an annotator",
    ("Continuum.add_annotation", "self"): "adds units",
    ("Continuum.add_timeline", "self"): "adds units",
    ("Continuum.add_textgrid", "self"): "adds units",
    ("Continuum.add_elan", "self"): "adds units",
    ("Continuum.remove", "self"): "removes a unit",
    ("Continuum.reset_bounds", "self"): "recomputes the bounds",
    ("Continuum.merge", "self"): "in-place merge when in_place=True (the in_place=False specialisation is checked separately)",
    ("CorpusShufflingTool.shift_shuffle", "continuum"): "perturbs the given corpus in place (documented)",
    ("CorpusShufflingTool.false_neg_shuffle", "continuum"): "perturbs the given corpus in place (documented)",
    ("CorpusShufflingTool.false_pos_shuffle", "continuum"): "perturbs the given corpus in place (documented)",
    ("CorpusShufflingTool.category_shuffle", "continuum"): "perturbs the given corpus in place (documented)",
    ("CorpusShufflingTool.splits_shuffle", "continuum"): "perturbs the given corpus in place (documented)",
}
# the one documented exception of the property: fast-mode gamma records its window size on the continuum
ALLOWED_EFFECTS = {
    ("Continuum.compute_gamma", "self", "store .best_window_size"),
    ("Continuum.measure_best_window_size", "self", "store .best_window_size"),
}
# getters that hand out an internal mutable container (rep exposure inventory), each confirmed by reading
EXPOSURES = {
    "Continuum.categories": "documented accessor of the category set; every package caller is shown read-only by R-C14-1/R-C14-4",
    "UnitaryAlignment.n_tuple": "the n-tuple of an alignment object (not a continuum / dissimilarity)",
    "Alignment.categories": "pass-through of Continuum.categories of the attached continuum (same exposure, same read-only obligation)",
}
SKIP_MODULES = ("pygamma_agreement.notebook", "pygamma_agreement.cli_apps")


def protected_type(M, t: Optional[Ty]) -> bool:
    return t is not None and (t.name == "Continuum" or M.is_subclass(t.name, "AbstractDissimilarity"))


def protected_prefix(p: Program, fl: Flow, av: AV) -> Optional[Tuple[AV, Ty]]:
    """longest-first search of a prefix of the access path that denotes a protected object"""
    M = p.model
    for k in range(0, len(av.path) + 1):
        pre = AV(av.root, av.path[:k])
        t = p.av_type(fl, pre)
        if protected_type(M, t):
            return pre, t
    return None


def entry_points(ctx: Ctx) -> List[FuncInfo]:
    out = []
    for f in ctx.model.all_functions():
        if f.module.name in SKIP_MODULES or f.parent is not None or isinstance(f.node, ast.Lambda):
            continue
        if f.name == "__init__" or f.kind == "setter":
            continue
        public = not f.name.startswith("_") or (f.name.startswith("__") and f.name.endswith("__"))
        if public:
            out.append(f)
    return out


def run(ctx: Ctx):
    from .common import check_class_state
    check_class_state(ctx, "R-C14-2", judge=True)
    M, p = ctx.model, prog(ctx)
    ctx.clauses += [
        "R-C14-1 for every public function of the package (constructors and the documented in-place API excepted, table in the rule), "
        "no attribute/subscript store or mutator call - direct or through any callee - is rooted at a Continuum or dissimilarity it was given "
        "(as parameter, as self, or as a field of self such as the sampler's / tool's reference); one allow-listed effect: best_window_size in fast mode",
        "R-C14-2 every function returning a Continuum (or a unit set of one) returns an object whose mutable fields, recursively, are freshly allocated",
        "R-C14-3 inventory of getters returning an internal mutable container; a new one is a violation",
        "R-C14-4 no object keeps, in one of its fields, an alias of an internal mutable container of a Continuum / dissimilarity it was given",
    ]
    ctx.not_decided += ["mutation through C extensions or reflection (setattr/__dict__) - none occurs in the package (checked: no setattr call)"]
    ctx.assumptions += ["Unit and pyannote Segment are immutable (frozen dataclasses)", "deepcopy returns an object sharing no mutable state",
                        "SortedSet(x)/list(x)/np.array(x) allocate a new container"]

    for f in M.all_functions():
        for cs in p.all_calls(f):
            if cs.external in ("builtins.setattr", "builtins.delattr") or cs.method in ("__setattr__", "__dict__"):
                ctx.bad("R-C14-1", f, cs.node, "reflection-based store: outside the effect analysis")

    # ---------------- R-C14-1
    eps = entry_points(ctx)
    ctx.require(len(eps) >= 60, "R-C14-1", f"only {len(eps)} public entry points found (expected >= 60)")
    unresolved = [cs for fl in p._flows.values() for cs in fl.unresolved]
    for cs in unresolved:
        ctx.undecided("R-C14-1", cs.caller, cs.node, "mutator-named call on a receiver whose type could not be inferred")
    n_prot = 0
    for f in sorted(eps, key=lambda x: x.qualname):
        flows = p.flows_of(f)
        viol = []
        seen = set()
        for fl in flows:
            consts = dict(fl.consts)
            for m in fl.mutations:
                if m.av.kind != "param":
                    continue
                pp = protected_prefix(p, fl, m.av)
                if pp is None:
                    continue
                pre, t = pp
                if (f.qualname, pre.name) in MUTATOR_API and not pre.path:
                    if f.qualname == "Continuum.merge" and consts.get("in_place") is False:
                        pass      # out-of-place merge must leave self alone
                    else:
                        continue
                if (f.qualname, pre.name, m.how) in ALLOWED_EFFECTS and not pre.path:
                    continue
                k = (str(m.av), m.how, m.origin())
                if k in seen:
                    continue
                seen.add(k)
                viol.append((m, pre, t, consts))
        has_prot = any(protected_type(M, t) for fl in flows for n, t in fl.types.items() if n in fl.param_names) or \
            (f.cls is not None and f.cls.name in ("Alignment", "SoftAlignment", "UnitaryAlignment", "GammaResults",
                                                   "CorpusShufflingTool") or (f.cls is not None and M.is_subclass(f.cls.name, "AbstractContinuumSampler")))
        if viol:
            for m, pre, t, consts in viol:
                ctx.bad("R-C14-1", f, m.node, f"{m.how} on {m.av} modifies the {t.name} given as `{pre}`"
                        f" (effect originates in {m.origin()}{', specialisation ' + str(consts) if consts else ''})",
                        key=f"{m.av}|{m.how}|{m.origin()}")
        elif has_prot:
            n_prot += 1
            ctx.ok("R-C14-1", f, None, "no write effect rooted at a given continuum / dissimilarity "
                   f"({sum(len(fl.mutations) for fl in flows)} effects inspected over {len(flows)} specialisation(s))",
                   construct="(transitive effects)")
    ctx.require(n_prot >= 40, "R-C14-1", f"only {n_prot} entry points receive a continuum/dissimilarity (expected >= 40)")
    mf = p.flow(ctx.fn("Continuum.merge", "R-C14-1"), (("in_place", False),))
    ctx.check(not [m for m in mf.mutations if m.av.kind == "param"], "R-C14-1", mf.f, None,
              "merge(in_place=False): no effect on self nor on the merged continuum", construct="merge[in_place=False]")
    ctx.notes["entry_points"] = len(eps)
    ctx.notes["mutator_api_exempt"] = sorted(f"{a}({b})" for a, b in MUTATOR_API)

    # ---------------- R-C14-2 freshness
    n_fresh = 0
    for f in M.all_functions():
        if f.module.name in SKIP_MODULES or isinstance(f.node, ast.Lambda):
            continue
        rt = M.return_type(f)
        specs = [()]
        if f.qualname == "Continuum.merge":
            specs = [(("in_place", False),)]
        for consts in specs:
            fl = p.flow(f, consts)
            if fl is None:
                continue
            t = rt or fl.ret_ty
            if t is None:
                continue
            wants = t.name == "Continuum" or (t.name == "tuple" and any(a.name == "Continuum" for a in t.args)) or \
                (f.qualname == "Continuum.__getitem__")
            if not wants:
                continue
            if f.abstract:
                continue
            problems = _deep_fresh(p, fl, fl.returns)
            n_fresh += 1
            if problems:
                for (why, av) in problems:
                    ctx.bad("R-C14-2", f, None, f"returned object is not independent of its source: {why}",
                            construct=f"returns {av}", key=f"{why}")
            else:
                ctx.ok("R-C14-2", f, None, f"all mutable state reachable from the returned value is freshly allocated "
                       f"({len(fl.returns)} abstract return value(s))", construct="(return value)")
    ctx.require(n_fresh >= 10, "R-C14-2", f"only {n_fresh} continuum-returning functions found (expected >= 10)")

    # ---------------- R-C14-3 exposure inventory
    for c in M.classes.values():
        if c.module.name in SKIP_MODULES:
            continue
        for g in c.getters.values():
            fl = p.flow(g)
            if fl is None or g.abstract:
                continue
            for r in fl.returns:
                if r.kind == "param" and r.path:
                    t = p.av_type(fl, r)
                    if t is not None and t.name in ("Iterable",):
                        continue
                    if is_mutable_type(t):
                        if g.qualname in EXPOSURES:
                            ctx.ok("R-C14-3", g, None, f"hands out internal {r} ({t}); listed: {EXPOSURES[g.qualname]}",
                                   construct=f"returns {r}")
                        elif protected_prefix(p, fl, r) is not None:
                            ctx.bad("R-C14-3", g, None, f"getter hands out the internal mutable {t} {r} of a continuum/dissimilarity "
                                    f"(not in the confirmed exposure inventory)", construct=f"returns {r}")
    for f in M.all_functions():
        if f.cls is not None and f.cls.name == "Continuum" and f.kind == "method" and f.qualname not in ("Continuum.merge",):
            fl = p.flow(f)
            rt = M.return_type(f) or (fl.ret_ty if fl else None)
            if rt is not None and rt.name == "Iterable":
                continue      # an iterator cannot be used to modify the container
            for r in (fl.returns if fl else ()):
                if r.kind == "param" and r.name == "self" and r.path and is_mutable_type(p.av_type(fl, r)) \
                        and (p.av_type(fl, r) is None or p.av_type(fl, r).name != "Iterable"):
                    ctx.bad("R-C14-3", f, None, f"method returns the internal mutable container {r}", construct=f"returns {r}")
    ctx.floor("R-C14-3", 1, "exposure inventory (Continuum.categories)")

    # ---------------- R-C14-4 retained aliases of internals
    n_st = 0
    for f in M.all_functions():
        if f.module.name in SKIP_MODULES or f.cls is None or f.cls.name == "Continuum":
            continue
        for fl in p.flows_of(f):
            for (obj, fld, vals, node) in fl.store_nodes:
                if not (obj.kind == "param" and obj.name == f.self_name and not obj.path):
                    continue
                if fld == "[]":
                    continue
                n_st += 1
                for v in vals:
                    if v.kind not in ("param", "xparam") or not v.path:
                        continue
                    pp = protected_prefix(p, fl, v)
                    if pp is None or pp[0] == v or pp[1].name != "Continuum":
                        continue      # (dissimilarities are composed by sharing their components: by design)
                    if v.root == obj.root and v.path[:1] == (fld,):
                        continue
                    t = p.av_type(fl, v)
                    if is_mutable_type(t) and not (t is not None and t.name == "Iterable"):
                        ctx.bad("R-C14-4", f, node, f"self.{fld} keeps an alias of {v} - an internal {t} of the {pp[1].name} it was given; "
                                f"a later change through either side is seen by the other", key=f"{fld}<-{v}")
    ctx.ok("R-C14-4", None, None, f"{n_st} field stores of tool/sampler/alignment objects inspected", construct="(sweep)")


def _deep_fresh(p: Program, fl: Flow, roots) -> List[Tuple[str, AV]]:
    """every mutable object reachable from `roots` through tracked fields must be an allocation of the analysed call"""
    problems = []
    seen: Set[AV] = set()
    work = [(r, "return value") for r in roots]
    while work:
        av, how = work.pop()
        if av in seen:
            continue
        seen.add(av)
        if av.kind in ("func", "const"):
            continue
        if av.kind != "fresh":
            t = p.av_type(fl, av)
            if is_mutable_type(t):
                problems.append((f"{how} aliases {av} ({t or 'unknown type'}), which belongs to an input", av))
            continue
        if ":deepcopy@" in av.root:
            continue
        t = p.av_type(fl, av)
        if t is not None and not is_mutable_type(t):
            continue
        # follow tracked fields / elements of this fresh object
        for (root, path), vals in list(p.heap.items()):
            if root == av.root and len(path) == len(av.path) + 1 and path[:len(av.path)] == av.path:
                step = path[-1]
                for v in vals:
                    vt = p.av_type(fl, v)
                    if v.kind == "fresh" or is_mutable_type(vt):
                        work.append((v, f"{how}{'' if step == '[]' else '.'}{step}"))
    return problems
