"""C15 - the statistical sampler emits valid continua with the reference's statistics (DESIGN 4/C15): parameter roles and guards."""
from __future__ import annotations

import ast
from typing import Dict, List, Optional

from ..cfg import CFG
from ..core import Ctx
from ..model import body_stmts, canon, dotted, kwarg, norm, walk_no_nested
from .common import assigned_value, bound_args, check_sampler_init, conditions_at, enclosing, expand_locals, resolve_local, stores_to

CLS = "StatisticalContinuumSampler"
PAIRS = {"count": ("_avg_nb_units_per_annotator", "_std_nb_units_per_annotator"),
         "gap": ("_avg_gap", "_std_gap"),
         "duration": ("_avg_unit_duration", "_std_unit_duration")}


def _normal(e: ast.AST, sn: str) -> Optional[str]:
    """role of a np.random.normal(self.<avg>, self.<std>) call, or '!<why>'"""
    if isinstance(e, ast.Call) and norm(e.func) in ("np.random.normal", "numpy.random.normal") and len(e.args) + len(e.keywords) == 2 and \
            all(k.arg in ("loc", "scale") for k in e.keywords) and len(e.args) <= 2:
        kw = {k.arg: k.value for k in e.keywords}
        pos = list(e.args)
        a_ = pos[0] if pos else kw.get("loc")
        b_ = pos[1] if len(pos) > 1 else kw.get("scale")
        if a_ is None or b_ is None:
            return None
        a, b = norm(a_), norm(b_)
        for role, (pa, pb) in PAIRS.items():
            if a == f"{sn}.{pa}" and b == f"{sn}.{pb}":
                return role
        return f"!normal({a}, {b}) mixes parameters of different quantities"
    return None


def _strip(e: ast.AST, fns) -> ast.AST:
    while isinstance(e, ast.Call) and dotted(e.func) in fns and len(e.args) == 1:
        e = e.args[0]
    return e


def rule_generation(ctx: Ctx):
    f = ctx.fn(f"{CLS}.sample_from_continuum", "R-C15-1")
    sn = f.self_name
    cfg = CFG(f.node)
    base = [s for s in walk_no_nested(f.node) if isinstance(s, ast.Assign) and norm(s.value) == f"{sn}._reference_continuum.copy_flush()"]
    ctx.check(len(base) == 1, "R-C15-1", f, base[0] if base else None, "the sample is built on copy_flush() of the reference (no unit shared with it)", key="base")
    if not base:
        return
    new = norm(base[0].targets[0])
    rets = [r for r in walk_no_nested(f.node) if isinstance(r, ast.Return)]
    ctx.check(len(rets) == 1 and norm(rets[0].value) == new, "R-C15-1", f, rets[0] if rets else None, "the built continuum is returned", key="return")
    init = [c for c in walk_no_nested(f.node) if isinstance(c, ast.Call) and norm(c.func) == f"{sn}._has_been_init"]
    ctx.check(bool(init) and all(cfg.dominates(cfg.node_containing(init[0]), cfg.node_of(b)) for b in base), "R-C15-1", f, init[0] if init else None,
              "sampling is refused before the sampler was initialised", key="init-guard")
    outer = [L for L in f.node.body if isinstance(L, ast.For)]
    ctx.require(len(outer) == 1, "R-C15-1", "loop over the ground-truth annotators not found")
    O = outer[0]
    an = norm(O.target)
    ctx.check(norm(O.iter) == f"{sn}._ground_truth_annotators", "R-C15-1", f, O, "one sampled annotator per ground-truth annotator (exactly those names)",
              bad_detail=f"annotator loop iterates `{norm(O.iter)}`, not the ground-truth annotators", key="annotators")
    aa = [s for s in O.body if isinstance(s, ast.Expr) and norm(s.value) == f"{new}.add_annotator({an})"]
    ctx.check(len(aa) == 1, "R-C15-1", f, aa[0] if aa else O, "every ground-truth annotator exists in the sample even with zero units", key="add-annotator")
    # count draw
    cdefs = [s for s in O.body if isinstance(s, ast.Assign) and isinstance(s.targets[0], ast.Name) and "random.normal" in norm(s.value)]
    unit_loops = [L for L in O.body if isinstance(L, ast.For) and isinstance(L.iter, ast.Call) and dotted(L.iter.func) == "range"]
    ctx.require(len(unit_loops) == 1, "R-C15-2", "unit loop `for _ in range(nb_units)` not found")
    U = unit_loops[0]
    nvar = norm(U.iter.args[0])
    nd = [s for s in O.body if isinstance(s, ast.Assign) and norm(s.targets[0]) == nvar]
    okc = False
    if nd:
        v = nd[0].value
        inner = v
        shape_ok = isinstance(inner, ast.Call) and dotted(inner.func) == "abs" and isinstance(inner.args[0], ast.Call) and dotted(inner.args[0].func) == "int"
        core = _strip(v, ("abs", "int", "round"))
        if isinstance(core, ast.Name):       # the draw named by an explaining local (bound once, in this block)
            core = resolve_local(f.node, core)
        role = _normal(core, sn)
        okc = shape_ok and role == "count"
        ctx.check(okc, "R-C15-2", f, nd[0], "number of units = |int(N(avg_nb_units, std_nb_units))|",
                  bad_detail=f"unit count is `{norm(v)}` (role {role}); expected abs(int(normal(avg/std of units per annotator)))", key="count-draw")
    # non-emptiness guard before the unit loop
    g = [i for i in O.body if isinstance(i, ast.If) and norm(i.test) == f"not {new}" and len(i.body) == 1 and
         norm(i.body[0]) in (f"{nvar} = max(1, {nvar})", f"{nvar} = max({nvar}, 1)")]
    alt = [s_ for s_ in O.body if s_ is not U and O.body.index(s_) < O.body.index(U) and not g and
           new in {x.id for x in ast.walk(s_) if isinstance(x, ast.Name)} and nvar in {x.id for x in ast.walk(s_) if isinstance(x, ast.Name)}]
    if alt and not g:
        ok_alt = any(isinstance(s_, ast.Assign) and norm(s_.targets[0]) == nvar and norm(s_.value) in (
            f"max(0 if {new} else 1, {nvar})", f"max({nvar}, 0 if {new} else 1)", f"max(1 if not {new} else 0, {nvar})", f"max({nvar}, 1 if not {new} else 0)") for s_ in alt)
        if ok_alt:
            ctx.ok("R-C15-2", f, alt[0], "while the sample is still empty the next annotator gets at least one unit (max with 1 when empty)", key="nonempty")
        else:
            ctx.undecided("R-C15-2", f, alt[0], "a statement relates the unit count to the emptiness of the sample, but not in a recognised guard shape (not a verdict)", key="nonempty")
    else:
      ctx.check(len(g) == 1 and O.body.index(g[0]) < O.body.index(U) and (not nd or O.body.index(nd[0]) < O.body.index(g[0])), "R-C15-2", f, g[0] if g else None,
                "while the sample is still empty the next annotator gets at least one unit: the returned continuum is never empty",
                bad_detail="no `if not sample: nb_units = max(1, nb_units)` guard between the count draw and the unit loop: an empty sample can be returned", key="nonempty")
    # unit body
    body = U.body
    env: Dict[str, ast.AST] = {}
    for s in body:
        if isinstance(s, ast.Assign) and isinstance(s.targets[0], ast.Name):
            env.setdefault(s.targets[0].id, s.value)
    adds = [c for c in ast.walk(U) if isinstance(c, ast.Call) and norm(c.func) == f"{new}.add"]
    ctx.require(len(adds) == 1, "R-C15-2", "single new_continuum.add(...) per unit expected")
    ad = adds[0]
    seg = ad.args[1] if len(ad.args) > 1 else None
    ok_args = len(ad.args) == 3 and norm(ad.args[0]) == an and isinstance(seg, ast.Call) and dotted(seg.func) == "Segment" and len(seg.args) == 2
    ctx.check(ok_args, "R-C15-2", f, ad, "each unit is added under the current annotator as Segment(start, end) with the drawn category", key="add")
    if not ok_args:
        return
    sv, ev, cv = norm(seg.args[0]), norm(seg.args[1]), norm(ad.args[2])
    # start = last_point + gap, gap ~ gap params
    sdef = env.get(sv)
    okg = False
    last = None
    if isinstance(sdef, ast.BinOp) and isinstance(sdef.op, ast.Add):
        parts = [sdef.left, sdef.right]
        gaps = [p for p in parts if _normal(resolve_local(U, p) if isinstance(p, ast.Name) and p.id in env else p, sn) or
                (isinstance(p, ast.Name) and p.id in env and _normal(env[p.id], sn))]
        for p_ in parts:
            e = env[p_.id] if isinstance(p_, ast.Name) and p_.id in env else p_
            r = _normal(e, sn)
            if r == "gap":
                other = parts[1 - parts.index(p_)]
                last = norm(other)
                okg = True
            elif r is not None:
                ctx.bad("R-C15-2", f, sdef, f"the gap before a unit is drawn with the {r if not r.startswith('!') else r[1:]} parameters", key="gap-draw")
    if okg:
        resets = [s for s in O.body if isinstance(s, ast.Assign) and norm(s.targets[0]) == last and norm(s.value) in ("0", "0.0") and O.body.index(s) < O.body.index(U)]
        upd = [s for s in body if isinstance(s, ast.Assign) and norm(s.targets[0]) == last and norm(s.value) == ev]
        ctx.check(len(resets) == 1 and len(upd) == 1 and body.index(upd[0]) == len(body) - 1, "R-C15-2", f, sdef,
                  "start = previous end + gap ~ N(avg_gap, std_gap); previous end restarts at 0 for each annotator and is updated after each unit",
                  bad_detail="the running `previous end` is not reset per annotator / updated to the new unit's end", key="gap-draw")
    elif not any(o.key.endswith("gap-draw") for o in ctx.obls):
        ctx.bad("R-C15-2", f, sdef, "unit start is not `previous end + N(avg_gap, std_gap)`", key="gap-draw")
    # end = start + |N(dur)|, redrawn while below the precision
    edefs = [s for s in ast.walk(U) if isinstance(s, ast.Assign) and norm(s.targets[0]) == ev]
    okd = bool(edefs)
    for s in edefs:
        v = s.value
        good = isinstance(v, ast.BinOp) and isinstance(v.op, ast.Add) and norm(v.left) == sv and isinstance(v.right, ast.Call) and \
            dotted(v.right.func) in ("abs", "np.abs") and _normal(v.right.args[0], sn) == "duration"
        if not good:
            okd = False
            r = _normal(_strip(v.right, ("abs", "np.abs")) if isinstance(v, ast.BinOp) else v, sn)
            ctx.bad("R-C15-2", f, s, f"unit end is `{norm(v)}`; expected start + |N(avg_duration, std_duration)|" + (f" (draw role: {r})" if r else ""), key="duration-draw")
    if okd:
        ctx.ok("R-C15-2", f, edefs[0], f"end = start + |N(avg_duration, std_duration)| at all {len(edefs)} assignments", key="duration-draw")
    wl = [w for w in body if isinstance(w, ast.While)]
    okw = False
    if len(wl) == 1:
        t = norm(wl[0].test)
        okw = t in (f"{ev} - {sv} < pyannote.core.segment.SEGMENT_PRECISION", f"{ev} - {sv} <= pyannote.core.segment.SEGMENT_PRECISION",
                    f"{ev} - {sv} < SEGMENT_PRECISION") and \
            len(wl[0].body) == 1 and wl[0].body[0] in edefs and cfg.dominates(cfg.node_of(wl[0]), cfg.node_containing(ad)) and len(edefs) == 2
    ctx.check(okw, "R-C15-2", f, wl[0] if wl else None, "the duration is redrawn while the segment is shorter than pyannote's SEGMENT_PRECISION; the loop precedes add()",
              bad_detail="segments shorter than the segment precision are not excluded by a redraw loop placed before add()", key="precision-guard")
    # category
    cdef = env.get(cv)
    okcat = isinstance(cdef, ast.Call) and norm(cdef.func) in ("np.random.choice", "numpy.random.choice") and len(cdef.args) == 1 and \
        norm(cdef.args[0]) == f"{sn}._categories" and kwarg(cdef, "p") is not None and norm(kwarg(cdef, "p")) == f"{sn}._categories_weight"
    if not (isinstance(cdef, ast.Call) and norm(cdef.func) in ("np.random.choice", "numpy.random.choice")):
        # another way of drawing from a categorical law (inverse cdf, multinomial, ...): a different design, not a wrong slot
        ctx.undecided("R-C15-2", f, cdef, f"the category is not drawn with np.random.choice (`{norm(cdef) if cdef is not None else 'no recognisable draw'}`): "
                      f"whether that draw follows the categorical law is not decided here (not a verdict)", key="category-draw")
    else:
        ctx.check(okcat, "R-C15-2", f, cdef, "category ~ categorical law over the sampler's categories with p = their weights",
                  bad_detail=f"category draw is `{norm(cdef)}`: not np.random.choice(self._categories, p=self._categories_weight)", key="category-draw")


def rule_estimators(ctx: Ctx):
    M = ctx.model
    R_ = "{sn}._reference_continuum"
    specs = [("_set_nb_units_information", "count", {"[len(s) for a, s in {R}._annotations.items()]", "[len(s) for s in {R}._annotations.values()]"}),
             ("_set_duration_information", "duration", {"[u.segment.duration for a, u in {R}]", "[u.segment.end - u.segment.start for a, u in {R}]"}),
             ("_set_gap_information", "gap", None)]
    for name, role, elts in specs:
        f = ctx.fn(f"{CLS}.{name}", "R-C15-3")
        sn = f.self_name
        pa, pb = PAIRS[role]
        sa = [s for s in walk_no_nested(f.node) if isinstance(s, ast.Assign) and norm(s.targets[0]) == f"{sn}.{pa}"]
        sb = [s for s in walk_no_nested(f.node) if isinstance(s, ast.Assign) and norm(s.targets[0]) == f"{sn}.{pb}"]
        ok = False
        lst = None
        if len(sa) == 1 and len(sb) == 1:
            ca, cb = _strip(sa[0].value, ("float",)), _strip(sb[0].value, ("float",))
            if isinstance(ca, ast.Call) and isinstance(cb, ast.Call) and norm(ca.func) in ("np.mean", "np.average") and norm(cb.func) == "np.std" and \
                    norm(ca.args[0]) == norm(cb.args[0]):
                lst = norm(ca.args[0])
                ok = True
        ctx.check(ok, "R-C15-3", f, sa[0] if sa else None, f"{role}: mean and standard deviation are taken over the same list `{lst}`",
                  bad_detail=f"{role}: `{pa}` / `{pb}` are not np.mean / np.std of one and the same list", key=f"pair:{role}")
        if not ok:
            continue
        ldef = assigned_value(f.node, lst)
        if elts is not None:
            okl = len(ldef) == 1 and isinstance(ldef[0], ast.ListComp) and canon(ldef[0]) in {canon(e.replace("{R}", f"{sn}._reference_continuum")) for e in elts}
            ctx.check(okl, "R-C15-3", f, ldef[0] if ldef else None, f"{role}: the list holds the right quantity for every unit / annotator of the reference",
                      bad_detail=f"{role}: the list `{lst}` does not hold the right quantity over the whole reference", key=f"list:{role}")
        else:
            apps = [c for c in walk_no_nested(f.node) if isinstance(c, ast.Call) and norm(c.func) == f"{lst}.append"]
            same_annot = [c for c in apps if isinstance(c.args[0], ast.BinOp) and isinstance(c.args[0].op, ast.Sub) and
                          norm(c.args[0].left).endswith(".segment.start") and norm(c.args[0].right).endswith(".segment.end")]
            okgap = False
            if len(same_annot) == 1:
                c = same_annot[0]
                cur, prev = norm(c.args[0].left)[:-len(".segment.start")], norm(c.args[0].right)[:-len(".segment.end")]
                ifs = enclosing(f.node, c, (ast.If,))
                loops = enclosing(f.node, c, (ast.For,))
                upd = [s for s in (loops[-1].body if loops else []) if isinstance(s, ast.Assign) and norm(s.targets[0]) == prev and norm(s.value) == cur]
                # reached exactly when the annotator of this item is the annotator of the previous one (either polarity / branch order)
                same = [(t, pol) for t, pol in conditions_at(f.node, c) if isinstance(t, ast.Compare) and len(t.ops) == 1 and isinstance(t.ops[0], (ast.Eq, ast.NotEq))]
                same_ok = len(same) == 1 and isinstance(same[0][0].ops[0], ast.Eq if same[0][1] else ast.NotEq)
                okgap = bool(loops) and norm(expand_locals(f.node, loops[-1].iter)) == f"{sn}._reference_continuum" and bool(upd) and \
                    loops[-1].body.index(upd[0]) == len(loops[-1].body) - 1 and len(ifs) == 1 and same_ok
            shape1_skeleton = False
            if len(same_annot) == 1:
                l_ = enclosing(f.node, same_annot[0], (ast.For,))
                shape1_skeleton = bool(l_) and norm(expand_locals(f.node, l_[-1].iter)) == f"{sn}._reference_continuum"
            if not okgap and not shape1_skeleton:
                # second shape: per annotator, over the consecutive pairs of its units
                #   for S in R._annotations.values(): lst.extend(u.segment.start - p.segment.end for p, u in pairwise(S))     (or zip(S, S[1:]))
                shape2 = None
                for c in walk_no_nested(f.node):
                    if not (isinstance(c, ast.Call) and norm(c.func) in (f"{lst}.extend", f"{lst}.append") and len(c.args) == 1):
                        continue
                    g_ = c.args[0]
                    loops = enclosing(f.node, c, (ast.For,))
                    if isinstance(g_, (ast.GeneratorExp, ast.ListComp)) and len(g_.generators) == 1 and not g_.generators[0].ifs:
                        elt, tgt, it = g_.elt, g_.generators[0].target, g_.generators[0].iter
                    elif isinstance(g_, ast.BinOp) and loops and norm(c.func).endswith(".append"):
                        elt, tgt, it = g_, loops[-1].target, loops[-1].iter
                        loops = loops[:-1]
                    else:
                        continue
                    if not (isinstance(elt, ast.BinOp) and isinstance(elt.op, ast.Sub) and norm(elt.left).endswith(".segment.start") and norm(elt.right).endswith(".segment.end")):
                        continue
                    cur, prev = norm(elt.left)[:-len(".segment.start")], norm(elt.right)[:-len(".segment.end")]
                    S = None
                    if isinstance(it, ast.Call) and norm(it.func) in ("pairwise", "itertools.pairwise") and len(it.args) == 1:
                        S = norm(it.args[0])
                    elif isinstance(it, ast.Call) and norm(it.func) == "zip" and len(it.args) == 2 and \
                            norm(it.args[1]) in (f"islice({norm(it.args[0])}, 1, None)", f"itertools.islice({norm(it.args[0])}, 1, None)"):
                        S = norm(it.args[0])
                    elif isinstance(it, ast.Call) and norm(it.func) == "zip" and len(it.args) == 2 and \
                            norm(it.args[1]) in (f"{norm(it.args[0])}[1:]", f"{norm(it.args[0]).replace('[:-1]', '')}[1:]") and \
                            (norm(it.args[0]).endswith("[:-1]") or not isinstance(it.args[0], ast.Subscript)):
                        S = norm(it.args[0]).replace("[:-1]", "")
                    if S is None or not (isinstance(tgt, ast.Tuple) and len(tgt.elts) == 2 and all(isinstance(e, ast.Name) for e in tgt.elts)):
                        continue
                    per_annotator = bool(loops) and norm(expand_locals(f.node, loops[-1].iter)) in (f"{sn}._reference_continuum._annotations.values()",
                                                                                                   f"{sn}._reference_continuum._annotations.items()") and \
                        S in {x.id for x in ast.walk(loops[-1].target) if isinstance(x, ast.Name)}
                    shape2 = (c, [e.id for e in tgt.elts] == [prev, cur], per_annotator)
                if shape2 is None:
                    ctx.undecided("R-C15-3", f, None, "gap: the list of gaps is built neither by the one-pass loop over the reference (previous unit of the same annotator) nor per "
                                  "annotator over consecutive pairs: shape not recognised (not a verdict)", key="list:gap")
                else:
                    c, order_ok, per_annotator = shape2
                    if not per_annotator:
                        ctx.undecided("R-C15-3", f, c, "gap: consecutive pairs are taken, but not of each annotator's own units (not a verdict)", key="list:gap")
                    else:
                        ctx.check(order_ok, "R-C15-3", f, c, "gap: start of a unit minus end of the previous unit of the same annotator, over each annotator's consecutive pairs",
                                  bad_detail="the gap of a consecutive pair is taken as `start of the earlier unit - end of the later one`", key="list:gap")
            else:
                ctx.check(okgap, "R-C15-3", f, same_annot[0] if same_annot else None,
                          "gap: start of a unit minus end of the previous unit of the same annotator (no gap across annotators)",
                          bad_detail="gaps are not `start - previous end` between consecutive units of the same annotator", key="list:gap")
    f = ctx.fn(f"{CLS}._set_categories_information", "R-C15-3")
    sn = f.self_name
    cats = [s for s in walk_no_nested(f.node) if isinstance(s, ast.Assign) and norm(s.value) == f"{sn}._reference_continuum.categories"]
    okc = False
    if len(cats) == 1:
        cs = norm(cats[0].targets[0])
        arr = any(isinstance(s, ast.Assign) and norm(s.targets[0]) == f"{sn}._categories" and norm(s.value) == f"np.array({cs})" for s in walk_no_nested(f.node))
        zer = any(isinstance(s, ast.Assign) and norm(s.targets[0]) == f"{sn}._categories_weight" and norm(s.value) == f"np.zeros(len({cs}))" for s in walk_no_nested(f.node))
        inc = [s for s in walk_no_nested(f.node) if isinstance(s, ast.AugAssign) and isinstance(s.op, ast.Add) and norm(s.value) == "1" and
               norm(s.target).startswith(f"{sn}._categories_weight[{cs}.index(") and norm(s.target).endswith(".annotation)]")]
        loops = enclosing(f.node, inc[0], (ast.For,)) if inc else []
        nrm = [s for s in walk_no_nested(f.node) if isinstance(s, ast.AugAssign) and isinstance(s.op, ast.Div) and norm(s.target) == f"{sn}._categories_weight"
               and norm(s.value) in (f"{sn}._reference_continuum.num_units", f"np.sum({sn}._categories_weight)", f"{sn}._categories_weight.sum()")]
        okc = arr and zer and len(inc) == 1 and bool(loops) and norm(loops[-1].iter) == f"{sn}._reference_continuum" and len(nrm) == 1
    ctx.check(okc, "R-C15-3", f, cats[0] if cats else None, "categories = the reference's; weight[c] = (number of units labelled c) / (number of units), same index space (sorted categories)",
              bad_detail="category weights are not label counts over the reference's units divided by the number of units, indexed like the category array", key="categories")
    check_sampler_init(ctx, "R-C15-3")
    g = ctx.fn(f"{CLS}.init_sampling", "R-C15-3")
    calls = [norm(s.value.func) for s in body_stmts(g.node) if isinstance(s, ast.Expr) and isinstance(s.value, ast.Call)]
    want = {f"{g.self_name}._set_gap_information", f"{g.self_name}._set_duration_information", f"{g.self_name}._set_categories_information",
            f"{g.self_name}._set_nb_units_information"}
    okI = calls and calls[0] == "super().init_sampling" and set(calls[1:]) == want
    sup = [s.value for s in body_stmts(g.node) if isinstance(s, ast.Expr) and isinstance(s.value, ast.Call) and norm(s.value.func) == "super().init_sampling"]
    base_init = ctx.model.functions.get("AbstractContinuumSampler.init_sampling")
    ba_ = bound_args(sup[0], base_init) if sup and base_init is not None else None
    okI = okI and sup and ba_ is not None and [norm(ba_.get(p)) for p in base_init.params[1:3]] == g.params[1:3]
    if okI:
        from ..cfg import EXIT
        gc = CFG(g.node)
        for s in body_stmts(g.node):
            if isinstance(s, ast.Expr) and isinstance(s.value, ast.Call) and norm(s.value.func) in want:
                okI = okI and gc.node_of(s) is not None and gc.must_pass(EXIT, [gc.node_of(s)])
    ctx.check(bool(okI), "R-C15-3", g, None, "init_sampling records reference and ground truth, then measures all four parameter groups on the reference",
              bad_detail=f"init_sampling does not run super().init_sampling(reference, ground truth) followed by the four estimators: {calls}", construct="init_sampling", key="init")


def rule_custom(ctx: Ctx):
    f = ctx.fn(f"{CLS}.init_sampling_custom", "R-C15-4")
    sn = f.self_name
    table = {"_avg_nb_units_per_annotator": "avg_num_units_per_annotator", "_std_nb_units_per_annotator": "std_num_units_per_annotator",
             "_avg_gap": "avg_gap", "_std_gap": "std_gap", "_avg_unit_duration": "avg_duration", "_std_unit_duration": "std_duration"}
    for fld, par in table.items():
        st = [s for s in walk_no_nested(f.node) if isinstance(s, ast.Assign) and norm(s.targets[0]) == f"{sn}.{fld}"]
        ctx.check(len(st) == 1 and norm(expand_locals(f.node, st[0].value)) == par and par in f.params, "R-C15-4", f, st[0] if st else None, f"self.{fld} = {par}",
                  bad_detail=f"custom parameter `{par}` is not stored in `{fld}` (a draw would use another quantity's parameter)", key=f"custom:{fld}")
    cat = [s for s in walk_no_nested(f.node) if isinstance(s, ast.Assign) and norm(s.targets[0]) == f"{sn}._categories"]
    ctx.check(len(cat) == 1 and norm(expand_locals(f.node, cat[0].value)) == "np.array(categories)", "R-C15-4", f, cat[0] if cat else None, "custom categories stored as given", key="custom:categories")
    wt = [s for s in walk_no_nested(f.node) if isinstance(s, ast.Assign) and norm(s.targets[0]) == f"{sn}._categories_weight"]
    okw = len(wt) == 2 and norm(wt[0].value) == "None" and norm(expand_locals(f.node, wt[1].value)) == "np.array(categories_weight)" and \
        any(isinstance(i, ast.If) and norm(i.test) == "categories_weight is not None" and any(wt[1] is x for x in ast.walk(i)) for i in walk_no_nested(f.node))
    ctx.check(okw, "R-C15-4", f, wt[-1] if wt else None, "custom weights stored when given, None (uniform) otherwise", key="custom:weights")
    dm = [c for c in walk_no_nested(f.node) if isinstance(c, ast.Call) and norm(c.func) == "super().init_sampling"]
    loops = [L for L in walk_no_nested(f.node) if isinstance(L, ast.For) and norm(L.iter) == "annotators"]
    def _gt_absent(c):
        bi = ctx.model.functions.get("AbstractContinuumSampler.init_sampling")
        ba = bound_args(c, bi) if bi is not None else None
        return ba is not None and len(bi.params) >= 3 and bi.params[1] in ba and \
            (bi.params[2] not in ba or (isinstance(ba[bi.params[2]], ast.Constant) and ba[bi.params[2]].value is None))
    okd = len(dm) == 1 and len(dm[0].args) >= 1 and _gt_absent(dm[0]) and len(loops) == 1 and any(isinstance(c, ast.Call) and norm(c.func) == f"{norm(dm[0].args[0])}.add" and
                                                                               norm(c.args[0]) == norm(loops[0].target) for c in ast.walk(loops[0]))
    ctx.check(okd, "R-C15-4", f, dm[0] if dm else None, "the custom sampler's annotators are exactly the given ones (all are ground truth)", key="custom:annotators")


def run(ctx: Ctx):
    ctx.clauses += [
        "R-C15-1 structure: built on copy_flush(), one annotator per ground-truth annotator (added even when empty), returned; refused before initialisation",
        "R-C15-2 every draw uses the parameters of its own quantity: count = |int(N(avg_nb, std_nb))| with the non-emptiness guard before the unit loop; start = previous end + N(avg_gap, std_gap); "
        "end = start + |N(avg_dur, std_dur)| redrawn while below SEGMENT_PRECISION (loop dominates add); category ~ choice(categories, p=weights)",
        "R-C15-3 estimators: each (mean, std) pair is computed over one list holding the right quantity of the reference; category weights = label counts / number of units; init_sampling runs all four",
        "R-C15-4 init_sampling_custom stores every supplied parameter in the field its draw reads",
    ]
    ctx.not_decided += ["the distributional clause (law of the samples over many draws): no static argument in reach - numpy's normal/choice are trusted, only their parameters are checked"]
    ctx.assumptions += ["numpy.random.normal(mean, std) and numpy.random.choice(a, p=...) implement the laws they name", "Continuum.add rejects zero-length segments (C13)"]
    rule_generation(ctx)
    rule_estimators(ctx)
    rule_custom(ctx)
