"""Analysis of the ILP posed by get_best_alignment / get_best_soft_alignment (shared by C01, C02, C03, C08, C11)."""
from __future__ import annotations

import ast
import copy
from dataclasses import dataclass, field
from typing import Dict, List, Optional, Tuple

from ..cfg import CFG, EXIT
from ..core import Ctx
from ..model import AnalysisError, FuncInfo, dotted, kwarg, norm, walk_no_nested
from .common import assigned_value, check_alignment_record, check_unitary_record, enclosing, expand_locals, flat_subscript, prog, resolve_local, source_order, stores_to, view_env

INF = float("inf")


@dataclass
class Problem:
    node: ast.Call
    branch: str                     # "try" | "handler" | "plain"
    sense: Optional[str]            # Minimize / Maximize
    objective: Optional[str]        # normalised "disorders@x"
    lower: Optional[float]
    upper: Optional[float]
    constraint_ok: bool
    constraint_why: str
    solver: Optional[str]
    solved: bool
    ignored: List[str] = field(default_factory=list)


@dataclass
class IlpFacts:
    f: FuncInfo
    disorders: str = ""
    cands: str = ""
    valid_call: Optional[ast.Call] = None
    sizes: str = ""
    A: str = ""
    x: str = ""
    n: str = ""
    problems: List[Problem] = field(default_factory=list)
    try_node: Optional[ast.Try] = None
    notes: Dict[str, object] = field(default_factory=dict)


def _lin_expr_kind(f: FuncInfo, e: ast.AST, A: str, x: str) -> Optional[str]:
    """'Ax' if e denotes A @ x (possibly through a local alias)"""
    e = resolve_local(f.node, e)
    if isinstance(e, ast.BinOp) and isinstance(e.op, ast.MatMult) and norm(e.left) == A and norm(e.right) == x:
        return "Ax"
    return None


def _num(e: ast.AST) -> Optional[float]:
    if isinstance(e, ast.Constant) and isinstance(e.value, (int, float)) and not isinstance(e.value, bool):
        return float(e.value)
    return None


class _Subst(ast.NodeTransformer):
    def __init__(self, binding, flags, rename):
        self.b, self.flags, self.rename = binding, flags, rename

    def visit_Name(self, n: ast.Name):
        if n.id in self.b:
            return copy.deepcopy(self.b[n.id])
        if n.id in self.rename:
            return ast.copy_location(ast.Name(id=self.rename[n.id], ctx=n.ctx), n)
        return n

    def _fold(self, t):
        if isinstance(t, ast.Name) and t.id in self.flags:
            return self.flags[t.id]
        if isinstance(t, ast.UnaryOp) and isinstance(t.op, ast.Not):
            v = self._fold(t.operand)
            return None if v is None else (not v)
        return None

    def visit_If(self, n: ast.If):
        v = self._fold(n.test)
        if v is None:
            return self.generic_visit(n)
        out = []
        for s_ in (n.body if v else n.orelse):
            r = self.visit(s_)
            out += r if isinstance(r, list) else [r]
        return out or [ast.copy_location(ast.Pass(), n)]

    def visit_IfExp(self, n: ast.IfExp):
        v = self._fold(n.test)
        if v is None:
            return self.generic_visit(n)
        return self.visit(n.body if v else n.orelse)


def inline_solve_helper(ctx: Ctx, f: FuncInfo) -> FuncInfo:
    """If the solve step was extracted into a package helper (called with plain arguments / constant flags), return a virtual
    FuncInfo whose body has the helper inlined (parameters substituted, constant flags folded, `return E` -> `target = E`)."""
    M = ctx.model
    if any(isinstance(c, ast.Call) and norm(c.func) in ("cp.Problem", "cvxpy.Problem") for c in walk_no_nested(f.node)):
        return f
    for idx, st in enumerate(f.node.body):
        if not (isinstance(st, ast.Assign) and isinstance(st.value, ast.Call)):
            continue
        call = st.value
        name = call.func.attr if isinstance(call.func, ast.Attribute) else (call.func.id if isinstance(call.func, ast.Name) else None)
        callee = None
        if isinstance(call.func, ast.Attribute) and isinstance(call.func.value, ast.Name) and f.cls is not None and \
                call.func.value.id in (f.self_name, f.cls.name):
            callee = M.find_method(f.cls, name)
        elif isinstance(call.func, ast.Name):
            callee = f.module.functions.get(name)
        if callee is None or not any(isinstance(c, ast.Call) and norm(c.func) in ("cp.Problem", "cvxpy.Problem") for c in walk_no_nested(callee.node)):
            continue
        params = callee.params[1:] if callee.kind in ("method", "classmethod") else callee.params
        binding, flags = {}, {}
        for pn, a in list(zip(params, call.args)) + [(k.arg, k.value) for k in call.keywords]:
            if isinstance(a, ast.Constant) and isinstance(a.value, bool):
                flags[pn] = a.value
            binding[pn] = a
        body = [x for x in callee.node.body if not (isinstance(x, ast.Expr) and isinstance(x.value, ast.Constant))]
        if not body or not isinstance(body[-1], ast.Return) or any(isinstance(x, ast.Return) for b in body[:-1] for x in ast.walk(b)):
            raise AnalysisError("ilp", f"{callee.qualname}: helper with several returns cannot be inlined")
        locals_ = {t.id for x in ast.walk(callee.node) for t in ([x] if isinstance(x, ast.Name) and isinstance(x.ctx, ast.Store) else [])} - set(params)
        caller_names = {x.id for x in ast.walk(f.node) if isinstance(x, ast.Name)}
        rename = {n: f"{n}__h" for n in locals_ if n in caller_names}
        tr = _Subst(binding, flags, rename)
        new_body = []
        for x in body[:-1]:
            r = tr.visit(copy.deepcopy(x))
            new_body += r if isinstance(r, list) else [r]
        ret = tr.visit(copy.deepcopy(body[-1].value))
        new_body.append(ast.copy_location(ast.Assign(targets=copy.deepcopy(st.targets), value=ret), body[-1]))
        virt = copy.copy(f.node)
        virt.body = list(f.node.body[:idx]) + new_body + list(f.node.body[idx + 1:])
        ast.fix_missing_locations(virt)
        vf = FuncInfo(f.qualname, f.name, virt, f.module, f.cls, f.parent, f.kind, f.decorators)
        ctx.note(f"{f.qualname}: solve step inlined from helper {callee.qualname} with flags {flags}")
        ctx.functions_analysed.add(callee.qualname)
        return vf
    return f


def analyse(ctx: Ctx, qualname: str, rule: str) -> IlpFacts:
    f = inline_solve_helper(ctx, ctx.fn(qualname, rule))
    F = IlpFacts(f)
    sn = f.self_name
    dis_p = f.params[1]
    # disorders, cands = dissimilarity.valid_alignments(self)
    for s in walk_no_nested(f.node):
        if isinstance(s, ast.Assign) and isinstance(s.targets[0], ast.Tuple) and len(s.targets[0].elts) == 2 and \
                isinstance(s.value, ast.Call) and norm(s.value.func) == f"{dis_p}.valid_alignments":
            F.disorders, F.cands = norm(s.targets[0].elts[0]), norm(s.targets[0].elts[1])
            F.valid_call = s.value
    if not F.disorders:
        raise AnalysisError(rule, f"{qualname}: `disorders, candidates = dissimilarity.valid_alignments(self)` not found")
    for s in walk_no_nested(f.node):
        if isinstance(s, ast.Assign) and isinstance(s.targets[0], ast.Name) and isinstance(s.value, ast.Call):
            c = s.value
            if dotted(c.func) == "build_A" and len(c.args) == 2:
                F.A, F.notes["build_A_args"] = s.targets[0].id, [norm(a) for a in c.args]
                F.sizes = norm(c.args[1])
            if norm(c.func) in ("cp.Variable", "cvxpy.Variable"):
                F.x = s.targets[0].id
                F.notes["x_call"] = c
    if not F.A or not F.x:
        raise AnalysisError(rule, f"{qualname}: build_A(...) / cp.Variable(...) not found")
    tries = [s for s in walk_no_nested(f.node) if isinstance(s, ast.Try)]
    tries = [t for t in tries if any(isinstance(c, ast.Call) and norm(c.func) in ("cp.Problem", "cvxpy.Problem") for c in ast.walk(t))]
    F.try_node = tries[0] if tries else None
    for c in walk_no_nested(f.node):
        if isinstance(c, ast.Call) and norm(c.func) in ("cp.Problem", "cvxpy.Problem"):
            branch = "plain"
            if F.try_node is not None:
                if any(c is x for b in F.try_node.body for x in ast.walk(b)):
                    branch = "try"
                elif any(c is x for h in F.try_node.handlers for x in ast.walk(h)):
                    branch = "handler"
            F.problems.append(_problem(F, c, branch))
    return F


def _problem(F: IlpFacts, c: ast.Call, branch: str) -> Problem:
    f = F.f
    obj = c.args[0] if c.args else kwarg(c, "objective")
    cons = c.args[1] if len(c.args) > 1 else kwarg(c, "constraints")
    sense = objective = None
    obj = resolve_local(f.node, obj) if obj is not None else None
    if isinstance(obj, ast.Call) and norm(obj.func) in ("cp.Minimize", "cp.Maximize", "cvxpy.Minimize", "cvxpy.Maximize") and obj.args:
        sense = norm(obj.func).split(".")[-1]
        e = resolve_local(f.node, obj.args[0])
        t = norm(e)
        if t in (f"{F.disorders}.T @ {F.x}", f"{F.disorders} @ {F.x}", f"{F.x} @ {F.disorders}", f"{F.x}.T @ {F.disorders}",
                 f"cp.sum(cp.multiply({F.disorders}, {F.x}))", f"cp.sum(cp.multiply({F.x}, {F.disorders}))"):
            objective = "disorders@x"
        else:
            # in terms of the function's own values (a local holding disorders[ids] shows as the selection it is)
            objective = norm(expand_locals(f.node, e, skip=(F.x, F.disorders)))
    lower, upper = -INF, INF
    ok, why = True, ""
    elts = None
    if isinstance(cons, ast.Name):
        # list literal followed by unconditional .append(...) calls before the Problem is built
        init = [v for v in assigned_value(f.node, cons.id) if isinstance(v, (ast.List, ast.Tuple))]
        if len(init) == 1:
            elts = list(init[0].elts)
            for a in walk_no_nested(f.node):
                if isinstance(a, ast.Call) and isinstance(a.func, ast.Attribute) and a.func.attr in ("append",) and norm(a.func.value) == cons.id \
                        and source_order(f.node).get(id(a), 0) < source_order(f.node).get(id(c), 0):
                    guards = [g for g in enclosing(f.node, a, (ast.If, ast.For, ast.While))]
                    if guards:
                        ok, why = False, f"constraint `{norm(a.args[0])}` is appended conditionally"
                    elts.append(a.args[0])
    else:
        cons = resolve_local(f.node, cons) if cons is not None else None
        if isinstance(cons, (ast.List, ast.Tuple)):
            elts = list(cons.elts)
    ignored = []
    aggregates = []
    if elts is None:
        ok, why = False, "constraints are not a literal list"
    else:
        if not elts:
            ok, why = False, "empty constraint list"
        for e in elts:
            e = resolve_local(f.node, e)
            # bounds on the boolean variable itself do not constrain A @ x
            if isinstance(e, ast.Compare) and len(e.ops) == 1 and ((norm(e.left) == F.x and _num(e.comparators[0]) is not None) or
                                                                   (norm(e.comparators[0]) == F.x and _num(e.left) is not None)):
                ignored.append(norm(e))
                continue
            if not (isinstance(e, ast.Compare) and len(e.ops) == 1):
                ok, why = False, f"constraint `{norm(e)}` is not a single comparison"
                continue
            l, r, op = e.left, e.comparators[0], e.ops[0]
            # aggregate constraint  cp.sum(A @ x) <= K : together with A@x >= 1 it forces A@x == 1 iff K is the number of units (rows of A)
            agg = None
            for side, other, le in ((l, r, isinstance(op, ast.LtE)), (r, l, isinstance(op, ast.GtE))):
                if isinstance(side, ast.Call) and norm(side.func) in ("cp.sum", "cvxpy.sum", "sum") and len(side.args) == 1 and \
                        _lin_expr_kind(f, side.args[0], F.A, F.x) == "Ax" and le:
                    agg = resolve_local(f.node, other)
            if agg is not None:
                kt = norm(agg)
                sizes = F.sizes
                units = {f"{F.A}.shape[0]", f"len({F.A})", f"np.sum({sizes})", f"{sizes}.sum()", f"{f.self_name}.num_units", f"sum({sizes})"}
                cands = {f"len({F.disorders})", f"len({F.cands})", f"{F.A}.shape[1]", f"{F.disorders}.shape[0]", f"len({F.x})"}
                if kt in units:
                    aggregates.append(("units", norm(e)))
                elif kt in cands:
                    aggregates.append(("candidates", norm(e)))
                    ignored.append(norm(e) + "  [sum bounded by the number of CANDIDATES, not of units: slack as soon as a candidate holds 2+ units]")
                else:
                    ok, why = False, f"aggregate constraint `{norm(e)}`: cannot tell whether its bound is the number of units"
                continue
            lk, rk = _lin_expr_kind(f, l, F.A, F.x), _lin_expr_kind(f, r, F.A, F.x)
            if lk == "Ax" and _num(r) is not None:
                cval, side = _num(r), "left"
            elif rk == "Ax" and _num(l) is not None:
                cval, side = _num(l), "right"
            else:
                ok, why = False, f"constraint `{norm(e)}` is not `A @ x <op> constant`"
                continue
            if isinstance(op, ast.Eq):
                lower, upper = max(lower, cval), min(upper, cval)
            elif (isinstance(op, ast.LtE) and side == "left") or (isinstance(op, ast.GtE) and side == "right"):
                upper = min(upper, cval)
            elif (isinstance(op, ast.GtE) and side == "left") or (isinstance(op, ast.LtE) and side == "right"):
                lower = max(lower, cval)
            else:
                ok, why = False, f"operator of `{norm(e)}` is not one of ==, <=, >="
    if any(k == "units" for k, _ in aggregates) and lower >= 1.0:
        upper = min(upper, 1.0)       # every entry >= 1 and the total <= number of entries  =>  every entry == 1
    # solve(solver=...)
    solver, solved = None, False
    par = enclosing(f.node, c, (ast.Call,))
    for p in par:
        if isinstance(p.func, ast.Attribute) and p.func.attr == "solve" and p.func.value is c:
            solved = True
            sv = kwarg(p, "solver")
            solver = norm(sv) if sv is not None else None
    if not solved:
        # prob = cp.Problem(...); prob.solve(...)
        asg = enclosing(f.node, c, (ast.Assign,))
        if asg and isinstance(asg[-1].targets[0], ast.Name):
            nm = asg[-1].targets[0].id
            for p in walk_no_nested(f.node):
                if isinstance(p, ast.Call) and norm(p.func) == f"{nm}.solve":
                    solved = True
                    sv = kwarg(p, "solver")
                    solver = norm(sv) if sv is not None else None
    pr = Problem(c, branch, sense, objective, lower, upper, ok, why, solver, solved)
    pr.ignored = ignored
    return pr


def interval_txt(p: Problem) -> str:
    extra = f" (constraints that do not bound A@x elementwise: {p.ignored})" if getattr(p, "ignored", None) else ""
    return f"{p.lower} <= A@x <= {p.upper}{extra}"


# ---------------------------------------------------------------------------------------------
# checks (rules maps as in nbk)
# ---------------------------------------------------------------------------------------------
_QUIET_OPTIONS = {"solver", "verbose", "msg_lev", "show_progress", "LPX_K_MSGLEV", "logLevel", "log_level", "warm_start"}
_STOPPING_OPTIONS = {"mip_gap", "mipgap", "mip_rel_gap", "tm_lim", "time_limit", "timeLimit", "maximumSeconds", "allowableGap", "allowableFractionGap", "ratioGap",
                     "maximumNodes", "maxNodes", "max_iters", "max_iter", "maxiters", "maximumSolutions", "maxSolutions", "tol_obj", "tol_int", "optimality_gap", "feastol",
                     "abstol", "reltol", "bb_tol", "pp_tech"}
_SOLVER_MODULES = ("cvxopt", "glpk", "cylp", "cbc", "cvxpy.settings", "cp.settings", "scipy.optimize")


def check_solver_options(ctx: Ctx, F: IlpFacts, rule: str):
    """'the solver returns an optimum of the posed program' is the standing assumption of every rule on the formulation.  It is the package's
    to keep: a stopping criterion handed to a back-end (an optimality gap, a time / node limit), in the solve call or through the solver
    library's process-wide option table - set anywhere in the package, module level included -, makes that back-end return a feasible point
    that need not be optimal, and makes the two back-ends differ.  Verbosity options are harmless; unknown ones are not decided."""
    if ("solver-options", rule) in ctx.notes.setdefault("records_checked", set()):
        return
    ctx.notes["records_checked"].add(("solver-options", rule))
    M = ctx.model
    f = F.f
    n = 0
    for c in walk_no_nested(f.node):
        if isinstance(c, ast.Call) and isinstance(c.func, ast.Attribute) and c.func.attr == "solve":
            for k in c.keywords:
                if k.arg is None:
                    ctx.undecided(rule, f, c, "solve(**options): the options handed to the back-end are not visible (not a verdict)", key="solver-options:call")
                elif k.arg in _STOPPING_OPTIONS:
                    ctx.bad(rule, f, c, f"`{k.arg}={norm(k.value)}` is a stopping criterion: this back-end may return a feasible alignment that is not of minimal disorder, "
                            f"and the other back-end (without it) a different one", key=f"solver-options:{k.arg}")
                elif k.arg not in _QUIET_OPTIONS:
                    ctx.undecided(rule, f, c, f"solve option `{k.arg}` is not in the table of options known to leave the optimum alone (not a verdict)", key=f"solver-options:{k.arg}")
            n += 1
    # process-wide option tables of the solver libraries, written anywhere in the package
    for m in M.modules.values():
        solverish = {a for a, full in m.aliases.items() if any(s in full.lower() for s in ("cvxopt", "glpk", "cylp", "cbc"))}
        for node in ast.walk(m.tree):
            for al in (node.names if isinstance(node, (ast.Import, ast.ImportFrom)) else []):
                full = ((node.module + ".") if isinstance(node, ast.ImportFrom) and node.module else "") + al.name
                if any(s in full.lower() for s in ("cvxopt", "glpk", "cylp", "cbc")):
                    solverish.add((al.asname or al.name).split(".")[0])
        if not solverish:
            continue
        for node in ast.walk(m.tree):
            key = None
            tgt = None
            if isinstance(node, (ast.Assign, ast.AugAssign)):
                for t in (node.targets if isinstance(node, ast.Assign) else [node.target]):
                    if isinstance(t, ast.Subscript) and isinstance(t.value, ast.Attribute) and t.value.attr == "options":
                        tgt, key = t.value.value, (t.slice.value if isinstance(t.slice, ast.Constant) else None)
                    elif isinstance(t, ast.Attribute) and t.attr == "options":
                        tgt, key = t.value, "*"
            elif isinstance(node, ast.Call) and isinstance(node.func, ast.Attribute) and node.func.attr in ("update", "setdefault", "__setitem__") and \
                    isinstance(node.func.value, ast.Attribute) and node.func.value.attr == "options":
                tgt, key = node.func.value.value, "*"
                if node.func.attr != "update" and node.args and isinstance(node.args[0], ast.Constant):
                    key = node.args[0].value
                elif node.func.attr == "update" and (not node.args or (isinstance(node.args[0], ast.Dict) and all(isinstance(k, ast.Constant) for k in node.args[0].keys))) \
                        and all(k.arg is not None for k in node.keywords):
                    ks = ([k.value for k in node.args[0].keys] if node.args else []) + [k.arg for k in node.keywords]
                    key = next((k for k in ks if k in _STOPPING_OPTIONS), next((k for k in ks if k not in _QUIET_OPTIONS), ks[0] if ks else "*"))
            if tgt is None:
                continue
            base = norm(tgt).split(".")[0]
            if base not in solverish:
                continue
            n += 1
            where = f"{m.relpath}:{getattr(node, 'lineno', 0)}"
            if key in _STOPPING_OPTIONS:
                ctx.bad(rule, None, None, f"{where}: `{norm(node)[:90]}` sets the stopping criterion `{key}` in the solver library's process-wide options: every later solve "
                        f"of that back-end may stop at a feasible alignment that is not of minimal disorder, while the other back-end solves to optimality",
                        construct=f"{norm(tgt)}.options[{key!r}]", key=f"solver-options:global:{key}")
            elif key in _QUIET_OPTIONS:
                ctx.ok(rule, None, None, f"{where}: solver option `{key}` only changes what the back-end prints", construct=f"{norm(tgt)}.options[{key!r}]", key=f"solver-options:global:{key}")
            else:
                ctx.undecided(rule, None, None, f"{where}: `{norm(node)[:90]}` writes the solver library's process-wide options with a key the analysis does not know "
                              f"(not a verdict)", construct=f"{norm(tgt)}.options", key=f"solver-options:global:{key}")
    ctx.ok(rule, f, None, f"no stopping criterion reaches a back-end ({n} solve call(s) / option writes inspected, module level included)", construct="solver options", key="solver-options")


def check_formulation(ctx: Ctx, F: IlpFacts, rules: Dict[str, str], lower: float, upper: float, what: str):
    f = F.f
    if "objective" in rules:
        check_solver_options(ctx, F, rules["objective"])

    def chk(name, cond, node, good, bad, key=None):
        r = rules.get(name)
        if r is None:
            return
        ctx.check(bool(cond), r, f, node, good, bad_detail=bad, key=key or name)
    # a program posed over a *selection* of the candidates (objective disorders[ids] . x) is a decomposition into sub-problems: a different
    # design, whose correctness rests on how the sub-problems partition the candidates and the units - not on the slots checked below
    if any(p.objective and p.objective != "disorders@x" and f"{F.disorders}[" in p.objective for p in F.problems):
        ctx.undecided(next(iter(rules.values())), f, F.problems[0].node,
                      "the program is posed over a selection of the candidates (decomposition into sub-problems): outside the recognised "
                      "formulation, not a verdict", key="formulation-design")
        return
    if "problems" in rules:
        if not F.problems:
            ctx.undecided(rules["problems"], f, None, "no cp.Problem(...) found", key="problems")
        if F.try_node is not None:
            for br in ("try", "handler"):
                if not [p for p in F.problems if p.branch == br]:
                    ctx.bad(rules["problems"], f, F.try_node, f"no problem is posed/solved in the {br} branch of the solve step: "
                            f"x.value stays None there (assertion failure instead of a result)", key=f"problems-{br}")
    for p in F.problems:
        tag = f"{p.branch}:{p.solver or '?'}"
        if not p.constraint_ok:
            if "interval" in rules:
                ctx.undecided(rules["interval"], f, p.node, f"[{tag}] {p.constraint_why}", key=f"interval:{p.branch}")
        else:
            chk("interval", p.lower == lower and p.upper == upper, p.node,
                f"[{tag}] constraints normalise to {interval_txt(p)}: {what}",
                f"[{tag}] constraints normalise to {interval_txt(p)}; a {what} needs {lower} <= A@x <= {upper}", key=f"interval:{p.branch}")
        chk("objective", p.sense == "Minimize" and p.objective == "disorders@x", p.node,
            f"[{tag}] objective Minimize(disorders . x) over the candidates' own disorders",
            f"[{tag}] objective is {p.sense}({p.objective}); expected Minimize(disorders . x)", key=f"objective:{p.branch}")
        chk("solved", p.solved, p.node, f"[{tag}] the posed problem is solved", f"[{tag}] the problem is built but never solved", key=f"solved:{p.branch}")
    # variable
    xc = F.notes.get("x_call")
    if xc is not None:
        boolean = kwarg(xc, "boolean")
        shape = kwarg(xc, "shape") or (xc.args[0] if xc.args else None)
        nm = None
        if isinstance(shape, ast.Tuple) and len(shape.elts) == 1:
            nm = norm(shape.elts[0])
        elif shape is not None:
            nm = norm(shape)
        ndef = assigned_value(f.node, nm) if nm else []
        okn = (nm is not None) and ((len(ndef) == 1 and norm(ndef[0]) in (f"len({F.disorders})", f"len({F.cands})", f"{F.disorders}.shape[0]"))
                                    or nm in (f"len({F.disorders})", f"len({F.cands})"))
        chk("variable", isinstance(boolean, ast.Constant) and boolean.value is True and okn, xc,
            "x is a boolean vector with one entry per candidate",
            "x is not cp.Variable(shape=(number of candidates,), boolean=True): fractional or mis-sized selections become possible")
    ba = F.notes.get("build_A_args")
    chk("same-candidates", ba is not None and ba[0] == F.cands, F.valid_call,
        "A is built from the same candidates whose disorders form the objective",
        "A is not built from the candidates returned together with the disorders")


def check_sizes(ctx: Ctx, F: IlpFacts, rule: str):
    """sizes[i] = len(units of the i-th annotator in the continuum's own (sorted) order)"""
    f = F.f
    sn = f.self_name
    ok = False
    node = None
    for L in [s for s in walk_no_nested(f.node) if isinstance(s, ast.For)]:
        if isinstance(L.iter, ast.Call) and dotted(L.iter.func) == "enumerate" and L.iter.args and \
                norm(L.iter.args[0]) in (f"{sn}._annotations.values()",) and isinstance(L.target, ast.Tuple) and len(L.target.elts) == 2:
            i, u = norm(L.target.elts[0]), norm(L.target.elts[1])
            for s in L.body:
                if isinstance(s, ast.Assign) and norm(s.targets[0]) == f"{F.sizes}[{i}]" and norm(s.value) == f"len({u})":
                    ok, node = True, s
    sdef = assigned_value(f.node, F.sizes)
    alloc = len(sdef) == 1 and isinstance(sdef[0], ast.Call) and norm(sdef[0].func) in ("np.empty", "np.zeros") and \
        norm(sdef[0].args[0]) in (f"{sn}.num_annotators", f"len({sn}._annotations)", f"len({sn})")
    # vectorised spelling: sizes = np.array([len(units) for units in self._annotations.values()], ...)
    if len(sdef) == 1 and isinstance(sdef[0], ast.Call) and norm(sdef[0].func) in ("np.array", "np.asarray", "np.fromiter") and sdef[0].args:
        comp = expand_locals(f.node, sdef[0].args[0])
        if isinstance(comp, (ast.ListComp, ast.GeneratorExp)) and len(comp.generators) == 1 and not comp.generators[0].ifs and \
                norm(comp.generators[0].iter) == f"{sn}._annotations.values()" and norm(comp.elt) == f"len({norm(comp.generators[0].target)})":
            ok, alloc, node = True, True, sdef[0]
    ctx.check(ok and alloc, rule, f, node, "sizes[i] = number of units of the i-th annotator, in the order of self._annotations (sorted by name)",
              bad_detail="sizes are not filled from enumerate(self._annotations.values()): rows of A no longer correspond to the annotators' units",
              key="sizes")


def check_decoding(ctx: Ctx, F: IlpFacts, rules: Dict[str, str], result_class: str):
    f = F.f
    sn = f.self_name

    def chk(name, cond, node, good, bad):
        r = rules.get(name)
        if r is None:
            return
        ctx.check(bool(cond), r, f, node, good, bad_detail=bad, key=name)
    if "result" in rules:
        check_alignment_record(ctx, rules["result"])
    if "slots" in rules and ("ua-record", rules["slots"]) not in ctx.notes.setdefault("ua_record", set()):
        ctx.notes["ua_record"].add(("ua-record", rules["slots"]))
        check_unitary_record(ctx, rules["slots"], nb_units=False)
    # thresholding
    ids = None
    thr_node = None
    for s in walk_no_nested(f.node):
        if isinstance(s, ast.Assign) and isinstance(s.value, ast.Call) and norm(s.value.func) in ("np.where", "numpy.where") and s.value.args:
            c = s.value.args[0]
            if isinstance(c, ast.Compare) and norm(c.left) == f"{F.x}.value" and len(c.ops) == 1 and isinstance(c.ops[0], (ast.Gt, ast.GtE)):
                t = _num(c.comparators[0])
                tg = s.targets[0]
                ids = norm(tg.elts[0]) if isinstance(tg, ast.Tuple) and len(tg.elts) == 1 else None
                thr_node = (s, t)
    if thr_node is None:
        ctx.undecided(rules.get("threshold") or next(iter(rules.values())), f, None, "selection `np.where(x.value > t)` not found", key="threshold")
        return
    s, t = thr_node
    chk("threshold", t is not None and 0 < t < 1 and ids is not None, s, f"candidates with x > {t} are selected (0 < t < 1 separates the boolean values)",
        f"selection threshold {t} does not separate 0 from 1")
    # after the try, on every path x.value is checked / used: the selection is shared by both solver branches
    if F.try_node is not None:
        inside = any(s is x for x in ast.walk(F.try_node))
        chk("shared-decoding", not inside, s, "decoding happens after the try/except: shared by both solver back-ends",
            "decoding is inside one solver branch only")
    chosen = dis = None
    aliases = {ids}
    for _ in range(3):
        for a in walk_no_nested(f.node):
            if isinstance(a, ast.Assign) and isinstance(a.targets[0], ast.Name) and isinstance(a.value, ast.Name) and a.value.id in aliases:
                aliases.add(a.targets[0].id)
    for a in walk_no_nested(f.node):
        if isinstance(a, (ast.Assign, ast.AnnAssign)):
            tg = a.targets[0] if isinstance(a, ast.Assign) else a.target
            if a.value is not None and norm(a.value) in {f"{F.cands}[{i}]" for i in aliases}:
                chosen = norm(tg)
                used_c = norm(a.value)[len(F.cands) + 1:-1]
            if a.value is not None and norm(a.value) in {f"{F.disorders}[{i}]" for i in aliases}:
                dis = norm(tg)
    if chosen is None or dis is None:
        # which index expressions select from the candidates / the disorders at all?
        sel_c = {norm(a.value.slice) for a in walk_no_nested(f.node) if isinstance(a, ast.Assign) and isinstance(a.value, ast.Subscript) and norm(a.value.value) == F.cands}
        sel_d = {norm(a.value.slice) for a in walk_no_nested(f.node) if isinstance(a, ast.Assign) and isinstance(a.value, ast.Subscript) and norm(a.value.value) == F.disorders}
        if not (sel_c and sel_d and not (sel_c & sel_d)):
            # not "two different id vectors": the ids are derived from the thresholded vector in a way this recogniser does not follow
            ctx.undecided(rules.get("same-ids") or next(iter(rules.values())), f, s,
                          "the selected candidates / disorders are not taken with the thresholded id vector itself (ids post-processed): not a verdict", key="same-ids")
            return
    chk("same-ids", chosen is not None and dis is not None, s, "the same id vector selects the candidates and their disorders",
        "selected candidates and selected disorders are not indexed by the same ids")
    if chosen is None or dis is None:
        if "same-ids" not in rules:
            ctx.undecided(next(iter(rules.values())), f, s, "selected candidates / disorders not found (anchor of the decoding step)", key="same-ids")
        return
    F.notes["dis_sel"] = dis
    # ---- decoding loops, evaluated symbolically -------------------------------------------------------------
    # outer loop: one iteration per chosen candidate, in any of the spellings  enumerate(chosen) / zip(chosen, dis) / range(len(chosen))
    O = None
    row = None
    dis_of_row: set = set()
    pos_name = None
    for L in [L for L in walk_no_nested(f.node) if isinstance(L, ast.For)]:
        it = L.iter
        if isinstance(it, ast.Call) and dotted(it.func) == "enumerate" and it.args and norm(it.args[0]) == chosen and isinstance(L.target, ast.Tuple) \
                and len(L.target.elts) == 2:
            O, pos_name, row = L, norm(L.target.elts[0]), norm(L.target.elts[1])
            dis_of_row = {f"{dis}[{pos_name}]"}
        elif isinstance(it, ast.Call) and dotted(it.func) == "zip" and len(it.args) == 2 and not it.keywords and isinstance(L.target, ast.Tuple) \
                and len(L.target.elts) == 2 and chosen in [norm(a) for a in it.args]:
            k = [norm(a) for a in it.args].index(chosen)
            O, row = L, norm(L.target.elts[k])
            # the companion array must be the disorders selected by the same ids, else no expression is the row's own disorder
            dis_of_row = {norm(L.target.elts[1 - k])} if norm(it.args[1 - k]) == dis else set()
        elif isinstance(it, ast.Call) and dotted(it.func) == "enumerate" and it.args and isinstance(it.args[0], ast.Call) and dotted(it.args[0].func) == "zip" \
                and sorted(norm(a) for a in it.args[0].args) == sorted([chosen, dis]) and isinstance(L.target, ast.Tuple) and len(L.target.elts) == 2 \
                and isinstance(L.target.elts[1], ast.Tuple) and len(L.target.elts[1].elts) == 2:
            k = [norm(a) for a in it.args[0].args].index(chosen)
            O, pos_name, row = L, norm(L.target.elts[0]), norm(L.target.elts[1].elts[k])
            dis_of_row = {norm(L.target.elts[1].elts[1 - k]), f"{dis}[{pos_name}]"}
        elif isinstance(it, ast.Call) and dotted(it.func) == "range" and len(it.args) == 1 and norm(it.args[0]) in (f"len({chosen})", f"{chosen}.shape[0]", f"len({dis})") \
                and isinstance(L.target, ast.Name):
            O, pos_name, row = L, L.target.id, f"{chosen}[{L.target.id}]"
            dis_of_row = {f"{dis}[{pos_name}]"}
        if O is not None:
            break
    if O is None:
        ctx.undecided(rules.get("slots") or next(iter(rules.values())), f, None, "decoding loop over the chosen candidates not found", key="slots")
        return
    aid_ = pos_name
    import copy as _copy

    class _Subst(ast.NodeTransformer):
        def __init__(self, env):
            self.env = env

        def visit_Name(self, n):
            if isinstance(n.ctx, ast.Load) and n.id in self.env:
                return _copy.deepcopy(self.env[n.id])
            return n

    def sub(env, e) -> str:
        return norm(_Subst(env).visit(_copy.deepcopy(e)))

    oenv: Dict[str, ast.AST] = {}
    # straight-line locals of the outer body defined before the inner loop (row = chosen[k] ...)
    inner = []
    zipped_items = None          # for (annotator, units), unit_id in zip(<items of self._annotations>, row): slot k of the row with the k-th item
    for st in O.body:
        if isinstance(st, ast.For):
            itn = st.iter
            if isinstance(itn, ast.Call) and dotted(itn.func) == "enumerate" and itn.args and sub(oenv, itn.args[0]) == row and isinstance(st.target, ast.Tuple) \
                    and len(st.target.elts) == 2:
                inner.append(st)
            elif isinstance(itn, ast.Call) and dotted(itn.func) == "zip" and len(itn.args) == 2 and not itn.keywords and isinstance(st.target, ast.Tuple) \
                    and len(st.target.elts) == 2:
                texts = [norm(expand_locals(f.node, _Subst(oenv).visit(_copy.deepcopy(a)))) for a in itn.args]
                items_forms = (f"list({sn}._annotations.items())", f"{sn}._annotations.items()", f"tuple({sn}._annotations.items())")
                for k_ in (0, 1):
                    if texts[k_] in items_forms and sub(oenv, itn.args[1 - k_]) == row and isinstance(st.target.elts[k_], ast.Tuple) and \
                            len(st.target.elts[k_].elts) == 2 and all(isinstance(x, ast.Name) for x in st.target.elts[k_].elts) and isinstance(st.target.elts[1 - k_], ast.Name):
                        inner.append(st)
                        zipped_items = (st.target.elts[k_].elts[0].id, st.target.elts[k_].elts[1].id, st.target.elts[1 - k_].id)
        elif isinstance(st, ast.Assign) and len(st.targets) == 1 and isinstance(st.targets[0], ast.Name) and not inner:
            oenv[st.targets[0].id] = _Subst(oenv).visit(_copy.deepcopy(st.value))
    if len(inner) != 1:
        ctx.undecided(rules.get("slots") or next(iter(rules.values())), f, O, "loop over the annotator slots of a candidate not found", key="slots")
        return
    I = inner[0]
    if zipped_items is not None:
        an_i, un_i = "@position", zipped_items[2]
        oenv["@annot"], oenv["@units"] = zipped_items[0], zipped_items[1]
    else:
        an_i, un_i = norm(I.target.elts[0]), norm(I.target.elts[1])
    cfg = CFG(f.node)

    class _Idx(Exception):
        pass

    class _Unknown(Exception):
        pass

    def ev_slot(stmts, env, scenario, appended):
        """symbolic run of one slot iteration; scenario 'real': index < len(units); 'null': index == len(units) (units[index] raises IndexError)"""
        for st in stmts:
            if isinstance(st, ast.Assign) and len(st.targets) == 1:
                tg = st.targets[0]
                val = st.value
                txt = sub(env, val)
                if scenario == "null" and env.get("@units") is not None and f"{env['@units']}[{un_i}]" in txt:
                    raise _Idx()
                if isinstance(tg, ast.Tuple) and len(tg.elts) == 2 and all(isinstance(x, ast.Name) for x in tg.elts) and \
                        txt == f"{sn}._annotations.peekitem({an_i})":
                    env["@annot"], env["@units"] = tg.elts[0].id, tg.elts[1].id
                    env.pop(tg.elts[0].id, None), env.pop(tg.elts[1].id, None)
                elif isinstance(tg, ast.Name):
                    env[tg.id] = _Subst(env).visit(_copy.deepcopy(val))
                else:
                    raise _Unknown(norm(st))
            elif isinstance(st, ast.Expr) and isinstance(st.value, ast.Call) and isinstance(st.value.func, ast.Attribute) and st.value.func.attr == "append" \
                    and len(st.value.args) == 1 and isinstance(st.value.func.value, ast.Name):
                txt = sub(env, st.value.args[0])
                if scenario == "null" and env.get("@units") is not None and f"{env['@units']}[{un_i}]" in txt:
                    raise _Idx()
                appended.append((st.value.func.value.id, _Subst(env).visit(_copy.deepcopy(st.value.args[0])), st.value))
            elif isinstance(st, ast.Try) and not st.finalbody:
                try:
                    ev_slot(st.body, env, scenario, appended)
                    ev_slot(st.orelse, env, scenario, appended)
                except _Idx:
                    hs = [h for h in st.handlers if h.type is None or any(norm(x).split(".")[-1] in ("IndexError", "LookupError", "Exception")
                                                                           for x in (h.type.elts if isinstance(h.type, ast.Tuple) else [h.type]))]
                    if not hs:
                        raise
                    ev_slot(hs[0].body, env, scenario, appended)
            elif isinstance(st, ast.If):
                units = env.get("@units")
                t = st.test
                truth = None
                if units is not None and isinstance(t, ast.Compare) and len(t.ops) == 1:
                    l, r = sub(env, t.left), sub(env, t.comparators[0])
                    table = {ast.Lt: (True, False), ast.LtE: (True, True), ast.Eq: (False, True), ast.NotEq: (True, False), ast.GtE: (False, True), ast.Gt: (False, False)}
                    mirror = {ast.Lt: ast.Gt, ast.LtE: ast.GtE, ast.Gt: ast.Lt, ast.GtE: ast.LtE, ast.Eq: ast.Eq, ast.NotEq: ast.NotEq}
                    op = type(t.ops[0])
                    if op in table and (l, r) == (un_i, f"len({units})"):
                        truth = table[op][0 if scenario == "real" else 1]
                    elif op in table and (r, l) == (un_i, f"len({units})"):
                        truth = table[mirror[op]][0 if scenario == "real" else 1]
                if truth is None:
                    raise _Unknown(norm(t))
                ev_slot(st.body if truth else st.orelse, env, scenario, appended)
            elif isinstance(st, (ast.Import, ast.ImportFrom)):
                continue
            else:
                raise _Unknown(norm(st)[:80])

    results = {}
    unknown = None
    for scenario in ("real", "null"):
        env = dict(oenv)
        app: list = []
        try:
            ev_slot(I.body, env, scenario, app)
            results[scenario] = (app, env)
        except _Idx:
            results[scenario] = ("crash", env)
        except _Unknown as e:
            unknown = str(e)
    if unknown is not None:
        ctx.undecided(rules.get("slots") or next(iter(rules.values())), f, I, f"slot decoding contains `{unknown}`: shape not recognised (not a verdict)", key="slots")
        return
    real_app, real_env = results["real"]
    null_app, null_env = results["null"]
    annot, units = real_env.get("@annot"), real_env.get("@units")
    if annot is None:
        chk("slots", False, I, "", "slot k is not decoded with the k-th (annotator, units) item of self._annotations")
        return
    ok_slots = real_app != "crash" and null_app != "crash" and len(real_app) == 1 and len(null_app) == 1 and real_app[0][0] == null_app[0][0]
    tname = real_app[0][0] if real_app != "crash" and real_app else None
    unit_ok = null_ok = False
    real_node = null_node = None
    if ok_slots:
        rv, nv = real_app[0][1], null_app[0][1]
        real_node, null_node = real_app[0][2], null_app[0][2]
        shape = all(isinstance(v, ast.Tuple) and len(v.elts) == 2 and norm(v.elts[0]) == annot for v in (rv, nv))
        ok_slots = shape
        if shape:
            unit_ok = norm(rv.elts[1]) == f"{units}[{un_i}]"
            null_ok = isinstance(nv.elts[1], ast.Constant) and nv.elts[1].value is None
    elif null_app == "crash" and real_app != "crash" and len(real_app) == 1:
        real_node = real_app[0][2]
    chk("slots", ok_slots, I, "exactly one (annotator, unit-or-None) slot is appended per annotator index of the candidate",
        "a candidate is not decoded into exactly one slot per annotator")
    chk("own-unit", unit_ok, real_node or I, "the unit of slot k is read from the k-th annotator's own set at the candidate's index (no foreign unit)",
        "the unit of a slot is not units_of_that_annotator[candidate index]")
    chk("null-decode", null_ok, null_node or I, "an index equal to len(units) (IndexError) decodes to the empty unit: same sentinel as the producer and build_A",
        "the empty unit is not decoded from index == len(units of that annotator)")
    # unitary alignment built from that list, cached disorder by the same id
    uas = [c for c in ast.walk(O) if isinstance(c, ast.Call) and dotted(c.func) == "UnitaryAlignment"]
    ok_ua = len(uas) == 1 and tname is not None and uas[0].args and norm(uas[0].args[0]) in (tname, f"list({tname})", f"tuple({tname})")
    reset = [x for x in O.body if isinstance(x, ast.Assign) and norm(x.targets[0]) == tname and isinstance(x.value, ast.List) and not x.value.elts]
    chk("ua-built", ok_ua and len(reset) == 1 and O.body.index(reset[0]) < O.body.index(I), uas[0] if uas else O,
        "each chosen candidate becomes one UnitaryAlignment built from its own fresh slot list",
        "slot list is not reset per candidate or the unitary alignment is built from something else")
    ua_names = [norm(a.targets[0]) for a in O.body if isinstance(a, ast.Assign) and uas and a.value is uas[0]]
    emits = [x for x in ast.walk(O) if isinstance(x, ast.Call) and isinstance(x.func, ast.Attribute) and x.func.attr == "append" and uas and
             x.args and norm(x.args[0]) in ua_names]
    chk("all-emitted", len(emits) == 1 and cfg.every_iteration_passes(O, {cfg.node_containing(emits[0])}) and
        not any(isinstance(x, (ast.Break, ast.Return)) for b in O.body for x in ast.walk(b)), emits[0] if emits else O,
        "every chosen candidate becomes a unitary alignment of the result (no iteration of the decoding loop skips the append)",
        "some chosen candidates can be skipped by the decoding loop: their units would be missing from the alignment")
    dst = [x for x in O.body if isinstance(x, ast.Assign) and norm(x.targets[0]).endswith(".disorder")]
    chk("ua-disorder", len(dst) == 1 and sub(oenv, dst[0].value) in dis_of_row, dst[0] if dst else O,
        "the unitary alignment carries the (normalised) disorder of its own candidate",
        "per-unitary disorder is not taken from the chosen disorders at the same position")
    # result object
    rets = [r for r in walk_no_nested(f.node) if isinstance(r, ast.Return) and isinstance(r.value, ast.Call)]
    if rets:
        rc = rets[-1].value
        coll = [x for x in O.body if isinstance(x, ast.Expr) and isinstance(x.value, ast.Call) and isinstance(x.value.func, ast.Attribute)
                and x.value.func.attr == "append" and uas and norm(x.value.args[0]) in
                [norm(a.targets[0]) for a in O.body if isinstance(a, ast.Assign) and a.value is uas[0]]]
        lst = norm(coll[0].value.func.value) if coll else None
        cont = kwarg(rc, "continuum") or (rc.args[1] if len(rc.args) > 1 else None)
        lst_alias = {lst}
        for _ in range(3):
            for a in walk_no_nested(f.node):
                if isinstance(a, ast.Assign) and isinstance(a.targets[0], ast.Name) and isinstance(a.value, ast.Name) and a.value.id in lst_alias \
                        and len(stores_to(f.node, a.targets[0].id)) == 1:
                    lst_alias.add(a.targets[0].id)
        chk("result", dotted(rc.func) == result_class and lst is not None and rc.args and norm(rc.args[0]) in lst_alias and cont is not None and norm(cont) == sn,
            rc, f"returns {result_class}(all decoded unitary alignments, continuum=self)",
            f"result is not {result_class}(decoded unitary alignments, continuum=self): found {norm(rc.func)}")
        d = kwarg(rc, "disorder")
        if d is not None:
            d = expand_locals(f.node, d, skip=(dis,))
        F.notes["cached_disorder"] = d
        chk("cached", d is not None and norm(d) in (f"np.sum({dis}) / {sn}.avg_num_annotations_per_annotator", f"{dis}.sum() / {sn}.avg_num_annotations_per_annotator",
                                                    f"sum({dis}) / {sn}.avg_num_annotations_per_annotator"),
            rc, "cached alignment disorder = sum of the chosen unitary disorders / mean number of units per annotator",
            f"cached disorder is `{norm(d) if d is not None else None}`, not sum(unitary disorders) / avg_num_annotations_per_annotator")


def check_fallback(ctx: Ctx, F: IlpFacts, rules: Dict[str, str]):
    f = F.f
    T = F.try_node

    def chk(name, cond, node, good, bad):
        r = rules.get(name)
        if r is None:
            return
        ctx.check(bool(cond), r, f, node, good, bad_detail=bad, key=name)
    if T is None:
        if "handler" in rules:
            ctx.undecided(rules["handler"], f, None, "no try/except around the solve step", key="handler")
        return
    imp = any(isinstance(s, ast.Import) and any(a.name == "cylp" for a in s.names) for s in T.body)
    chk("import-in-try", imp, T, "`import cylp` sits inside the try: a missing CBC back-end falls back instead of crashing",
        "`import cylp` is not inside the try block")
    caught = set()
    for h in T.handlers:
        if h.type is None:
            caught |= {"ImportError", "SolverError", "*"}
        else:
            for x in (h.type.elts if isinstance(h.type, ast.Tuple) else [h.type]):
                nm = norm(x).split(".")[-1]
                caught.add(nm)
                if nm in ("Exception", "BaseException"):
                    caught |= {"ImportError", "SolverError"}
    chk("handler", {"ImportError", "SolverError"} <= caught, T.handlers[0] if T.handlers else T,
        "the handler catches ImportError and cp.SolverError", f"the handler catches only {sorted(caught)}: a missing or failing CBC is a crash, not a fallback")
    tp = [p for p in F.problems if p.branch == "try"]
    hp = [p for p in F.problems if p.branch == "handler"]
    if len(tp) == 1 and len(hp) == 1:
        a, b = tp[0], hp[0]
        if a.constraint_ok and b.constraint_ok:
            chk("same-problem", (a.sense, a.objective, a.lower, a.upper) == (b.sense, b.objective, b.lower, b.upper), b.node,
                f"both back-ends receive the same problem: {a.sense}({a.objective}) s.t. {interval_txt(a)}",
                f"the back-ends solve different problems: {a.solver}: {a.sense}({a.objective}) s.t. {interval_txt(a)}  vs  "
                f"{b.solver}: {b.sense}({b.objective}) s.t. {interval_txt(b)}")
        elif "same-problem" in rules:
            ctx.undecided(rules["same-problem"], f, b.node, "constraints of a branch not understood", key="same-problem")
        chk("solvers", a.solver in ("cp.CBC", "cvxpy.CBC") and b.solver in ("cp.GLPK_MI", "cvxpy.GLPK_MI") and a.solved and b.solved, b.node,
            "CBC in the try, GLPK_MI in the handler, both actually solved", f"solver selection: try={a.solver} (solved={a.solved}), handler={b.solver} (solved={b.solved})")
    elif "same-problem" in rules:
        if len(tp) == 1 and not hp:
            ctx.bad(rules["same-problem"], f, T, "the handler poses no problem: the fallback back-end never solves anything", key="same-problem")
        else:
            ctx.undecided(rules["same-problem"], f, T, f"{len(tp)} problem(s) in try, {len(hp)} in the handler", key="same-problem")
    for h in T.handlers:
        esc = [s for s in ast.walk(h) if isinstance(s, (ast.Return,))]
        chk("handler-continues", not esc, h, "the handler falls through to the shared decoding", "the handler returns instead of falling through to the decoding")


def check_arrays_continuum(ctx: Ctx, rule: str):
    """_build_arrays_continuum: one array per annotator in the continuum's own order, row r = r-th unit of the sorted set"""
    f = ctx.fn("AbstractDissimilarity._build_arrays_continuum", rule)
    cont = f.params[1]
    outs = [L for L in walk_no_nested(f.node) if isinstance(L, ast.For) and f"{cont}._annotations" in norm(L.iter)]
    inner_ = {id(x) for L in outs for b in L.body + L.orelse for x in ast.walk(b)}
    outs = [L for L in outs if id(L) not in inner_]
    if len(outs) != 1:
        ctx.undecided(rule, f, None, "loop over continuum._annotations not found", key="arrays-order")
        return
    O = outs[0]
    it = O.iter
    src = it.args[0] if isinstance(it, ast.Call) and dotted(it.func) == "enumerate" and it.args else it
    # the annotators taken in another order than the mapping's own (a sort key, a reversal): array i is no longer the i-th annotator of
    # `_annotations`, which is what the sizes, the matrices and the decoder's peekitem(i) / annotators[i] all index by
    if isinstance(src, ast.Call) and dotted(src.func) in ("sorted", "reversed") and src.args and \
            norm(src.args[0]) in (f"{cont}._annotations", f"{cont}._annotations.keys()", f"{cont}._annotations.items()", f"{cont}._annotations.values()", f"{cont}.annotators") and \
            (dotted(src.func) == "reversed" or any(k.arg in ("key", "reverse") and not (isinstance(k.value, ast.Constant) and k.value.value in (None, False)) for k in src.keywords)):
        ctx.bad(rule, f, O, f"the unit arrays are built over `{norm(src)}`: array i is not that of the i-th annotator of continuum._annotations, which is what the decoder "
                f"(peekitem(i) / annotators[i]) and the per-annotator sizes index by - with annotators this order ranks differently, units are attributed to the wrong annotator",
                key="arrays-order")
        return
    ok_src = norm(src) in (f"{cont}._annotations.items()", f"{cont}._annotations.values()")
    units = None
    for x in ast.walk(O.target):
        pass
    tnames = [norm(x) for x in ast.walk(O.target) if isinstance(x, ast.Name)]
    units = tnames[-1] if tnames else None
    inner = [L for L in O.body if isinstance(L, ast.For)]
    ok_rows = False
    arr = None
    rows_shape = False          # the per-unit row stores were found and resolved (whatever they say)
    if len(inner) == 1:
        # row r of the array is written from the r-th unit of the set: `for r, u in enumerate(units): arr[r][k] = f(u)` or
        # `for row, u in zip(arr, units): row[k] = f(u)` - in both the store's row index is the position of the unit it reads
        venv = view_env(f.node)
        sts = [s for s in inner[0].body if isinstance(s, ast.Assign) and isinstance(s.targets[0], ast.Subscript)]
        flats = [flat_subscript(s.targets[0], venv) for s in sts]
        unit_vars = [x.id for x in ast.walk(inner[0].target) if isinstance(x, ast.Name) and x.id in venv]
        upos = None
        for uvn in unit_vars:
            fu = flat_subscript(ast.Name(id=uvn, ctx=ast.Load()), venv)
            if fu is not None and fu[0] == units and len(fu[1]) == 1:
                upos = fu[1][0]
        rows_shape = bool(sts) and all(fl is not None and len(fl[1]) == 2 for fl in flats) and len({fl[0] for fl in flats}) == 1 and upos is not None
        if sts and all(fl is not None and len(fl[1]) == 2 for fl in flats) and len({fl[0] for fl in flats}) == 1 and upos is not None \
                and {fl[1][0] for fl in flats} == {upos}:
            arr = flats[0][0]
            adef = [s for s in O.body if isinstance(s, ast.Assign) and norm(s.targets[0]) == arr and isinstance(s.value, ast.Call)]
            ok_rows = len(adef) == 1 and adef[0].value.args and isinstance(adef[0].value.args[0], ast.Tuple) and \
                norm(expand_locals(f.node, adef[0].value.args[0].elts[0])) == f"len({units})"
    apps = [s for s in O.body if isinstance(s, ast.Expr) and isinstance(s.value, ast.Call) and isinstance(s.value.func, ast.Attribute)
            and s.value.func.attr == "append" and arr is not None and norm(s.value.args[0]) == arr]
    rets = [r for r in walk_no_nested(f.node) if isinstance(r, ast.Return)]
    ok_ret = bool(apps) and len(rets) == 1 and norm(rets[0].value) == norm(apps[0].value.func.value)
    if not (ok_src and ok_rows and len(apps) == 1 and ok_ret) and not (rows_shape and norm(src).startswith(f"{cont}._annotations")):
        # the builder is written another way (vectorised columns, a reused list, ...): nothing recognised, nothing judged
        ctx.undecided(rule, f, O, f"the unit arrays are not built by one loop over the units of each annotator storing row by row (source ok={ok_src}, rows recognised="
                      f"{rows_shape}, appended once per annotator={len(apps) == 1}, returned={ok_ret}): shape not recognised (not a verdict)", key="arrays-order")
        return
    ctx.check(ok_src and ok_rows and len(apps) == 1 and ok_ret, rule, f, O,
              "unit arrays: one per annotator in the order of continuum._annotations, len(units) rows, row r = r-th unit in sort order "
              "(the same order sizes, build_A and the decoder's units[unit_id] use)",
              bad_detail=f"unit arrays are not built per annotator in the continuum's own order with one row per unit in set order "
                         f"(source ok={ok_src}, rows ok={ok_rows}, appended once per annotator={len(apps) == 1}, returned={ok_ret})",
              key="arrays-order")
