"""Recognisers for the numba kernels (shared by C01, C02, C03, C07).

Every function takes a `rules` mapping  logical check -> rule id ; checks without an entry are not reported,
so each property lists only the clauses it owns.  Unrecognised shapes give UNDECIDED, slot mismatches VIOLATED.
"""
from __future__ import annotations

import ast
from typing import Dict, List, Optional, Tuple

from .. import algebra as A
from ..algebra import Extractor, Rat, Unsupported
from ..cases import Lin
from ..cfg import CFG, EXIT
from ..core import Ctx
from ..model import AnalysisError, FuncInfo, dotted, kwarg, norm, walk_no_nested
from ..zones import ZUnsupported, box_contains, nonneg, pair_domain, range_bounds, to_lin
from .common import assigned_value, conditions_at, enclosing, expand_locals, flat_nodes, flat_subscript, is_cmp, resolve_local, stores_to, subst_views, view_env

CAND = "AbstractDissimilarity._get_all_valid_alignments"
PAIRK = "AbstractDissimilarity._compute_alignment_disorders"


class K:
    """reporting helper bound to a rules map"""

    def __init__(self, ctx: Ctx, rules: Dict[str, str], f: FuncInfo):
        self.ctx, self.rules, self.f = ctx, rules, f

    def check(self, name: str, cond: bool, node, good: str, bad: str):
        r = self.rules.get(name)
        if r is None:
            return cond
        return self.ctx.check(bool(cond), r, self.f, node, good, bad_detail=bad, key=name,
                              construct=None if node is not None else name)

    def undecided(self, name: str, node, why: str):
        r = self.rules.get(name)
        if r is None:
            r = next(iter(self.rules.values()))
        self.ctx.undecided(r, self.f, node, f"{name}: {why}", key=name, construct=None if node is not None else name)


ENTRIES = {"valid_alignments": ("_get_all_valid_alignments", "_build_arrays_continuum"),
           "compute_disorder": ("_compute_alignment_disorders", "_build_arrays_alignment")}


def check_entry(ctx: Ctx, rule: str, method: str):
    """The kernels are reached through `dissimilarity.valid_alignments(continuum)` / `dissimilarity.compute_disorder(alignment)`: dynamic
    dispatch over every dissimilarity class.  Each implementation the call can reach (CHA) must hand the kernel the arrays of its argument,
    *its own* d_mat and *its own* delta_empty and return the kernel's result unchanged; an override that only defers to super() is that.
    An override that answers with another dissimilarity object's method costs the candidates with that object's kernel and delta_empty
    (recognised shape, wrong slot); any other shape is not decided."""
    M = ctx.model
    kern, builder = ENTRIES[method]
    done = ctx.notes.setdefault("entries_checked", set())
    if (rule, method) in done:
        return
    done.add((rule, method))
    if method == "valid_alignments" and ("arrays-continuum", rule) not in ctx.notes.setdefault("records_checked", set()):
        # what the entry hands to the kernel: the array form built from the live continuum on every call
        ctx.notes["records_checked"].add(("arrays-continuum", rule))
        from .ilp import check_arrays_continuum
        check_arrays_continuum(ctx, rule)
    impls = M.dispatch("AbstractDissimilarity", method)
    base = M.fn(f"AbstractDissimilarity.{method}", rule)
    if base not in impls:
        impls.insert(0, base)
    for f in impls:
        ctx.functions_analysed.add(f.qualname)
        sn = f.self_name
        rets = [r for r in walk_no_nested(f.node) if isinstance(r, ast.Return)]
        calls = [c for c in walk_no_nested(f.node) if isinstance(c, ast.Call) and norm(c.func) in (f"{sn}.{kern}", f"AbstractDissimilarity.{kern}", f"{f.cls.name}.{kern}")]
        if f is not base:
            # an override: every return defers to super() with the same argument, or (wrong slot) answers with another object's method
            arg = f.params[1] if len(f.params) > 1 else None
            foreign = None
            shape = bool(rets)
            for r in rets:
                v = resolve_local(f.node, r.value) if r.value is not None else None
                if isinstance(v, ast.Call) and isinstance(v.func, ast.Attribute) and v.func.attr == method:
                    recv = norm(v.func.value)
                    if recv == "super()" and [norm(a) for a in v.args] == [arg] and not v.keywords:
                        continue
                    if recv not in ("super()", sn) and recv.startswith(f"{sn}."):
                        foreign = foreign or (r, recv)
                        continue
                shape = False
            if foreign is None:
                # the other object's answer post-processed (scaled, filtered, merged) before it is returned: still that object's kernel and cut
                for c_ in walk_no_nested(f.node):
                    if isinstance(c_, ast.Call) and isinstance(c_.func, ast.Attribute) and c_.func.attr == method and norm(c_.func.value).startswith(f"{sn}."):
                        foreign = (c_, norm(c_.func.value))
                        break
            if foreign is not None:
                ctx.bad(rule, f, foreign[0], f"{f.qualname} answers with {foreign[1]}.{method}(...): the {'candidates' if method == 'valid_alignments' else 'alignment'} "
                        f"are costed with {foreign[1]}'s kernel and delta_empty, not with this dissimilarity's d_mat / delta_empty", key=f"entry:{f.qualname}")
                continue
            if shape and not calls:
                ctx.ok(rule, f, rets[0], f"{f.qualname} defers to super().{method}({arg}) on every path", key=f"entry:{f.qualname}")
                continue
        if len(calls) != 1:
            ctx.undecided(rule, f, None, f"{f.qualname}: an implementation of {method} that neither calls {kern} exactly once nor defers to super() (not a verdict)",
                          key=f"entry:{f.qualname}", construct=method)
            continue
        c = calls[0]
        k = M.functions[f"AbstractDissimilarity.{kern}"]
        bound = {p: a for p, a in zip(k.params, c.args)}
        bound.update({kw.arg: kw.value for kw in c.keywords})
        arr = resolve_local(f.node, bound.get(k.params[0]))
        ok = isinstance(arr, ast.Call) and norm(arr.func) == f"{sn}.{builder}" and len(arr.args) == 1 and norm(arr.args[0]) == f.params[1] and \
            norm(bound.get(k.params[1])) == f"{sn}.d_mat" and norm(bound.get(k.params[2])) == f"{sn}.delta_empty"
        ctx.check(ok, rule, f, c, f"{kern}(arrays of the argument, self.d_mat, self.delta_empty) in parameter order",
                  bad_detail=f"kernel arguments do not match its parameters (arrays, d_mat, delta_empty): {[norm(a) for a in c.args]}",
                  key=f"roles:{kern}" if f is base else f"roles:{kern}:{f.qualname}")
        okr = len(rets) == 1 and (rets[0].value is c or norm(resolve_local(f.node, rets[0].value)) == norm(c))
        if okr or f is base:
            ctx.check(okr, rule, f, rets[0] if rets else None, "the kernel's result is returned unchanged", key=f"ret:{kern}" if f is base else f"ret:{kern}:{f.qualname}")
        else:
            ctx.undecided(rule, f, rets[0] if rets else None, f"{f.qualname}: the override does not return the kernel's result unchanged on its single path (not a verdict)",
                          key=f"ret:{kern}:{f.qualname}")


def _single(f: FuncInfo, name: str) -> Optional[ast.AST]:
    vs = assigned_value(f.node, name)
    return vs[0] if len(vs) == 1 else None


def _resolver(f: FuncInfo, stop: Tuple[str, ...] = ()):
    def res(nm: str):
        if nm in stop:
            return None
        v = _single(f, nm)
        # do not resolve through calls other than len()
        if v is not None and isinstance(v, ast.Call) and dotted(v.func) != "len":
            return None
        if v is not None and len(stores_to(f.node, nm)) != 1:
            return None
        return v
    return res


def c2n_ok(f: FuncInfo, e: ast.AST, n_name: str) -> bool:
    """e == n*(n-1)/2  (// 2 accepted: n(n-1) is even)"""
    e = e if not isinstance(e, ast.Name) else (_single(f, e.id) or e)

    def conv(x):
        if isinstance(x, ast.BinOp) and isinstance(x.op, ast.FloorDiv):
            return ast.BinOp(left=conv(x.left), op=ast.Div(), right=conv(x.right))
        if isinstance(x, ast.BinOp):
            return ast.BinOp(left=conv(x.left), op=x.op, right=conv(x.right))
        return x
    try:
        ex = Extractor({n_name: Rat.var("n")})
        got = ex.ev(conv(e))
        want = Rat.var("n") * (Rat.var("n") - Rat.const(1)) / Rat.const(2)
        return got == want
    except Unsupported:
        return False


# =============================================================================================
# _compute_alignment_disorders
# =============================================================================================
def check_pair_kernel(ctx: Ctx, rules: Dict[str, str]):
    f = ctx.fn(PAIRK, next(iter(rules.values())))
    check_entry(ctx, rules.get("entry") or next(iter(rules.values())), "compute_disorder")
    k = K(ctx, rules, f)
    ps = f.params
    if len(ps) != 3:
        return k.undecided("signature", None, f"(alignment_array, d_mat, delta_empty) expected, found {ps}")
    p_arr, p_dmat, p_delta = ps
    # shape unpack
    n_name = None
    u_count = None
    for s in f.node.body:
        if isinstance(s, ast.Assign) and isinstance(s.targets[0], ast.Tuple) and norm(s.value) == f"{p_arr}.shape" \
                and len(s.targets[0].elts) == 3:
            u_count, n_name = norm(s.targets[0].elts[0]), norm(s.targets[0].elts[1])
    if n_name is None:
        return k.undecided("shape", None, "`nb_alignments, nb_annotators, _ = alignment_array.shape` not found")
    res_names = [n.value.id for n in walk_no_nested(f.node) if isinstance(n, ast.Return) and isinstance(n.value, ast.Name)]
    if len(res_names) != 1:
        return k.undecided("result", None, "single `return res` expected")
    res = res_names[0]
    rdef = _single(f, res)
    k.check("zero-init", rdef is not None and isinstance(rdef, ast.Call) and norm(rdef.func) in ("np.zeros", "numpy.zeros")
            and norm(rdef.args[0]) == u_count, rdef, "result starts as zeros, one cell per unitary alignment",
            "result vector is not zero-initialised with one cell per unitary alignment")
    loops = [n for n in f.node.body if isinstance(n, ast.For)]
    if len(loops) != 1:
        return k.undecided("loops", None, "one outer loop over the unitary alignments expected")
    L0 = loops[0]
    try:
        lo, hi = range_bounds(L0.iter)
        ok0 = lo == Lin.num(0) and hi == Lin.atom(u_count) and isinstance(L0.target, ast.Name)
    except ZUnsupported:
        ok0 = False
    k.check("outer", ok0, L0, "every unitary alignment is visited once", "outer loop does not cover range(nb_alignments)")
    u = L0.target.id if isinstance(L0.target, ast.Name) else "?"
    rows = {}
    for s in L0.body:
        if isinstance(s, ast.Assign) and isinstance(s.targets[0], ast.Name) and norm(s.value) == f"{p_arr}[{u}]":
            rows[s.targets[0].id] = True
    inner = [n for n in L0.body if isinstance(n, ast.For)]
    if len(inner) != 1 or not [n for n in inner[0].body if isinstance(n, ast.For)]:
        return k.undecided("pair-loops", L0, "two nested loops over annotator slots expected")
    Li = inner[0]
    Lj = [n for n in Li.body if isinstance(n, ast.For)][0]
    if len(Li.body) == 2 and isinstance(Li.body[0], ast.If) and Li.body[1] is Lj:
        return _pair_kernel_counting_shape(ctx, k, f, L0, Li, Lj, rows, p_arr, p_dmat, p_delta, n_name, u, res)
    def pure_local(x) -> bool:
        return isinstance(x, ast.Assign) and len(x.targets) == 1 and isinstance(x.targets[0], ast.Name) and \
            all(isinstance(y, (ast.Name, ast.Subscript, ast.Constant, ast.Tuple, ast.Load, ast.Store, ast.UnaryOp, ast.USub, ast.Slice, ast.Compare, ast.Eq,
                               ast.NotEq)) for y in ast.walk(x.value))
    if not all(x is Lj or pure_local(x) for x in Li.body):
        return k.undecided("pair-loops", Li, "statements besides the inner pair loop: kernel shape not recognised (not a verdict)")
    # the pair sum may be accumulated in a local that starts at 0 for each unitary alignment and is stored into the result cell afterwards
    def zero_value(v) -> bool:
        if A_const(v) == 0:
            return True
        return isinstance(v, ast.Call) and norm(v.func) in ("np.float32", "np.float64", "float") and len(v.args) == 1 and A_const(v.args[0]) == 0
    acc_name = None
    acc_stmts: list = []
    for x in L0.body:
        if isinstance(x, ast.Assign) and len(x.targets) == 1 and isinstance(x.targets[0], ast.Name) and zero_value(x.value) and L0.body.index(x) < L0.body.index(Li):
            fin = [y for y in L0.body[L0.body.index(Li) + 1:] if isinstance(y, (ast.Assign, ast.AugAssign)) and
                   norm(y.targets[0] if isinstance(y, ast.Assign) else y.target) == f"{res}[{L0.target.id if isinstance(L0.target, ast.Name) else '?'}]" and
                   isinstance(y.value, ast.Name) and y.value.id == x.targets[0].id and (isinstance(y, ast.Assign) or isinstance(y.op, ast.Add))]
            if len(fin) == 1 and len(stores_to(f.node, x.targets[0].id)) >= 1:
                acc_name, acc_stmts = x.targets[0].id, [x, fin[0]]
    if acc_name is None:
        # the same shape with the accumulator's reset outside the per-alignment loop: recognised, and wrong (the sum carries over)
        uvar = L0.target.id if isinstance(L0.target, ast.Name) else "?"
        fin = [y for y in L0.body[L0.body.index(Li) + 1:] if isinstance(y, ast.Assign) and norm(y.targets[0]) == f"{res}[{uvar}]" and isinstance(y.value, ast.Name)]
        if len(fin) == 1:
            outside = [x for x in f.node.body if isinstance(x, ast.Assign) and len(x.targets) == 1 and isinstance(x.targets[0], ast.Name) and
                       x.targets[0].id == fin[0].value.id and zero_value(x.value)]
            if outside:
                k.check("zero-init", False, outside[0], "", f"the pair sum is accumulated in `{fin[0].value.id}`, which is reset once before the loop over the unitary "
                        f"alignments instead of once per unitary alignment: every disorder includes the sums of the previous ones")
                return True
    extra = [x for x in L0.body if x is not Li and x not in acc_stmts and not pure_local(x) and not (isinstance(x, ast.AugAssign) and isinstance(x.op, ast.Div))]
    if extra:
        return k.undecided("pair-loops", extra[0], "statements besides the pair loops in the per-alignment body: kernel shape not recognised (not a verdict)")
    try:
        dom = pair_domain(Li, Lj, Lin.atom(n_name))
    except ZUnsupported as e:
        return k.undecided("pair-domain", Li, str(e))
    k.check("pair-domain", dom == "pairs", Li, f"pair loops enumerate every unordered pair of the {n_name} slots exactly once",
            f"pair loops enumerate `{dom}` instead of all C(n,2) unordered pairs of distinct annotators "
            f"(self pairs add d(u,u)=0 but the normalisation no longer matches / pairs are missed)")
    i, j = Li.target.id, Lj.target.id
    # ---- the pair body, evaluated once per (slot i empty?, slot j empty?) -------------------------------------------
    import copy as _copy

    class _Subst(ast.NodeTransformer):
        def __init__(self, env):
            self.env = env

        def visit_Name(self, n):
            if isinstance(n.ctx, ast.Load) and n.id in self.env:
                return _copy.deepcopy(self.env[n.id])
            return n

    def flat(e: ast.AST):
        """X[a][b, c] -> ('X', ['a', 'b', 'c']) ; None when the base is not a plain name"""
        idx: List[str] = []
        while isinstance(e, ast.Subscript):
            sl = e.slice
            idx = ([norm(x) for x in sl.elts] if isinstance(sl, ast.Tuple) else [norm(sl)]) + idx
            e = e.value
        return (e.id, idx) if isinstance(e, ast.Name) else None

    def canon_ref(e: ast.AST, env) -> str:
        """ROW(v) / CAT(v) for the row / category field of slot v of the current unitary alignment, else the substituted text"""
        e2 = _Subst(env).visit(_copy.deepcopy(e))
        fl_ = flat(e2)
        if fl_ and fl_[0] == p_arr and len(fl_[1]) >= 2 and fl_[1][0] == u and fl_[1][1] in (i, j):
            if len(fl_[1]) == 2:
                return f"ROW({fl_[1][1]})"
            if len(fl_[1]) == 3:
                return f"FIELD{fl_[1][2]}({fl_[1][1]})"
        return norm(e2)

    class _Unknown(Exception):
        pass

    sentinels = set()

    def truth(t: ast.AST, env, empty: Dict[str, bool]) -> bool:
        if isinstance(t, ast.Name) and t.id in env:
            return truth(env[t.id], env, empty)         # a boolean local: `unit_i_is_empty = unit_i[3] == -1`
        if isinstance(t, ast.BoolOp):
            vals = [truth(v, env, empty) for v in t.values]
            return any(vals) if isinstance(t.op, ast.Or) else all(vals)
        if isinstance(t, ast.UnaryOp) and isinstance(t.op, ast.Not):
            return not truth(t.operand, env, empty)
        if isinstance(t, ast.Compare) and len(t.ops) == 1 and isinstance(t.ops[0], (ast.Eq, ast.NotEq)):
            l, r = t.left, t.comparators[0]
            if A_const(l) is not None:
                l, r = r, l
            ref = canon_ref(l, env)
            cv = A_const(r)
            if cv is not None and ref in (f"FIELD3({i})", f"FIELD3({j})"):
                sentinels.add(cv)
                is_empty = empty[i if ref.endswith(f"({i})") else j]
                return is_empty if isinstance(t.ops[0], ast.Eq) else not is_empty
        raise _Unknown(norm(t))

    def run_body(stmts, env, empty, added) -> bool:
        """False when a `continue` ended the iteration"""
        for st in stmts:
            if pure_local(st):
                env[st.targets[0].id] = _Subst(env).visit(_copy.deepcopy(st.value))
            elif isinstance(st, ast.AugAssign) and isinstance(st.op, ast.Add) and (
                    (acc_name is None and canon_ref(st.target, env) == f"{res}[{u}]") or
                    (acc_name is not None and isinstance(st.target, ast.Name) and st.target.id == acc_name)):
                v = st.value
                if isinstance(v, ast.Call) and not v.keywords:
                    added.append((f"{canon_ref(v.func, env)}({', '.join(sorted(canon_ref(a, env) for a in v.args))})", st))
                else:
                    added.append((canon_ref(v, env), st))
            elif isinstance(st, ast.If):
                if not run_body(st.body if truth(st.test, env, empty) else st.orelse, env, empty, added):
                    return False
            elif isinstance(st, ast.Continue):
                return False
            else:
                raise _Unknown(norm(st)[:80])
        return True

    base_env: Dict[str, ast.AST] = {}
    try:
        for x in L0.body:
            if pure_local(x):
                base_env[x.targets[0].id] = _Subst(base_env).visit(_copy.deepcopy(x.value))
        for x in Li.body:
            if pure_local(x) and Li.body.index(x) < Li.body.index(Lj):
                base_env[x.targets[0].id] = _Subst(base_env).visit(_copy.deepcopy(x.value))
        outcome = {}
        for ei in (False, True):
            for ej in (False, True):
                added: list = []
                run_body(Lj.body, dict(base_env), {i: ei, j: ej}, added)
                outcome[(ei, ej)] = added
    except _Unknown as e:
        return k.undecided("pair-body", Lj, f"pair body contains `{e}`: shape not recognised (not a verdict)")
    want_real = f"{p_dmat}({', '.join(sorted([f'ROW({i})', f'ROW({j})']))})"
    first_if = next((n for n in Lj.body if isinstance(n, ast.If)), Lj)
    ok_test = all((len(outcome[c]) == 1) for c in outcome) and sentinels == {-1} and \
        all((outcome[c][0][0] == want_real) == (c == (False, False)) for c in outcome)
    k.check("empty-test", ok_test, first_if.test if isinstance(first_if, ast.If) else first_if,
            "a pair counts delta_empty iff either slot's category field holds the empty-unit sentinel -1",
            f"the pair body does not separate (real, real) pairs from pairs with an empty unit by testing field 3 of both slots against the sentinel -1 "
            f"written by _build_arrays_alignment: contributions by (slot i empty, slot j empty) = "
            f"{ {c: [a for a, _ in v] for c, v in outcome.items()} }, sentinels tested {sorted(sentinels)}")
    empties = [outcome[c] for c in outcome if c != (False, False)]
    ok_empty = all(len(v) == 1 and v[0][0] == p_delta for v in empties)
    bad_e = next((v[0] for v in empties if v and v[0][0] != p_delta), None)
    k.check("empty-cost", ok_empty, bad_e[1] if bad_e else (empties[0][0][1] if empties and empties[0] else None),
            "an empty slot contributes the delta_empty parameter",
            f"pair with an empty unit adds `{bad_e[0] if bad_e else '?'}` instead of delta_empty")
    rr = outcome[(False, False)]
    okd = len(rr) == 1 and rr[0][0] == want_real
    k.check("real-cost", okd, rr[0][1] if rr else None, "a pair of real units contributes d_mat(row_i, row_j)",
            "pair of real units does not add d_mat of the two slots' rows")
    # normalisation: exactly once by c2n
    divs = [n for n in walk_no_nested(f.node) if isinstance(n, ast.AugAssign) and isinstance(n.op, ast.Div)]
    ok_norm = False
    why = f"{len(divs)} divisions found"
    if len(divs) == 1:
        d = divs[0]
        top = d in f.node.body and norm(d.target) == res
        per_cell = d in L0.body and norm(d.target) == f"{res}[{u}]" and L0.body.index(d) > L0.body.index(Li)
        after_loop = top and f.node.body.index(d) > f.node.body.index(L0)
        if (after_loop or per_cell) and c2n_ok(f, d.value, n_name):
            ok_norm = True
        else:
            why = f"`{norm(d)}` is not a single division of each cell by n(n-1)/2 after the pair loops"
    k.check("normalisation", ok_norm, divs[0] if divs else None, "each unitary disorder is divided exactly once by C(n,2) = n(n-1)/2",
            f"normalisation is not a single division by n(n-1)/2: {why} (for 3 annotators n = C(n,2), so tests cannot see it)")
    return True


def _pair_kernel_counting_shape(ctx, k: "K", f, L0, Li, Lj, rows, p_arr, p_dmat, p_delta, n_name, u, res):
    """alternative kernel shape: real-real pairs are visited one by one, pairs involving an empty unit are charged by a closed form
       over e = number of empty slots.  The closed form must equal (C(n,2) - C(n-e,2)) * delta_empty."""
    i, j = Li.target.id, Lj.target.id
    try:
        dom = pair_domain(Li, Lj, Lin.atom(n_name))
    except ZUnsupported as e:
        return k.undecided("pair-domain", Li, str(e))
    k.check("pair-domain", dom == "pairs", Li, f"pair loops range over every unordered pair of the {n_name} slots",
            f"pair loops enumerate `{dom}` instead of all unordered pairs of distinct annotators")

    def is_empty_test(t: ast.AST, v: str, positive: bool) -> bool:
        if not (isinstance(t, ast.Compare) and len(t.ops) == 1 and A_const(t.comparators[0]) == -1):
            return False
        okop = isinstance(t.ops[0], ast.Eq) if positive else isinstance(t.ops[0], ast.NotEq)
        tl = norm(t.left)
        return okop and any(tl in (f"{rv}[{v}, 3]", f"{rv}[{v}][3]") for rv in list(rows) + [f"{p_arr}[{u}]"]) or (okop and tl == f"{p_arr}[{u}, {v}, 3]")
    skip = Li.body[0]
    cnt = None
    ok_skip = is_empty_test(skip.test, i, True) and len(skip.body) == 2 and isinstance(skip.body[0], ast.AugAssign) and isinstance(skip.body[0].op, ast.Add) \
        and A_const(skip.body[0].value) == 1 and isinstance(skip.body[1], ast.Continue) and not skip.orelse
    if ok_skip:
        cnt = norm(skip.body[0].target)
    init = [x for x in L0.body if isinstance(x, ast.Assign) and cnt and norm(x.targets[0]) == cnt and A_const(x.value) == 0 and L0.body.index(x) < L0.body.index(Li)]
    k.check("empty-test", ok_skip and len(init) == 1, skip, "each empty slot (category field -1) is counted exactly once per unitary alignment and skipped",
            "empty slots are not counted once each (counter reset per unitary alignment, test of field 3 against -1, continue)")
    if not (ok_skip and len(init) == 1):
        return
    # inner body: d_mat only when slot j is real
    body = Lj.body
    add = None
    if len(body) == 1 and isinstance(body[0], ast.If) and is_empty_test(body[0].test, j, False) and len(body[0].body) == 1 and not body[0].orelse:
        add = body[0].body[0]
    elif len(body) == 2 and isinstance(body[0], ast.If) and is_empty_test(body[0].test, j, True) and len(body[0].body) == 1 and isinstance(body[0].body[0], ast.Continue):
        add = body[1]
    okd = isinstance(add, ast.AugAssign) and isinstance(add.op, ast.Add) and norm(add.target) == f"{res}[{u}]" and isinstance(add.value, ast.Call) and \
        norm(add.value.func) == p_dmat and sorted(norm(x) for x in add.value.args) in [sorted([f"{rv}[{i}]", f"{rv}[{j}]"]) for rv in list(rows) + [f"{p_arr}[{u}]"]]
    k.check("real-cost", okd, add or Lj, "every pair of two real units contributes d_mat(row_i, row_j) once",
            "pairs of real units do not each add d_mat of the two slots' rows")
    # closed form for the pairs involving an empty unit
    after = [x for x in L0.body[L0.body.index(Li) + 1:] if isinstance(x, ast.AugAssign) and isinstance(x.op, ast.Add) and norm(x.target) == f"{res}[{u}]"]
    if len(after) != 1:
        return k.undecided("empty-cost", Li, "closed-form charge for the pairs involving empty units not found after the pair loops")
    try:
        ex = Extractor({cnt: Rat.var("e"), n_name: Rat.var("n"), p_delta: Rat.var("Δ")})
        got = ex.ev(after[0].value)
        n_, e_ = Rat.var("n"), Rat.var("e")
        want = (n_ * (n_ - Rat.const(1)) / Rat.const(2) - (n_ - e_) * (n_ - e_ - Rat.const(1)) / Rat.const(2)) * Rat.var("Δ")
        k.check("empty-cost", got == want, after[0],
                "pairs involving an empty unit are charged (C(n,2) - C(n-e,2)) * delta_empty = (e(n-e) + e(e-1)/2) * delta_empty in total",
                f"with e empty slots the pairs involving an empty unit are charged {got}; the definition charges delta_empty for each of the "
                f"C(n,2) - C(n-e,2) = e(n-e) + e(e-1)/2 such pairs, i.e. {want}: pairs of two empty units are "
                f"{'not charged' if (want - got) == e_ * (e_ - Rat.const(1)) / Rat.const(2) * Rat.var('Δ') else 'mischarged'} "
                f"(differs as soon as a unitary alignment has 2+ empty units, which needs 3+ annotators)")
    except Unsupported as ue:
        k.undecided("empty-cost", after[0], str(ue))
    # normalisation (same rule as the plain shape)
    divs = [n for n in walk_no_nested(f.node) if isinstance(n, ast.AugAssign) and isinstance(n.op, ast.Div)]
    ok_norm = len(divs) == 1 and ((divs[0] in f.node.body and norm(divs[0].target) == res and f.node.body.index(divs[0]) > f.node.body.index(L0)) or
                                  (divs[0] in L0.body and norm(divs[0].target) == f"{res}[{u}]" and L0.body.index(divs[0]) > L0.body.index(after[0]))) \
        and c2n_ok(f, divs[0].value, n_name)
    k.check("normalisation", ok_norm, divs[0] if divs else None, "each unitary disorder is divided exactly once by C(n,2) = n(n-1)/2",
            "normalisation is not a single division by n(n-1)/2")
    return True


def A_const(e: ast.AST):
    if isinstance(e, ast.Constant) and isinstance(e.value, (int, float)):
        return e.value
    if isinstance(e, ast.UnaryOp) and isinstance(e.op, ast.USub) and isinstance(e.operand, ast.Constant):
        return -e.operand.value
    return None


def check_sentinel_producer(ctx: Ctx, rule: str):
    """_build_arrays_alignment writes -1 in field 3 of a None slot (the slot numbering itself is irrelevant: the pair-sum is symmetric)"""
    f = ctx.fn("AbstractDissimilarity._build_arrays_alignment", rule)
    wrote = False
    # a store into the array that happens exactly when the slot's unit is None (enclosing if/else, or after an `if unit is not None: ...; continue`)
    for s in walk_no_nested(f.node):
        if not (isinstance(s, ast.Assign) and len(s.targets) == 1 and isinstance(s.targets[0], ast.Subscript)):
            continue
        is_none = False
        for t, truth in conditions_at(f.node, s):
            if isinstance(t, ast.Compare) and len(t.ops) == 1 and isinstance(t.comparators[0], ast.Constant) and t.comparators[0].value is None:
                if (isinstance(t.ops[0], ast.Is) and truth) or (isinstance(t.ops[0], ast.IsNot) and not truth):
                    is_none = True
        if not is_none:
            continue
        v = expand_locals(f.node, s.value)
        if isinstance(v, ast.Call) and norm(v.func) in ("np.array", "numpy.array", "np.asarray") and v.args:
            lst = v.args[0]
            if isinstance(lst, (ast.List, ast.Tuple)) and len(lst.elts) == 4 and A_const(lst.elts[3]) == -1:
                wrote = True
        elif isinstance(v, ast.Call) and norm(v.func) in ("np.full", "numpy.full") and len(v.args) >= 2 and A_const(v.args[1]) == -1 and norm(v.args[0]) in ("4", "(4,)"):
            wrote = True
        elif A_const(v) == -1 and (norm(s.targets[0]).endswith(", 3]") or not norm(s.targets[0]).rstrip("]").split(",")[-1].strip().isdigit()):
            # scalar -1 stored in field 3, or broadcast over the whole row
            wrote = True
    ctx.check(wrote, rule, f, None, "an empty unit is written with category field -1 (the sentinel the kernel tests)",
              bad_detail="the array builder does not mark empty units with -1 in field 3", construct="None branch", key="sentinel-producer")
    check_index_not_sentinel(ctx, rule)


def check_index_not_sentinel(ctx: Ctx, rule: str):
    """field 3 of a *real* unit is never the empty-unit marker: every value the label-index function can return is a position in (or one past)
    the category set, hence >= 0.  A negative constant there makes the pair kernel take an unlabelled real unit for the empty unit and charge
    delta_empty instead of d_mat (recognised shape, wrong slot)."""
    if ("index-not-sentinel", rule) in ctx.notes.setdefault("records_checked", set()):
        return
    ctx.notes["records_checked"].add(("index-not-sentinel", rule))
    h = ctx.model.functions.get("AbstractDissimilarity._category_index")
    if h is None:
        return            # the builders call <categories>.index() directly: >= 0 by construction
    ctx.functions_analysed.add(h.qualname)
    rets = [r for r in walk_no_nested(h.node) if isinstance(r, ast.Return) and r.value is not None]
    neg = [r for r in rets if (A_const(r.value) is not None and A_const(r.value) < 0)]
    other = [r for r in rets if A_const(r.value) is None and not (isinstance(r.value, ast.Call) and (dotted(r.value.func) == "len" or
             (isinstance(r.value.func, ast.Attribute) and r.value.func.attr == "index")))]
    if neg:
        ctx.bad(rule, h, neg[0], f"the label index of a real unit can be {norm(neg[0].value)}: field 3 == -1 is how the pair kernel recognises the EMPTY unit, so an unlabelled "
                f"real unit is charged delta_empty against everything instead of d_mat(u, v) (the unit-to-unit form d() still computes d)", key="index-not-sentinel")
    elif other:
        ctx.undecided(rule, h, other[0], f"the label index `{norm(other[0].value)}` is neither a position in the category set nor its length (not a verdict)", key="index-not-sentinel")
    else:
        ctx.ok(rule, h, None, "every label index is a position in the category set or its length: never the empty-unit marker -1", construct="label index >= 0", key="index-not-sentinel")


# =============================================================================================
# numba_utils: odometer, buffer growth, build_A
# =============================================================================================
def check_odometer(ctx: Ctx, rule: str):
    f = ctx.fn("iter_tuples", rule)
    k = K(ctx, {x: rule for x in ("od-init", "od-yield", "od-advance", "od-stop")}, f)
    ps = f.params
    if len(ps) != 1:
        return k.undecided("od-init", None, "iter_tuples(sizes) expected")
    sizes = ps[0]
    whiles = [n for n in f.node.body if isinstance(n, ast.While)]
    if len(whiles) != 1 or not (isinstance(whiles[0].test, ast.Constant) and whiles[0].test.value is True):
        return k.undecided("od-init", None, "`while True:` driver expected")
    W = whiles[0]
    ys = [s for s in W.body if isinstance(s, ast.Expr) and isinstance(s.value, ast.Yield)]
    fors = [s for s in W.body if isinstance(s, ast.For)]
    if len(ys) != 1 or len(fors) != 1:
        return k.undecided("od-yield", W, "body must be: yield current; for i in range(n): ...")
    cur = norm(ys[0].value.value)
    cdef = _single(f, cur)
    n_expr = None
    okinit = cdef is not None and isinstance(cdef, ast.Call) and norm(cdef.func) in ("np.zeros", "numpy.zeros")
    k.check("od-init", okinit, cdef, "enumeration starts at the all-zero tuple", "the odometer does not start at the all-zero tuple")
    k.check("od-yield", W.body.index(ys[0]) < W.body.index(fors[0]), ys[0], "each tuple is yielded before it is advanced (first tuple included)",
            "the tuple is advanced before being yielded: the all-zero tuple is skipped")
    F = fors[0]
    iv = F.target.id if isinstance(F.target, ast.Name) else None
    try:
        lo, hi = range_bounds(F.iter, _resolver(f))
        full = lo == Lin.num(0) and hi in (Lin.atom(f"len({sizes})"), Lin.atom(f"len({cur})"))
    except ZUnsupported:
        full = False
    body = F.body
    ok_adv = False
    why = "shape"
    if iv and len(body) == 3 and isinstance(body[0], ast.AugAssign) and isinstance(body[1], ast.If) and isinstance(body[2], ast.Assign):
        inc, test, reset = body
        ok_inc = norm(inc.target) == f"{cur}[{iv}]" and isinstance(inc.op, ast.Add) and A_const(inc.value) == 1
        t = test.test
        ok_test = isinstance(t, ast.Compare) and len(t.ops) == 1 and norm(t.left) == f"{cur}[{iv}]" and isinstance(t.ops[0], ast.Lt) \
            and norm(t.comparators[0]) == f"{sizes}[{iv}]" and len(test.body) == 1 and isinstance(test.body[0], ast.Break) and not test.orelse
        ok_reset = norm(reset.targets[0]) == f"{cur}[{iv}]" and A_const(reset.value) == 0
        ok_adv = ok_inc and ok_test and ok_reset and full
        why = f"increment ok={ok_inc}, carry test `<` against sizes[i] ok={ok_test}, reset to 0 ok={ok_reset}, all digits ok={full}"
    k.check("od-advance", ok_adv, F, "mixed-radix advance: +1, carry when the digit reaches sizes[i], reset to 0",
            f"the odometer step is not the mixed-radix successor ({why}): tuples are skipped or repeated")
    ok_stop = len(F.orelse) == 1 and isinstance(F.orelse[0], ast.Return)
    k.check("od-stop", ok_stop, F.orelse[0] if F.orelse else F, "enumeration stops when every digit carried (after the all-maximal tuple)",
            "the enumeration does not stop exactly when every digit has carried")


def check_extend(ctx: Ctx, rule: str):
    for qn in ("extend_right_alignments", "extend_right_disorders"):
        if qn not in ctx.model.functions:
            ctx.undecided(rule, None, None, f"growth helper {qn} no longer exists: the buffer-growth argument does not apply to this design",
                          construct=qn, key=f"extend:{qn}")
            continue
        f = ctx.fn(qn, rule)
        arr, n = f.params
        rets = [s for s in f.node.body if isinstance(s, ast.Return)]
        if len(rets) != 1 or not isinstance(rets[0].value, ast.Name):
            ctx.undecided(rule, f, None, "single return of the new array expected", key=f"extend:{qn}")
            continue
        new = rets[0].value.id
        ndef = _single(f, new)
        # every spelling of "the old length": len(arr), arr.shape[0], the first name of `a, b = arr.shape`, and single-definition locals equal to one of those
        old_names = {f"len({arr})", f"{arr}.shape[0]"} | {norm(t.elts[0]) for s in f.node.body if isinstance(s, ast.Assign) and norm(s.value) == f"{arr}.shape"
                                                            and isinstance((t := s.targets[0]), ast.Tuple) and t.elts}
        for s in f.node.body:
            if isinstance(s, ast.Assign) and len(s.targets) == 1 and isinstance(s.targets[0], ast.Name) and norm(s.value) in old_names and \
                    len(stores_to(f.node, s.targets[0].id)) == 1:
                old_names.add(s.targets[0].id)
        old_len = None
        shape_ok = False
        if isinstance(ndef, ast.Call) and norm(ndef.func) in ("np.empty", "np.zeros"):
            sh = ndef.args[0]
            first = sh.elts[0] if isinstance(sh, ast.Tuple) else sh
            try:
                l = to_lin(first)
                # first dim = old length + n
                for cand in sorted(old_names):
                    if l == Lin.atom(cand) + Lin.atom(n):
                        old_len, shape_ok = cand, True
            except ZUnsupported:
                pass
        copies = [s for s in f.node.body if isinstance(s, ast.Assign) and isinstance(s.targets[0], ast.Subscript)
                  and norm(s.targets[0].value) == new and norm(s.value) == arr]
        copy_ok = False
        if copies and old_len:
            sl = copies[0].targets[0].slice
            first = sl.elts[0] if isinstance(sl, ast.Tuple) else sl
            copy_ok = isinstance(first, ast.Slice) and first.lower is None and first.upper is not None and norm(first.upper) in old_names and first.step is None
        ctx.check(shape_ok and copy_ok, rule, f, copies[0] if copies else ndef,
                  "grown buffer has old length + n cells and its prefix [:old length] is the old content",
                  bad_detail=f"growth helper loses or misplaces already stored candidates (new length ok={shape_ok}, prefix copy ok={copy_ok})",
                  key=f"extend:{qn}")


def check_build_A(ctx: Ctx, rules: Dict[str, str]):
    f = ctx.fn("build_A", next(iter(rules.values())))
    k = K(ctx, rules, f)
    cands, sizes = f.params
    rets = [s for s in f.node.body if isinstance(s, ast.Return)]
    if len(rets) != 1 or not isinstance(rets[0].value, ast.Name):
        return k.undecided("A-shape", None, "return A expected")
    Am = rets[0].value.id
    adef = _single(f, Am)
    ok_shape = isinstance(adef, ast.Call) and norm(adef.func) in ("np.zeros", "numpy.zeros") and isinstance(adef.args[0], ast.Tuple) \
        and len(adef.args[0].elts) == 2
    rows_ok = cols_ok = False
    if ok_shape:
        r, c = adef.args[0].elts
        rd = _single(f, norm(r)) if isinstance(r, ast.Name) else r
        cd = _single(f, norm(c)) if isinstance(c, ast.Name) else c
        rows_ok = rd is not None and norm(rd) in (f"np.sum({sizes})", f"{sizes}.sum()", f"sum({sizes})")
        cols_ok = cd is not None and norm(cd) in (f"len({cands})", f"{cands}.shape[0]")
    k.check("A-shape", ok_shape and rows_ok and cols_ok, adef, "A is a zero matrix with one row per unit and one column per candidate",
            "A is not zeros((sum(sizes), number of candidates))")
    outer = [s for s in f.node.body if isinstance(s, ast.For)]
    if len(outer) != 1:
        return k.undecided("A-loops", None, "one loop over the candidates expected")
    O = outer[0]
    okO = isinstance(O.iter, ast.Call) and dotted(O.iter.func) == "enumerate" and norm(O.iter.args[0]) == cands and \
        isinstance(O.target, ast.Tuple) and len(O.target.elts) == 2
    if not okO:
        return k.undecided("A-loops", O, "for p_id, tuple in enumerate(candidates) expected")
    pid, tup = norm(O.target.elts[0]), norm(O.target.elts[1])
    inner = [s for s in O.body if isinstance(s, ast.For)]
    if len(inner) != 1:
        return k.undecided("A-loops", O, "one loop over the annotator slots expected")
    I = inner[0]
    okI = isinstance(I.iter, ast.Call) and dotted(I.iter.func) == "enumerate" and norm(I.iter.args[0]) == tup and \
        isinstance(I.target, ast.Tuple) and len(I.target.elts) == 2
    size_of = None
    if okI:
        aid, uid = norm(I.target.elts[0]), norm(I.target.elts[1])
        size_of = f"{sizes}[{aid}]"
    elif isinstance(I.iter, ast.Call) and dotted(I.iter.func) == "zip" and [norm(a) for a in I.iter.args] == [tup, sizes] and \
            isinstance(I.target, ast.Tuple) and len(I.target.elts) == 2 and all(isinstance(e, ast.Name) for e in I.target.elts):
        # slot by slot, side by side with that annotator's number of units (a candidate has one slot per annotator, as many as sizes has entries)
        uid, size_of = norm(I.target.elts[0]), norm(I.target.elts[1])
        aid = "?"
        okI = True
    if not okI:
        return k.undecided("A-loops", I, "for annotator_id, unit_id in enumerate(tuple) expected")
    # offset variable: reset per candidate, advanced by sizes[a] in every iteration
    resets = [s for s in O.body if isinstance(s, ast.Assign) and isinstance(s.targets[0], ast.Name) and A_const(s.value) == 0
              and O.body.index(s) < O.body.index(I)]
    off = resets[0].targets[0].id if resets else None
    adv = [s for s in ast.walk(I) if isinstance(s, ast.AugAssign) and off and norm(s.target) == off]
    cfg = CFG(f.node)
    ok_adv = len(adv) == 1 and isinstance(adv[0].op, ast.Add) and norm(expand_locals(f.node, adv[0].value)) == size_of and \
        cfg.every_iteration_passes(I, {cfg.node_of(adv[0])})
    k.check("A-offset", bool(off) and ok_adv, adv[0] if adv else I,
            "row offset restarts at 0 for each candidate and advances by sizes[annotator] in every iteration (also for empty slots)",
            "row offset of an annotator's block is not advanced unconditionally by sizes[annotator]: units of later annotators land in wrong rows")
    ifs = [s for s in I.body if isinstance(s, ast.If)]
    ok_null = False
    ok_store = False
    if len(ifs) == 1:
        t = expand_locals(f.node, ifs[0].test, skip=(uid, aid, size_of))
        ok_null = is_cmp(t, uid, "!=", size_of) or is_cmp(t, uid, "<", size_of)
        st = [s for s in ifs[0].body if isinstance(s, ast.Assign) and isinstance(s.targets[0], ast.Subscript)]
        if len(st) == 1 and norm(st[0].targets[0].value) == Am and isinstance(st[0].targets[0].slice, ast.Tuple):
            r, c = st[0].targets[0].slice.elts
            try:
                ok_store = to_lin(r) == Lin.atom(off or "?") + Lin.atom(uid) and norm(c) == pid and A_const(st[0].value) == 1
            except ZUnsupported:
                ok_store = False
    k.check("A-null", ok_null, ifs[0].test if ifs else I, "a slot is real iff its index differs from len(units of that annotator) = sizes[a]",
            "null-unit test in build_A does not compare the unit index with sizes[annotator]: real units are dropped from, or empty "
            "units entered into, the constraint matrix")
    k.check("A-cell", ok_store, ifs[0] if ifs else I, "A[offset + unit_id, candidate] = 1 for every real slot",
            "the cell written for a real unit is not A[offset + unit_id, candidate] = 1")


# =============================================================================================
# _get_all_valid_alignments
# =============================================================================================
_NARROW_INTS = ("int8", "uint8", "bool_", "bool8", "bool", "byte", "ubyte", "boolean")
_INDEX_CARRIERS = (CAND, "iter_tuples", "extend_right_alignments", "build_A")


def check_index_width(ctx: Ctx, rule: str):
    """positions of units inside an annotator's array travel as integers from the odometer through the candidate buffer and its growth to
    build_A and the decoder.  The pinned tree uses 16-bit integers (at most 32767 units per annotator: a stated assumption); an 8-bit or boolean
    type anywhere on that path - dtype, astype, or the compiled signature - wraps at 128 / 256 and the candidates name other units than the
    ones they were costed with (recognised shape, wrong slot)."""
    if ("index-width", rule) in ctx.notes.setdefault("records_checked", set()):
        return
    ctx.notes["records_checked"].add(("index-width", rule))
    M = ctx.model
    seen = 0
    for qn in _INDEX_CARRIERS:
        f = M.functions.get(qn)
        if f is None:
            continue
        ctx.functions_analysed.add(f.qualname)
        nodes = list(getattr(f.node, "decorator_list", [])) + list(f.node.body)
        for top in nodes:
            for x in ast.walk(top):
                name = None
                if isinstance(x, ast.Attribute) and isinstance(x.value, (ast.Name, ast.Attribute)) and norm(x.value).split(".")[0] in ("np", "numpy", "nb", "numba"):
                    name = x.attr
                elif isinstance(x, ast.Constant) and isinstance(x.value, str) and x.value in _NARROW_INTS + ("int16", "int32", "int64", "uint16"):
                    name = x.value
                if name is None or not (name.startswith(("int", "uint", "bool", "byte", "ubyte")) and name not in ("intp",)):
                    continue
                if name in ("int", "integer"):
                    continue
                seen += 1
                if name in _NARROW_INTS:
                    ctx.bad(rule, f, x, f"{qn} carries unit positions in `{norm(x)}`: positions from 128 (256) on wrap around, so a candidate names other units than the ones its "
                            f"cost was computed from (the pinned 16-bit type holds 32767 units per annotator)", key=f"index-width:{qn}")
    # the costs travel next to the positions: single precision is what the property allows for ("up to single-precision rounding")
    for qn in (CAND, PAIRK, "extend_right_disorders"):
        f = M.functions.get(qn)
        if f is None:
            continue
        for top in list(getattr(f.node, "decorator_list", [])) + list(f.node.body):
            for x in ast.walk(top):
                nm = x.attr if isinstance(x, ast.Attribute) and norm(x.value).split(".")[0] in ("np", "numpy", "nb", "numba") else \
                    (x.value if isinstance(x, ast.Constant) and isinstance(x.value, str) else None)
                if nm in ("float16", "half", "float8"):
                    ctx.bad(rule, f, x, f"{qn} keeps costs in `{norm(x)}` (11 significant bits): disorders are only defined up to single-precision rounding, and "
                            f"the pruning threshold is compared against such a value", key=f"cost-width:{qn}")
    ctx.check(seen >= 4, rule, None, None, f"{seen} integer types on the path of the unit positions (odometer, candidate buffer, growth, build_A), none narrower than 16 bits",
              bad_detail=f"only {seen} integer types found on the path of the unit positions (anchor vanished)", construct="index width", key="index-width")


def check_candidates(ctx: Ctx, rules: Dict[str, str]):
    f = ctx.fn(CAND, next(iter(rules.values())))
    check_index_width(ctx, rules.get("index-width") or rules.get("append") or rules.get("source") or next(iter(rules.values())))
    check_entry(ctx, rules.get("entry") or next(iter(rules.values())), "valid_alignments")
    k = K(ctx, rules, f)
    ps = f.params
    if len(ps) != 3:
        return k.undecided("signature", None, "(unit_arrays, d_mat, delta_empty) expected")
    p_units, p_dmat, p_delta = ps
    body = f.node.body
    res = _resolver(f)
    # n, c2n, criterium
    n_name = next((s.targets[0].id for s in body if isinstance(s, ast.Assign) and isinstance(s.targets[0], ast.Name)
                   and norm(s.value) == f"len({p_units})"), None)
    if n_name is None:
        return k.undecided("n", None, "nb_annotators = len(unit_arrays) not found")
    c2n_name = next((s.targets[0].id for s in body if isinstance(s, ast.Assign) and isinstance(s.targets[0], ast.Name)
                     and c2n_ok(f, s.value, n_name)), None)
    k.check("c2n", c2n_name is not None, None, "c2n = n(n-1)/2", "no local equal to n(n-1)/2 (number of annotator pairs)")
    if c2n_name is None:
        return
    # ---- sizes
    sizes_null = sizes = None
    venv = view_env(f.node)
    for L in [s for s in body if isinstance(s, ast.For)]:
        # for a in range(n): ...   or   for a, units_a in enumerate(unit_arrays): ...
        if isinstance(L.target, ast.Name):
            a = L.target.id
        elif isinstance(L.target, ast.Tuple) and len(L.target.elts) == 2 and isinstance(L.target.elts[0], ast.Name) and isinstance(L.iter, ast.Call) \
                and dotted(L.iter.func) == "enumerate" and len(L.iter.args) == 1 and norm(L.iter.args[0]) == p_units:
            a = L.target.elts[0].id
        else:
            continue
        for s in L.body:
            if isinstance(s, ast.Assign) and isinstance(s.targets[0], ast.Subscript):
                tn = norm(s.targets[0])
                sv = norm(subst_views(expand_locals(f.node, s.value, skip=(n_name, c2n_name)), venv))
                if sv in (f"len({p_units}[{a}]) + 1", f"1 + len({p_units}[{a}])") and tn.endswith(f"[{a}]"):
                    sizes_null = (norm(s.targets[0].value), L, s)
                if sv == f"len({p_units}[{a}])" and tn.endswith(f"[{a}]"):
                    sizes = (norm(s.targets[0].value), L, s)
    ok_sz = False
    if sizes_null:
        it_ = sizes_null[1].iter
        if isinstance(it_, ast.Call) and dotted(it_.func) == "enumerate" and len(it_.args) == 1 and norm(it_.args[0]) == p_units:
            ok_sz = True                # one iteration per annotator's array
        else:
            try:
                lo, hi = range_bounds(it_)
                ok_sz = lo == Lin.num(0) and hi in (Lin.atom(n_name), Lin.atom(f"len({p_units})"))
            except ZUnsupported:
                pass
    k.check("sizes-with-null", ok_sz, sizes_null[2] if sizes_null else None,
            "every annotator gets the index range 0..len(units): one extra index for the empty unit",
            "sizes_with_null[a] is not len(units of a) + 1 for every annotator: the empty unit (or a real one) is not enumerable")
    # ---- main loop
    mains = [s for s in body if isinstance(s, ast.For) and isinstance(s.iter, ast.Call) and dotted(s.iter.func) == "iter_tuples"]
    if len(mains) != 1:
        return k.undecided("source", None, "`for t in iter_tuples(sizes_with_null)` not found")
    ML = mains[0]
    tup = norm(ML.target)
    k.check("source", sizes_null is not None and norm(ML.iter.args[0]) == sizes_null[0], ML,
            "candidates are drawn from iter_tuples(sizes_with_null): every combination of one-unit-or-empty per annotator",
            "the enumeration is not driven by sizes_with_null")
    # ---- criterium
    flt = [s for s in ML.body if isinstance(s, ast.If)]
    if flt and len(flt[0].body) == 1 and isinstance(flt[0].body[0], ast.Continue) and not flt[0].orelse:
        flt = flt[:1]               # guard clause: what follows it is the kept-candidate path
    if len(flt) != 1:
        return k.undecided("filter", ML, "single filter `if disorder <= criterium` expected in the enumeration loop")
    FI = flt[0]
    t = FI.test
    kept_body = FI.body
    if len(FI.body) == 1 and isinstance(FI.body[0], ast.Continue) and not FI.orelse:
        # guard clause: `if not (cost <= thr): continue` followed by the stores
        kept_body = ML.body[ML.body.index(FI) + 1:]
        if isinstance(t, ast.UnaryOp) and isinstance(t.op, ast.Not):
            t = t.operand
        elif isinstance(t, ast.Compare) and len(t.ops) == 1 and type(t.ops[0]) in (ast.Gt, ast.GtE, ast.Lt, ast.LtE):
            inv = {ast.Gt: ast.LtE, ast.GtE: ast.Lt, ast.Lt: ast.GtE, ast.LtE: ast.Gt}
            t = ast.copy_location(ast.Compare(left=t.left, ops=[inv[type(t.ops[0])]()], comparators=t.comparators), t)
        else:
            return k.undecided("filter", FI, "guard clause of the enumeration loop is not a comparison of the cost with a threshold")
    elif FI.orelse or ML.body.index(FI) != len(ML.body) - 1:
        return k.undecided("filter", FI, "statements after / besides the filter in the enumeration loop: shape not recognised (not a verdict)")
    if isinstance(t, ast.BoolOp):
        # the paper's cut combined with something else
        cuts = [v for v in t.values if isinstance(v, ast.Compare) and len(v.ops) == 1 and isinstance(v.ops[0], (ast.LtE, ast.Lt, ast.GtE, ast.Gt))]
        main = cuts[0] if cuts else None
        extra = [v for v in t.values if v is not main]
        if main is None:
            return k.undecided("filter", FI, "filter is not a comparison of the accumulated cost with a threshold")
        if isinstance(t.op, ast.And):
            k.check("filter-extra", False, t, "", f"the filter adds the condition(s) `{'; '.join(norm(x) for x in extra)}` to the cut of Mathet et al. 5.1.1: "
                    f"candidates with cost <= n*delta_empty are discarded, which the paper's argument does not cover - an optimal alignment may need them "
                    f"(for 3 annotators n equals C(n,2), which can hide a wrong bound)")
        else:
            k.check("filter-looser", False, t, "", f"the filter also keeps candidates above the cut (`{'; '.join(norm(x) for x in extra)}`): "
                    f"the candidate set is no longer exactly the one under n*delta_empty")
        t = main
    else:
        k.check("filter-extra", True, t, "the filter is a single comparison: nothing tighter than the cut of Mathet et al. 5.1.1 is applied", "")
    cost = thr = None
    op_ok = False
    if isinstance(t, ast.Compare) and len(t.ops) == 1:
        if isinstance(t.ops[0], (ast.LtE, ast.Lt)):
            cost, thr = t.left, t.comparators[0]
            op_ok = isinstance(t.ops[0], ast.LtE)
        elif isinstance(t.ops[0], (ast.GtE, ast.Gt)):
            cost, thr = t.comparators[0], t.left
            op_ok = isinstance(t.ops[0], ast.GtE)
    if cost is None or not isinstance(cost, ast.Name):
        return k.undecided("filter", FI, "filter is not a comparison of the accumulated cost with a threshold")
    k.check("filter-op", op_ok, t, "a candidate whose cost equals the threshold is kept (<=)",
            "strict comparison: candidates exactly at n*delta_empty are discarded (the paper's cut keeps them)")
    try:
        ex = Extractor({n_name: Rat.var("n"), c2n_name: Rat.var("c2n"), p_delta: Rat.var("Δ")})
        thr_e = expand_locals(f.node, thr, skip=(n_name, c2n_name, p_delta))
        got = ex.ev(thr_e)
        want = Rat.var("c2n") * Rat.var("Δ") * Rat.var("n")
        k.check("threshold", got == want, thr_e, "threshold on the pair-sum = C(n,2) * n * delta_empty, i.e. disorder <= n*delta_empty after normalisation",
                f"pruning threshold is {got} on the raw pair-sum; the cut of Mathet et al. 5.1.1 is c2n*n*Δ "
                f"(tighter cuts lose optimal candidates, looser ones only cost time)")
    except Unsupported as e:
        k.undecided("threshold", thr, str(e))
    # ---- cost accumulation
    cname = cost.id
    zero = [s for s in ML.body if isinstance(s, ast.Assign) and norm(s.targets[0]) == cname and A_const(s.value) == 0]
    ploops = [s for s in ML.body[:ML.body.index(FI)] if isinstance(s, ast.For)]
    pre_name = None
    if len(zero) == 1 and len(ploops) == 1 and [x for x in ploops[0].body if isinstance(x, ast.For)]:
        Pa = ploops[0]
        Pb = [x for x in Pa.body if isinstance(x, ast.For)][0]
        try:
            dom = pair_domain(Pa, Pb, Lin.atom(n_name))
        except ZUnsupported as e:
            dom = f"partial:{e}"
        k.check("cost-domain", dom == "pairs", Pa, "candidate cost sums over every unordered pair of annotators once",
                f"candidate cost sums over `{dom}` instead of all C(n,2) annotator pairs")
        a, b = Pa.target.id, Pb.target.id
        accs = [s for s in Pb.body if isinstance(s, ast.AugAssign) and norm(s.target) == cname and isinstance(s.op, ast.Add)]
        ok_term = False
        if len(accs) == 1:
            v = expand_locals(f.node, accs[0].value, skip=(n_name, c2n_name, cname, tup))
            # precomputation[x][y][tup[x], tup[y]]
            if isinstance(v, ast.Subscript) and isinstance(v.slice, ast.Tuple) and len(v.slice.elts) == 2 and \
                    isinstance(v.value, ast.Subscript) and isinstance(v.value.value, ast.Subscript):
                pre_name = norm(v.value.value.value)
                x, y = norm(v.value.value.slice), norm(v.value.slice)
                r, c = norm(v.slice.elts[0]), norm(v.slice.elts[1])
                ok_term = {x, y} == {a, b} and r == f"{tup}[{x}]" and c == f"{tup}[{y}]"
                k.facts = {"pre": pre_name, "first": x, "second": y, "outer": a, "inner": b, "dom": dom}
        cost_writes = [x for x in ast.walk(ML) if isinstance(x, (ast.Assign, ast.AugAssign)) and
                       any(norm(t_) == cname for t_ in (x.targets if isinstance(x, ast.Assign) else [x.target]))]
        k.check("cost-closed", len(cost_writes) == 2 and zero[0] in cost_writes and (accs and accs[0] in cost_writes), cost_writes[-1] if cost_writes else Pb,
                "the candidate cost is written only by its reset to 0 and by the pair accumulation",
                f"the candidate cost `{cname}` is also modified by {[norm(x) for x in cost_writes if x is not zero[0] and not (accs and x is accs[0])]}: "
                f"what is compared with the threshold / stored is no longer the pair-sum")
        k.check("cost-term", ok_term, accs[0] if accs else Pb,
                "each pair adds precomputation[x][y][t[x], t[y]]: row index from the annotator of the rows, column from the annotator of the columns",
                "pair term does not index the pair matrix with (tuple[row annotator], tuple[column annotator])")
    else:
        k.undecided("cost-domain", ML, "cost accumulation is not `disorder = 0` followed by two nested loops")
    # ---- pair matrices
    if pre_name:
        _check_matrices(ctx, k, f, pre_name, p_units, p_dmat, p_delta, n_name, sizes[0] if sizes else None, getattr(k, "facts", {}))
    # ---- append discipline and capacity
    _check_append(ctx, k, f, ML, FI, kept_body, cname, tup, n_name)
    # ---- final slice and normalisation
    _check_final(ctx, k, f, ML, c2n_name, n_name)


def _index_nodes(t: ast.Subscript, base: str, venv=None):
    """(row, col) index nodes of `base[r, c]` / `base[r][c]` / `row = base[r]; row[c]`, else None"""
    fl = flat_nodes(t, venv)
    if fl is not None and fl[0] == base and len(fl[1]) == 2:
        return fl[1][0], fl[1][1]
    return None


def _check_matrices(ctx, k: K, f: FuncInfo, pre: str, p_units, p_dmat, p_delta, n_name, sizes_name, facts):
    body = f.node.body
    outer = None
    venv = view_env(f.node)

    def stores_into_pre(x) -> bool:
        if not (isinstance(x, ast.Assign) and isinstance(x.targets[0], ast.Subscript)):
            return False
        fl = flat_subscript(x.targets[0], venv)
        return fl is not None and fl[0] == pre and len(fl[1]) == 2
    for s in body:
        if isinstance(s, ast.For) and any(stores_into_pre(x) for x in ast.walk(s)):
            outer = s
    if outer is None or not [x for x in outer.body if isinstance(x, ast.For)]:
        return k.undecided("matrix-cover", None, "construction of the pair matrices not found")
    Pa = outer
    Pb = [x for x in Pa.body if isinstance(x, ast.For)][0]
    try:
        dom = pair_domain(Pa, Pb, Lin.atom(n_name))
    except ZUnsupported as e:
        dom = f"partial:{e}"
    a, b = Pa.target.id, Pb.target.id
    def pre_cell(x):
        fl = flat_subscript(x.targets[0], venv) if isinstance(x, ast.Assign) and isinstance(x.targets[0], ast.Subscript) else None
        return fl[1] if fl is not None and fl[0] == pre and sorted(fl[1]) == sorted([a, b]) else None
    st = [x for x in Pb.body if pre_cell(x) is not None]
    # orientation: matrix rows belong to the annotator used as FIRST index
    if not st:
        return k.undecided("matrix-cover", Pb, "store of the pair matrix into the nested list not found")
    first_idx = pre_cell(st[0])[0]
    second_idx = b if first_idx == a else a
    mat = norm(st[0].value)
    k.check("matrix-domain", dom == "pairs", Pa, "one matrix per unordered annotator pair", f"pair matrices are built over `{dom}`")
    # local sizes
    env = {}
    for s in list(Pa.body) + list(Pb.body):          # sizes may be read into locals at either loop level
        if isinstance(s, ast.Assign) and isinstance(s.targets[0], ast.Tuple) and isinstance(s.value, ast.Tuple):
            for tt, vv in zip(s.targets[0].elts, s.value.elts):
                env[norm(tt)] = norm(vv)
        elif isinstance(s, ast.Assign) and isinstance(s.targets[0], ast.Name):
            env[s.targets[0].id] = norm(s.value)

    def size_of(nm: str) -> Optional[str]:
        v = env.get(nm, nm)
        for who in (a, b):
            if v in (f"{sizes_name}[{who}]", f"len({p_units}[{who}])"):
                return who
        return None
    mdef = next((s for s in Pb.body if isinstance(s, ast.Assign) and norm(s.targets[0]) == mat and isinstance(s.value, ast.Call)
                 and norm(s.value.func) in ("np.empty", "np.zeros")), None)
    if mdef is None or not isinstance(mdef.value.args[0], ast.Tuple) or len(mdef.value.args[0].elts) != 2:
        return k.undecided("matrix-cover", Pb, "allocation of the pair matrix not found")
    zero_alloc = norm(mdef.value.func) == "np.zeros"

    def dim(e) -> Optional[Tuple[str, Lin]]:
        try:
            l = to_lin(e)
        except ZUnsupported:
            return None
        for nm, _ in l.terms:
            who = size_of(nm)
            if who is not None and l == Lin.atom(nm) + Lin.num(1):
                return who, Lin.atom("N_" + who) + Lin.num(1)
        return None
    d0, d1 = dim(mdef.value.args[0].elts[0]), dim(mdef.value.args[0].elts[1])
    ok_alloc = d0 is not None and d1 is not None and d0[0] == first_idx and d1[0] == second_idx
    k.check("matrix-alloc", ok_alloc, mdef, "pair matrix is (units of the row annotator + 1) x (units of the column annotator + 1)",
            "pair matrix dimensions do not match (rows: first-index annotator + 1, columns: second-index annotator + 1)")
    if not ok_alloc:
        return
    NA, NB = Lin.atom("N_" + first_idx), Lin.atom("N_" + second_idx)

    def L(e, loopvars) -> Optional[Lin]:
        try:
            l = to_lin(e)
        except ZUnsupported:
            return None
        out = Lin.num(l.const)
        for nm, c in l.terms:
            who = size_of(nm)
            if who is not None:
                out = out + Lin.atom("N_" + who).scale(c)
            elif nm in loopvars:
                return None
            else:
                return None
        return out
    # collect writes: (row interval, col interval, value kind)
    writes = []

    def visit(stmts, loops):
        for s in stmts:
            if isinstance(s, ast.For) and isinstance(s.target, ast.Name):
                try:
                    lo, hi = range_bounds(s.iter)
                except ZUnsupported:
                    continue
                lo2, hi2 = L_expr(lo), L_expr(hi)
                if lo2 is None or hi2 is None:
                    continue
                visit(s.body, dict(loops, **{s.target.id: (lo2, hi2)}))
            elif isinstance(s, ast.Assign) and isinstance(s.targets[0], ast.Subscript) and _index_nodes(s.targets[0], mat, venv) is not None:
                r, c = _index_nodes(s.targets[0], mat, venv)
                iv = []
                for axis, e in enumerate((r, c)):
                    if isinstance(e, ast.Name) and e.id in loops:
                        iv.append(loops[e.id] + (e.id,))
                    elif isinstance(e, ast.Slice) and e.lower is None and e.upper is None and e.step is None:
                        iv.append((Lin.num(0), (NA if axis == 0 else NB) + Lin.num(1), None))      # whole axis
                    else:
                        p = L(e, loops)
                        iv.append((p, p + Lin.num(1), None) if p is not None else None)
                if None in iv:
                    continue
                writes.append((iv[0], iv[1], s))

    def L_expr(l: Lin) -> Optional[Lin]:
        out = Lin.num(l.const)
        for nm, c in l.terms:
            who = size_of(nm)
            if who is None:
                return None
            out = out + Lin.atom("N_" + who).scale(c)
        return out
    visit(Pb.body, {})
    cells = {"real x real": ((Lin.num(0), NA), (Lin.num(0), NB)), "real x empty": ((Lin.num(0), NA), (NB, NB + Lin.num(1))),
             "empty x real": ((NA, NA + Lin.num(1)), (Lin.num(0), NB)), "empty x empty": ((NA, NA + Lin.num(1)), (NB, NB + Lin.num(1)))}
    all_ok = True
    msgs = []
    for cname, cell in cells.items():
        cover = [w for w in writes if box_contains((w[0][:2], w[1][:2]), cell)]
        if not cover:
            all_ok = False
            msgs.append(f"{cname} cells are never written" + (" (np.empty: they hold garbage)" if not zero_alloc else " (stay 0)"))
            continue
        w = cover[-1]
        val = w[2].value
        if cname == "real x real":
            val = subst_views(expand_locals(f.node, val, skip=(n_name,)), venv)
            okv = isinstance(val, ast.Call) and norm(val.func) == p_dmat and len(val.args) == 2 and \
                norm(val.args[0]) == f"{p_units}[{first_idx}][{w[0][2]}]" and norm(val.args[1]) == f"{p_units}[{second_idx}][{w[1][2]}]"
            if not okv:
                all_ok = False
                msgs.append(f"real cells hold `{norm(val)}`, expected d_mat(units[{first_idx}][row], units[{second_idx}][col])")
        else:
            # last matching write wins in program order: require every covering write to store delta_empty
            if not all(norm(x[2].value) == p_delta for x in cover):
                all_ok = False
                msgs.append(f"{cname} cells hold `{norm(val)}` instead of delta_empty")
    # every recognised write stays inside the allocation (compiled code is not bounds-checked: a store past the last row is a store into
    # whatever follows the matrix on the heap)
    if "matrix-cover" in k.rules:
        box = ((Lin.num(0), NA + Lin.num(1)), (Lin.num(0), NB + Lin.num(1)))
        outside = [w for w in writes if not box_contains(box, (w[0][:2], w[1][:2]))]
        k.rules.setdefault("matrix-bounds", k.rules["matrix-cover"])
        k.check("matrix-bounds", not outside, outside[0][2] if outside else mdef, f"all {len(writes)} recognised stores into the pair matrix stay inside its (n_a+1) x (n_b+1) allocation",
                f"`{norm(outside[0][2]) if outside else ''}` stores outside the (n_a+1) x (n_b+1) allocation: compiled code is not bounds-checked, the store lands in foreign memory")
    k.check("matrix-cover", all_ok, mdef,
            "the writes cover the whole (n_a+1) x (n_b+1) box: real cells = d_mat(unit_a, unit_b), last row/column (empty unit) = delta_empty",
            "pair matrix is not fully/rightly initialised: " + "; ".join(msgs))


def _check_append(ctx, k: K, f: FuncInfo, ML: ast.For, FI: ast.If, body: List[ast.stmt], cname: str, tup: str, n_name: str):
    st = [s for s in body if isinstance(s, ast.Assign) and isinstance(s.targets[0], ast.Subscript)]
    incs = [s for s in body if isinstance(s, ast.AugAssign) and isinstance(s.op, ast.Add) and A_const(s.value) == 1]
    if len(st) != 2 or len(incs) != 1:
        return k.undecided("append", FI, "under the filter: two stores and one increment expected")
    ivar = norm(incs[0].target)
    bufs = {}
    for s in st:
        if norm(s.targets[0].slice) == ivar:
            bufs[norm(s.targets[0].value)] = norm(s.value)
    dis_buf = next((b for b, v in bufs.items() if v == cname), None)
    al_buf = next((b for b, v in bufs.items() if v == tup), None)
    order_ok = all(body.index(s) < body.index(incs[0]) for s in st)
    k.check("append", dis_buf is not None and al_buf is not None and order_ok, st[0],
            "the cost and the tuple are stored at the same index, then the index is incremented once",
            "cost and tuple are not stored at the same index before the single increment: disorders and candidates get misaligned")
    # no other writes to i / buffers inside the loop
    others = [s for s in ast.walk(ML) if isinstance(s, (ast.Assign, ast.AugAssign)) and s not in st and s is not incs[0]
              and any(norm(t) == ivar for t in (s.targets if isinstance(s, ast.Assign) else [s.target]))]
    k.check("append-unique", not others, others[0] if others else incs[0], "nothing else writes the fill index: it counts the stored candidates and is >= 1 after a store",
            f"the fill index is also written by `{norm(others[0]) if others else ''}`: the final cut [: {ivar} - 1] means 'drop the last stored candidate' "
            f"only while {ivar} counts the candidates of the buffer being cut and is >= 1; after such a write the cut can become [:-1] of a fresh "
            f"buffer (all-empty candidate kept, garbage rows appended)")
    k.facts2 = {"ivar": ivar, "dis": dis_buf, "al": al_buf}
    if dis_buf is None or al_buf is None:
        return
    # capacity invariant
    ddef = [v for v in assigned_value(f.node, dis_buf) if isinstance(v, ast.Call) and norm(v.func) in ("np.empty", "np.zeros")]
    adef = [v for v in assigned_value(f.node, al_buf) if isinstance(v, ast.Call) and norm(v.func) in ("np.empty", "np.zeros")]
    cap = None
    if ddef and adef:
        c1 = norm(ddef[0].args[0])
        sh = adef[0].args[0]
        c2 = norm(sh.elts[0]) if isinstance(sh, ast.Tuple) else None
        w_ok = isinstance(sh, ast.Tuple) and len(sh.elts) == 2 and norm(sh.elts[1]) == n_name
        if c1 == c2 and w_ok:
            cap = c1
    k.check("cap-init", cap is not None, ddef[0] if ddef else None, "both buffers start with the same capacity (candidates are n wide)",
            "the two result buffers do not start with the same capacity variable")
    if cap is None:
        return
    cinit = [v for v in assigned_value(f.node, cap) if isinstance(v, ast.Constant)]
    k.check("cap-const", len(cinit) == 1 and isinstance(cinit[0].value, int) and cinit[0].value >= 2, cinit[0] if cinit else None,
            "initial capacity is a constant >= 2 (so that growing by half adds at least one cell)",
            "initial capacity is not an integer constant >= 2")
    gif = [s for s in body if isinstance(s, ast.If) and body.index(s) > body.index(incs[0])]
    if len(gif) != 1:
        return k.check("growth-test", False, incs[0], "", "no growth test after the increment: the next store may fall outside the buffers "
                       "(numba does not bounds-check: silent memory corruption)")
    G = gif[0]
    t = G.test
    growth_body = G.body
    if len(G.body) == 1 and isinstance(G.body[0], ast.Continue) and not G.orelse:
        # guard clause: `if index != capacity: continue` followed by the growth statements
        growth_body = body[body.index(G) + 1:]
        if isinstance(t, ast.UnaryOp) and isinstance(t.op, ast.Not):
            t = t.operand
        elif isinstance(t, ast.Compare) and len(t.ops) == 1 and type(t.ops[0]) in (ast.NotEq, ast.Lt, ast.Gt, ast.Eq, ast.GtE, ast.LtE):
            inv = {ast.NotEq: ast.Eq, ast.Lt: ast.GtE, ast.Gt: ast.LtE, ast.Eq: ast.NotEq, ast.GtE: ast.Lt, ast.LtE: ast.Gt}
            t = ast.copy_location(ast.Compare(left=t.left, ops=[inv[type(t.ops[0])]()], comparators=t.comparators), t)
        else:
            return k.undecided("growth-test", G, "guard clause before the growth statements is not a comparison of the fill index with the capacity")
    # the capacity the index is compared with: the tracked variable, or the actual length of a buffer read on the spot
    length_forms = {f"len({dis_buf})", f"{dis_buf}.shape[0]", f"len({al_buf})", f"{al_buf}.shape[0]"}

    def cap_like(e) -> Optional[str]:
        tx = norm(expand_locals(f.node, e, skip=(cap, ivar)))
        if tx == cap:
            return "tracked"
        if tx in length_forms:
            return "length"
        return None
    mode = None
    okt = False
    if isinstance(t, ast.Compare) and len(t.ops) == 1:
        l_, r_ = t.left, t.comparators[0]
        if mode is None and ((norm(l_) == ivar and cap_like(r_)) or (norm(r_) == ivar and cap_like(l_))):
            mode = cap_like(r_) if norm(l_) == ivar else cap_like(l_)          # a recognised operand pair with the wrong operator: decided (VIOLATED) below
        if norm(l_) == ivar and cap_like(r_) and isinstance(t.ops[0], (ast.Eq, ast.GtE)):
            okt, mode = True, cap_like(r_)
        elif norm(r_) == ivar and cap_like(l_) and isinstance(t.ops[0], (ast.Eq, ast.LtE)):
            okt, mode = True, cap_like(l_)
    k.check("growth-test", okt, t, "buffers grow as soon as the fill index reaches the capacity (so index < capacity at every store)",
            f"growth test `{norm(t)}` lets the fill index reach the capacity before growing: the next store is out of bounds "
            f"(numba does not bounds-check)")
    gb = growth_body
    add = None
    g_dis = g_al = g_cap = None
    for s in gb:
        if isinstance(s, ast.Assign) and isinstance(s.targets[0], ast.Name) and isinstance(s.value, ast.Call) and \
                norm(s.value.func) in ("extend_right_disorders", "extend_right_alignments") and len(s.value.args) == 2:
            if norm(s.targets[0]) == dis_buf and norm(s.value.args[0]) == dis_buf and norm(s.value.func) == "extend_right_disorders":
                g_dis = norm(s.value.args[1])
            if norm(s.targets[0]) == al_buf and norm(s.value.args[0]) == al_buf and norm(s.value.func) == "extend_right_alignments":
                g_al = norm(s.value.args[1])
        if isinstance(s, ast.AugAssign) and norm(s.target) == cap and isinstance(s.op, ast.Add):
            g_cap = norm(s.value)
    if g_dis is None and g_al is None:
        return k.undecided("growth-same", G, "buffers are not grown through extend_right_*: the capacity-invariant argument does not apply to this design")
    if mode == "length":
        # nothing to keep in step: the test reads the buffer's own length; both buffers start equal (cap-init) and must grow alike
        same = g_dis is not None and g_dis == g_al and g_cap is None
    else:
        same = g_dis is not None and g_dis == g_al == g_cap
    k.check("growth-same", same, G, "both buffers and the capacity grow by the same amount",
            f"buffers and capacity grow differently (disorders +{g_dis}, alignments +{g_al}, capacity +{g_cap}): the invariant "
            f"capacity == len(buffers) breaks and a later store is out of bounds or candidates are lost")
    if same:
        adef2 = assigned_value(f.node, g_dis)
        pos = False
        for v in adef2:
            vx = norm(expand_locals(f.node, v, skip=(cap, ivar)))
            if vx in (f"{cap} // 2", cap) or (isinstance(v, ast.Constant) and isinstance(v.value, int) and v.value >= 1) or \
                    (mode == "length" and vx in {f"{x} // 2" for x in length_forms} | length_forms):
                pos = True
        if g_dis.isdigit() and int(g_dis) >= 1:
            pos = True
        k.check("growth-positive", pos and len(adef2) <= 1 or g_dis.isdigit(), G, "growth amount is at least 1",
                "growth amount is not provably >= 1")


def _check_final(ctx, k: K, f: FuncInfo, ML: ast.For, c2n_name: str, n_name: str):
    body = f.node.body
    facts = getattr(k, "facts2", None)
    if not facts or facts["dis"] is None or facts["al"] is None:
        return k.undecided("final-slice", None, "buffers unknown")
    ivar, dis, al = facts["ivar"], facts["dis"], facts["al"]
    after = body[body.index(ML) + 1:]
    sl = {}
    # names of the cut results: the buffers themselves (`dis = dis[:k]`) or new names (`kept = dis[:k]`)
    cut_name = {dis: dis, al: al}
    for s in after:
        if isinstance(s, ast.Assign):
            tg = s.targets[0].elts if isinstance(s.targets[0], ast.Tuple) else [s.targets[0]]
            vs = s.value.elts if isinstance(s.value, ast.Tuple) and isinstance(s.targets[0], ast.Tuple) else [s.value]
            for t, v in zip(tg, vs):
                if isinstance(v, ast.Subscript) and isinstance(v.slice, ast.Slice) and norm(v.value) in (dis, al) and isinstance(t, ast.Name):
                    sl[norm(v.value)] = v.slice
                    cut_name[norm(v.value)] = t.id

    def upper(sx):
        try:
            return to_lin(expand_locals(f.node, sx.upper, skip=(ivar,))) if sx is not None and sx.lower is None and sx.upper is not None and sx.step is None else None
        except ZUnsupported:
            return None
    if dis not in sl or al not in sl:
        # the cut may be applied inside another expression (e.g. handed to a helper)
        for stx in after:
            for v in ast.walk(stx):
                if isinstance(v, ast.Subscript) and isinstance(v.slice, ast.Slice) and norm(v.value) in (dis, al):
                    sl.setdefault(norm(v.value), v.slice)
    if dis not in sl or al not in sl:
        return k.undecided("final-slice", next(iter(after), None), "no final cut of the result buffers found after the enumeration loop")
    ud, ua = upper(sl.get(dis)), upper(sl.get(al))
    want = Lin.atom(ivar) - Lin.num(1)
    k.check("final-slice", ud == want and ua == want, next(iter(after), None),
            "both results are cut to [: i - 1]: exactly the last stored candidate (the all-empty tuple) is dropped",
            f"results are cut to disorders[:{ud}] / alignments[:{ua}] instead of [:i-1] on both: the all-empty candidate is kept, "
            f"a real candidate is dropped, or the two arrays get different lengths (the 0.4.1 slicing bug class)")
    dnames = {dis, cut_name[dis]}
    divs = [s for s in after if isinstance(s, ast.AugAssign) and isinstance(s.op, ast.Div) and norm(s.target) in dnames]
    divs_all = [s for s in walk_no_nested(f.node) if isinstance(s, ast.AugAssign) and isinstance(s.op, ast.Div)]
    k.check("final-normalise", len(divs) == 1 and len(divs_all) == 1 and norm(divs[0].value) == c2n_name, divs[0] if divs else None,
            "candidate costs are divided exactly once by C(n,2): they become unitary disorders",
            "candidate costs are not divided exactly once by c2n")
    rets = [s for s in after if isinstance(s, ast.Return)]
    ok = len(rets) == 1 and isinstance(rets[0].value, ast.Tuple) and [norm(x) for x in rets[0].value.elts] == [cut_name[dis], cut_name[al]]
    k.check("final-return", ok, rets[0] if rets else None, "returns (disorders, candidates)", "does not return (disorders, candidates) in this order")
